# coding: utf-8
"""Shared helpers of the bounded stand-ins: feature tables, observation of records through the nucleotides
each location denotes (coordinates read modulo the record length), rotation comparison."""
from __future__ import annotations

import copy


def feature_tables(n, small=False):
    """feature tables for a record of length n; a table is a list of (type, [(start, end, strand)], quals)"""
    simple = [("misc_feature", [(0, min(2, n), 1)], {"label": ["a"]})]
    rev = [("CDS", [(n - 1, n, -1)], {"label": ["b"], "note": ["x", "y"]})]
    whole = [("misc_feature", [(0, n, 1)], {"label": ["whole"]})]
    source = [("source", [(0, n, 1)], {"organism": ["synthetic"]})]
    tables = [[], simple, rev, whole, source]
    if n >= 2:
        tables.append([("gene", [(n - 1, n, 1), (0, 1, 1)], {"label": ["span-join"]})])
        tables.append([("gene", [(n - 1, n + 1, -1)], {"label": ["span-ext"]})])
        tables.append([("misc_feature", [(1, n, None)], {"label": ["nostrand"]})])
    if n >= 3:
        tables.append([("misc_feature", [(0, 1, 1), (2, 3, 1)], {"label": ["join"]})])
        tables.append([("misc_feature", [(2, 3, -1), (0, 1, -1)], {"label": ["join-rev"]})])
        tables.append(simple + rev + [("misc_feature", [(1, 2, 1)], {"label": ["nested"]})] + source)
    if n >= 4:
        tables.append([("misc_feature", [(1, 3, 1)], {"label": ["abut1"]}), ("misc_feature", [(3, 4, -1)], {"label": ["abut2"]})])
    if n >= 5:
        # joins whose parts are several letters long: a rotation can make one part run past the end while the other wraps
        tables.append([("exon", [(0, 2, 1), (3, 5, 1)], {"label": ["join-long"]})])
        tables.append([("exon", [(3, 5, -1), (0, 2, -1)], {"label": ["join-long-rev"]}), ("misc_feature", [(n - 2, n, 1), (0, 2, 1)], {"label": ["span-long"]})])
    extra = []
    if n >= 3:
        # joins whose parts lie on different strands (trans-spliced genes; Biopython reports their strand as None),
        # a strandless part next to a stranded one, and three parts
        extra.append([("gene", [(0, 1, 1), (2, 3, -1)], {"label": ["mixed-strand"]})])
        extra.append([("gene", [(2, 3, -1), (0, 1, 1)], {"label": ["mixed-strand-rev"]})])
        extra.append([("misc_feature", [(0, 1, None), (1, 2, 1), (2, 3, -1)], {"label": ["three-parts"]})])
    if n >= 4:
        # a `source`-typed feature that touches both ends without being the whole circle (an origin-spanning join)
        extra.append([("source", [(n - 2, n, 1), (0, 2, 1)], {"organism": ["part"]})])
    if n >= 2:
        # between-bases markers (GenBank `4^5`: a cut site, an insertion point): zero-length locations, on either strand,
        # also at the origin itself, alone and as a part of a join
        extra.append([("misc_feature", [(1, 1, 1)], {"label": ["cut"]}), ("misc_feature", [(n - 1, n - 1, -1)], {"label": ["cut-rev"]}),
                      ("misc_feature", [(0, 0, None)], {"label": ["origin"]})])
    if n >= 3:
        extra.append([("misc_feature", [(0, 1, 1), (2, 2, 1)], {"label": ["join-with-marker"]})])
    if n >= 3:
        # parts that point into another record (`ref`): alone and inside a join with local parts
        extra.append([("misc_feature", [(1, 3, 1, "remote")], {"label": ["remote"]}),
                      ("gene", [(n - 1, n, 1), (0, 2, -1, "remote"), (0, 1, 1)], {"label": ["join-with-remote"]})])
    if n >= 3:
        # approximate boundaries (GenBank `(1.2)..3`, `1^2`-style between positions, one-of, `<1..>3`): the position classes of
        # Biopython other than ExactPosition; the feature still denotes the stretch between its default coordinates
        extra.append([("misc_feature", [(1, 3, 1, "within")], {"label": ["within"]}), ("misc_feature", [(0, 2, -1, "oneof")], {"label": ["oneof"]})])
        extra.append([("misc_feature", [(n - 2, n, 1, "between")], {"label": ["between"]}), ("misc_feature", [(0, n - 1, 1, "open")], {"label": ["open-ended"]}),
                      ("gene", [(n - 1, n, 1, "within"), (0, 1, 1, "oneof")], {"label": ["fuzzy-join"]})])
    if n >= 2:
        # qualifier values that are not lists of texts (records built by programs, moclo's own provenance features): a plain
        # text, a number, an empty list, a tuple
        extra.append([("CDS", [(0, 2, 1)], {"organism": "synthetic DNA construct", "codon_start": 1, "label": ["plain-values"], "db_xref": [], "EC_number": ("1.1.1.1",)})])
    if small:
        keep = [0, 1, 2, 4, 5, 6, 8, 10, 12, 13]
        tables = [t for i, t in enumerate(tables) if i in keep]
    return tables + extra


def fuzzy_bounds(s, e, kind):
    """start / end position objects of the given flavour whose default coordinates are s and e"""
    from Bio.SeqFeature import WithinPosition, BetweenPosition, OneOfPosition, BeforePosition, AfterPosition, ExactPosition
    if kind == "within":
        return WithinPosition(s, left=s, right=s + 1), WithinPosition(e, left=max(e - 1, s), right=e)
    if kind == "between":
        return BetweenPosition(s, left=s, right=s + 1), BetweenPosition(e, left=max(e - 1, s), right=e)
    if kind == "oneof":
        return OneOfPosition(s, [ExactPosition(s), ExactPosition(s + 1)]), OneOfPosition(e, [ExactPosition(e), ExactPosition(max(e - 1, s))])
    if kind == "open":
        return BeforePosition(s), AfterPosition(e)
    return ExactPosition(s), ExactPosition(e)


def build_location(parts):
    from Bio.SeqFeature import FeatureLocation, CompoundLocation
    locs = []
    for p in parts:
        if len(p) > 3 and p[3] == "remote":
            locs.append(FeatureLocation(p[0], p[1], strand=p[2], ref="J00194.1", ref_db="gb" if p[0] % 2 else None))
        elif len(p) > 3 and p[3]:
            a, b = fuzzy_bounds(p[0], p[1], p[3])
            locs.append(FeatureLocation(a, b, strand=p[2]))
        else:
            locs.append(FeatureLocation(p[0], p[1], strand=p[2]))
    return locs[0] if len(locs) == 1 else CompoundLocation(locs)


def build_features(table):
    from Bio.SeqFeature import SeqFeature
    out = []
    for k, (typ, parts, quals) in enumerate(table):
        out.append(SeqFeature(build_location(parts), type=typ, id="f%d" % k, qualifiers=copy.deepcopy(quals)))
    return out


def norm_strand(s):
    return 1 if s is None else s


def den_parts(feature, n):
    """the nucleotides a feature denotes: for each part the positions (mod n) in reading order of the part,
    with its strand.  None when the feature has no location."""
    loc = feature.location
    if loc is None:
        return None
    out = []
    for p in loc.parts:
        if getattr(p, "ref", None) is not None:
            # a part that points into ANOTHER record (GenBank `J00194.1:100..202`): it denotes nothing of this one and is
            # carried as it is by every operation
            out.append(((("ref", str(p.ref), str(getattr(p, "ref_db", None)), int(p.start), int(p.end)),), p.strand))
            continue
        if int(p.end) == int(p.start):
            # a zero-length part denotes the boundary before position `start`: written as the half-integer position
            # start - 1/2 (rotations add to it, the mirror image n - 1 - x sends it to the boundary it should)
            out.append((((int(p.start) - 0.5) % n,), p.strand))
        else:
            out.append((tuple((int(p.start) + t) % n for t in range(int(p.end) - int(p.start))), p.strand))
    return out


_COMP = {"A": "T", "C": "G", "G": "C", "T": "A", "R": "Y", "Y": "R", "S": "S", "W": "W", "K": "M", "M": "K",
         "B": "V", "V": "B", "D": "H", "H": "D", "N": "N"}


def reading(den, text):
    """what a feature spells: its parts in the order they are listed, each read on its own strand (reverse-complemented
    for -1), positions taken modulo the length.  Order-sensitive, unlike the set of nucleotides denoted."""
    if den is None:
        return None
    out = []
    for (pos, strand) in den:
        letters = [text[p] for p in pos if isinstance(p, int)]      # (a boundary marker or a remote part spells nothing)
        rc_ = [_COMP.get(c.upper(), c) if c.isupper() else _COMP.get(c.upper(), c).lower() for c in reversed(letters)]
        if strand == -1:
            letters = rc_
        elif strand != 1:
            # a strandless part is double-stranded DNA: it spells either strand (canonical form: the smaller one)
            letters = min(letters, rc_)
        out.append("".join(letters))
    return "".join(out)


def observe(rec):
    n = len(rec.seq)
    feats = []
    for f in rec.features:
        d_ = den_parts(f, n) if n else None
        feats.append(dict(type=f.type, id=f.id, quals=repr(sorted((k, v) for k, v in f.qualifiers.items())),
                          den=d_, reads=reading(d_, str(rec.seq)) if n else None))
    return dict(seq=str(rec.seq), id=rec.id, name=rec.name, description=rec.description,
                annotations=repr(sorted((k, repr(v)) for k, v in rec.annotations.items())),
                letan={k: list(v) for k, v in rec.letter_annotations.items()}, features=feats,
                dbxrefs=list(rec.dbxrefs))


def rot_list(v, i):
    n = len(v)
    if n == 0:
        return list(v)
    i %= n
    return list(v[n - i:]) + list(v[:n - i])


def compare_rotation(base, obs, i, n, label):
    """obs must be base rotated right by i (0 <= i < n): problems as strings"""
    pb = []
    if obs["seq"] != "".join(rot_list(base["seq"], i)):
        pb.append("%s: sequence %r, expected %r" % (label, obs["seq"], "".join(rot_list(base["seq"], i))))
    for k in ("id", "name", "description", "annotations", "dbxrefs"):
        if obs[k] != base[k]:
            pb.append("%s: %s not carried (%r vs %r)" % (label, k, obs[k], base[k]))
    if set(obs["letan"]) != set(base["letan"]):
        pb.append("%s: letter annotation tracks %r vs %r" % (label, sorted(obs["letan"]), sorted(base["letan"])))
    else:
        for k, v in base["letan"].items():
            if obs["letan"][k] != rot_list(v, i):
                pb.append("%s: letter annotation %r is %r, expected %r" % (label, k, obs["letan"][k], rot_list(v, i)))
    if len(obs["features"]) != len(base["features"]):
        pb.append("%s: %d features, expected %d" % (label, len(obs["features"]), len(base["features"])))
        return pb
    for fo, fb in zip(obs["features"], base["features"]):
        for k in ("type", "id", "quals"):
            if fo[k] != fb[k]:
                pb.append("%s: feature %s %s not carried" % (label, fb["id"], k))
        if (fo["den"] is None) != (fb["den"] is None):
            pb.append("%s: feature %s location presence changed" % (label, fb["id"]))
            continue
        if fb["den"] is None:
            continue
        if len(fo["den"]) != len(fb["den"]):
            pb.append("%s: feature %s has %d parts, expected %d" % (label, fb["id"], len(fo["den"]), len(fb["den"])))
            continue
        for (po, so), (pbase, sb) in zip(fo["den"], fb["den"]):
            want = tuple(p if isinstance(p, tuple) else (p + i) % n for p in pbase)
            whole_source = fb["type"] == "source" and len(pbase) == n and len(fb["den"]) == 1
            same = (sorted(po) == sorted(want)) if whole_source else (po == want)
            if not same or so != sb:      # (a rotation carries the strand of every part over as it is, None included)
                pb.append("%s: feature %s part denotes %r strand %r, expected %r strand %r" % (
                    label, fb["id"], po, so, want, sb))
    return pb


def preuse(rec, ns):
    """what may have happened to a record object before the operation under test: it was searched, asked for membership,
    sliced, rotated (answers discarded).  Anything an operation memoises on the object is then present."""
    try:
        s = str(rec.seq)
        (s[:1] in rec), ((s[-1:] + s[:1]) in rec)
        ns["moclo.regex"].DNARegex("N").search(rec)
        ns["moclo.regex"].DNARegex("(N)").search(rec, linear=False)
        rec[0:1]
        rec >> 1
        rec << 1
    except Exception:
        pass
    return rec
