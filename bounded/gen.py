# coding: utf-8
"""Generators shared by the bounded stand-ins: instances of structure patterns, enzymes, kit classes."""
from __future__ import annotations

import random
import re

IUPAC = {
    "A": "A", "C": "C", "G": "G", "T": "T", "R": "AG", "Y": "CT", "S": "CG", "W": "AT", "K": "GT", "M": "AC",
    "B": "CGT", "D": "AGT", "H": "ACT", "V": "ACG", "N": "ACGT",
}
COMP = {"A": "T", "C": "G", "G": "C", "T": "A", "R": "Y", "Y": "R", "S": "S", "W": "W", "K": "M", "M": "K",
        "B": "V", "V": "B", "D": "H", "H": "D", "N": "N"}


def rc(s):
    return "".join(COMP[c.upper()] if c.isupper() else COMP[c.upper()].lower() for c in reversed(s))


def parse_structure(pattern):
    """tokens of a structure: ('lit', letter) | ('open',) | ('close',) | ('star', letter, lazy)"""
    toks = []
    i = 0
    while i < len(pattern):
        ch = pattern[i]
        if ch == "(":
            toks.append(("open",))
        elif ch == ")":
            toks.append(("close",))
        elif ch == "*":
            letter = toks.pop()
            assert letter[0] == "lit"
            lazy = i + 1 < len(pattern) and pattern[i + 1] == "?"
            if lazy:
                i += 1
            toks.append(("star", letter[1], lazy))
        elif ch.upper() in IUPAC:
            toks.append(("lit", ch.upper()))
        else:
            raise ValueError("unsupported structure syntax %r in %r" % (ch, pattern))
        i += 1
    return toks


def instance(pattern, rng, run=6, avoid=()):
    """a string matching `pattern` (stars filled with `run` random letters) and the spans of its groups.
    `avoid`: substrings (e.g. recognition sites) that the random filling must not create (retried)."""
    toks = parse_structure(pattern)
    for _ in range(200):
        out = []
        spans = {}
        stack = []
        gno = 0
        fixed = []   # positions that are literal (non-N) letters
        for t in toks:
            if t[0] == "open":
                gno += 1
                stack.append((gno, sum(len(x) for x in out)))
            elif t[0] == "close":
                g, st = stack.pop()
                spans[g] = (st, sum(len(x) for x in out))
            elif t[0] == "lit":
                out.append(rng.choice(IUPAC[t[1]]))
            else:
                out.append("".join(rng.choice(IUPAC[t[1]]) for _ in range(run)))
        s = "".join(out)
        if not any(count_overlapping(s + s[: 10], a) > count_literal(pattern, a) for a in avoid):
            return s, spans
    return s, spans


def count_overlapping(s, sub):
    if not sub:
        return 0
    u, d = sub.upper(), s.upper()
    if all(c in "ACGT" for c in u):
        return sum(1 for i in range(len(d) - len(u) + 1) if d[i:i + len(u)] == u)
    # `sub` holds ambiguity codes (a recognition site such as CCDG): a text letter matches a code it stands for (or the
    # very same code, when the text is itself a pattern)
    ok = lambda x, c: x == c or (x in "ACGT" and x in IUPAC.get(c, ""))
    return sum(1 for i in range(len(d) - len(u) + 1) if all(ok(d[i + j], u[j]) for j in range(len(u))))


def count_literal(pattern, sub):
    flat = re.sub(r"[()*?]", "", pattern)
    return count_overlapping(flat, sub)


def random_dna(rng, n, avoid=()):
    for _ in range(500):
        s = "".join(rng.choice("ACGT") for _ in range(n))
        if not any(count_overlapping(s, a) for a in avoid):
            return s
    return s


def concrete_classes(kits):
    """every concrete (instantiable) class of the kit modules that has a structure()"""
    import inspect
    out = []
    seen = set()
    for kname, mod in sorted(kits.items()):
        if isinstance(mod, Exception):
            continue
        for name, obj in sorted(vars(mod).items()):
            if not inspect.isclass(obj) or obj.__module__ != mod.__name__ or obj in seen:
                continue
            try:
                s = obj.structure()
            except Exception:
                continue
            if not isinstance(s, str):
                continue
            if getattr(obj, "cutter", NotImplemented) is NotImplemented:
                continue
            seen.add(obj)
            out.append(obj)
    return out


def qualifying_enzymes():
    """5' Type IIS cutters a kit may declare: single cut, non-palindromic, unambiguous site, cut past the site"""
    from Bio import Restriction
    out = []
    for name in sorted(Restriction.AllEnzymes.elements()):
        e = getattr(Restriction, name)
        try:
            if not e.is_5overhang() or e.is_palindromic() or e.cut_twice():
                continue  # (is_ambiguous() is about the overhang, which is always N..N here)
            site = e.site
            if any(c not in "ACGT" for c in site):
                continue
            if e.fst5 is None or e.fst5 <= len(site) or e.ovhg is None:
                continue
            k = -e.ovhg if e.ovhg < 0 else e.ovhg
            el = e.elucidate()
            a = e.fst5 - len(site)
            if el != site + "N" * a + "^" + "N" * k + "_" + "N":
                continue
            out.append((name, e, site, a, k))
        except Exception:
            continue
    return out


def ambiguous_site_enzymes():
    """5' cutters with the same cut geometry as the qualifying ones whose recognition site holds ambiguity codes
    (LpnPI CCDG, AvaI-like ones excluded when palindromic): the library accepts them as cutters like any other"""
    from Bio import Restriction
    out = []
    for name in sorted(Restriction.AllEnzymes.elements()):
        e = getattr(Restriction, name)
        try:
            if not e.is_5overhang() or e.is_palindromic() or e.cut_twice():
                continue
            site = e.site
            if all(c in "ACGT" for c in site) or any(c not in IUPAC for c in site):
                continue
            if e.fst5 is None or e.fst5 <= len(site) or e.ovhg is None:
                continue
            k = -e.ovhg if e.ovhg < 0 else e.ovhg
            a = e.fst5 - len(site)
            if e.elucidate() != site + "N" * a + "^" + "N" * k + "_" + "N":
                continue
            out.append((name, e, site, a, k))
        except Exception:
            continue
    return out
