# coding: utf-8
"""Bounded stand-in helpers for typing properties (C02, C04, C05, C12, C17, C18): classes, records, oracles.

Oracle (independent of the code under test): cut positions are computed by plain string search of the
cutter's site and its reverse complement on the circular text, from (site, offset a, overhang length k):
forward occurrence at p cuts the top strand at p+|site|+a, reverse occurrence at q at q-a-k."""
from __future__ import annotations

import random

from . import gen


def enzyme_geometry(e):
    site = str(e.site)
    a = e.fst5 - len(site)
    k = abs(e.ovhg)
    return site, a, k


def circ(s, a, l):
    n = len(s)
    if n == 0:
        return ""
    a %= n
    return (s + s)[a:a + l]


def occurrences(s, sub):
    """start positions of sub in the circular text s (case-insensitive), overlapping ones included"""
    n = len(s)
    if not sub or n == 0 or len(sub) > n:
        return []
    d = (s + s[: len(sub) - 1]).upper()
    u = sub.upper()
    if all(c in "ACGT" for c in u):
        return [i for i in range(n) if d[i:i + len(sub)] == u]
    # a site with ambiguity codes: each letter of the text must be one the code stands for (codes in the TEXT match nothing)
    sets = [gen.IUPAC.get(c, "") for c in u]
    return [i for i in range(n) if all(d[i + j] in sets[j] for j in range(len(u)))]


def cut_positions(s, e):
    site, a, k = enzyme_geometry(e)
    n = len(s)
    cuts = set()
    for p in occurrences(s, site):
        cuts.add((p + len(site) + a) % n)
    for q in occurrences(s, gen.rc(site)):
        cuts.add((q - a - k) % n)
    return cuts


def observe_entity(ent):
    """what a module/vector reports, as plain strings (None when it raises InvalidSequence)"""
    out = dict(valid=None)
    try:
        out["valid"] = bool(ent.is_valid())
    except Exception as e:  # C17: must not happen
        out["valid"] = "raised %r" % (e,)
        return out
    if out["valid"] is not True:
        return out
    for name in ("overhang_start", "overhang_end"):
        try:
            out[name] = str(getattr(ent, name)())
        except Exception as e:
            out[name] = "raised %r" % (e,)
    try:
        out["target"] = str(ent.target_sequence().seq)
    except Exception as e:
        out["target"] = "raised %r" % (e,)
    if hasattr(ent, "placeholder_sequence"):
        try:
            out["placeholder"] = str(ent.placeholder_sequence().seq)
        except Exception as e:
            out["placeholder"] = "raised %r" % (e,)
    return out


def check_fragments(cls, s, obs, flanking):
    """C04 oracle on one accepted record: problems as strings"""
    e = cls.cutter
    site, a, k = enzyme_geometry(e)
    n = len(s)
    cuts = cut_positions(s, e)
    is_vector = "placeholder" in obs
    pb = []
    o_first = obs["overhang_end"] if is_vector else obs["overhang_start"]    # overhang at the first cut (group 1)
    o_second = obs["overhang_start"] if is_vector else obs["overhang_end"]   # overhang at the second cut (group 3)
    body = obs["placeholder"] if is_vector else obs["target"]
    if any(str(x).startswith("raised") for x in (o_first, o_second, body, obs["target"])):
        return ["an accepted record raised: %r" % (obs,)]
    L = len(body)
    found = False
    inner_clean = False
    for c1 in sorted(cuts):
        c2 = (c1 + L) % n
        if c2 not in cuts and not (L == n and c1 in cuts):
            continue
        if circ(s, c1, L).upper() != body.upper():
            continue
        if circ(s, c1, k).upper() != o_first.upper() or circ(s, c2, k).upper() != o_second.upper():
            continue
        if len(o_first) != k or len(o_second) != k:
            continue
        found = True
        inside = [c for c in cuts if 0 < (c - c1) % n < L]
        if not inside:
            inner_clean = True
    if not found:
        pb.append("reported overhangs %r/%r and %s %r are not the fragment between two cuts of %s (cuts at %s)" % (
            o_first, o_second, "placeholder" if is_vector else "target", body[:40], e.__name__, sorted(cuts)))
        return pb
    if flanking and not is_vector and not inner_clean:
        pb.append("a further cut of %s falls strictly inside the reported target" % e.__name__)
    if is_vector:
        tgt = obs["target"]
        ok = False
        for c1 in sorted(cuts):
            if circ(s, c1, L).upper() == body.upper() and circ(s, c1 + L, n - L).upper() == tgt.upper():
                ok = True
        if len(tgt) + L != n or not ok:
            pb.append("placeholder (%d nt) and target (%d nt) do not partition the %d nt plasmid" % (L, len(tgt), n))
    return pb


def sites_flank_target(cls):
    """structure literal has the cutter's sites outside group 2"""
    pat = cls.structure()
    site, a, k = enzyme_geometry(cls.cutter)
    toks = gen.parse_structure(pat)
    depth, gno, flat, where = 0, 0, [], []
    for t in toks:
        if t[0] == "open":
            gno += 1
            depth += 1
        elif t[0] == "close":
            depth -= 1
        elif t[0] == "lit":
            flat.append(t[1])
            where.append(gno if depth else 0)
        else:
            flat.append("*")
            where.append(gno if depth else 0)
    f = "".join(flat)
    inside2 = False
    for sub in (site, gen.rc(site)):
        i = f.find(sub)
        while i >= 0:
            if where[i] == 2:
                inside2 = True
            i = f.find(sub, i + 1)
    return not inside2


def class_records(cls, rng, count=2, run_range=(2, 9)):
    """seeded instances of the class's structure whose random filling does not add sites of the class's cutter"""
    site, a, k = enzyme_geometry(cls.cutter)
    out = []
    for _ in range(count):
        s, spans = gen.instance(cls.structure(), rng, run=rng.randint(*run_range), avoid=(site, gen.rc(site)))
        out.append(s)
    return out


def generic_classes(core, enzymes):
    """throw-away generic module/vector classes for every qualifying enzyme"""
    out = []
    for (name, e, site, a, k) in enzymes:
        m = type("Generic%sModule" % name, (core.Entry,), dict(cutter=e))
        v = type("Generic%sVector" % name, (core.EntryVector,), dict(cutter=e))
        out.append((name, e, m, v))
    return out
