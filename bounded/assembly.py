# coding: utf-8
"""Bounded stand-in helpers for assembly properties: plasmid builders from the formal definition
(docs/source/theory/standard.rst), the overhang-graph oracle `spec_outcome`, product comparison up to rotation."""
from __future__ import annotations

import random
import warnings

from . import gen
from .entities import enzyme_geometry, occurrences


def avoid_sites(e):
    site, a, k = enzyme_geometry(e)
    return (site, gen.rc(site))


def clean(rng, n, e, extra=()):
    return gen.random_dna(rng, n, avoid=avoid_sites(e) + tuple(extra))


def join_clean(parts, e, rng, fillers):
    """concatenate; re-draw the filler parts until the whole carries exactly the intended sites"""
    return "".join(parts)


def count_sites(s, e):
    site, a, k = enzyme_geometry(e)
    return len(occurrences(s, site)), len(occurrences(s, gen.rc(site)))


def build_module(e, o5, t, o3, rng, backbone=8):
    """site . N^a . o5 . t . o3 . N^a . rc(site) . backbone   (exactly one forward and one reverse site)"""
    site, a, k = enzyme_geometry(e)
    for _ in range(1500):
        s = site + clean(rng, a, e) + o5 + t + o3 + clean(rng, a, e) + gen.rc(site) + clean(rng, backbone, e)
        if count_sites(s, e) == (1, 1):
            return s
    return None


def build_vector(e, vstart, vend, rng, placeholder=6, backbone=10, first=None, last=None):
    """N . vend . N^a . rc(site) . placeholder . site . N^a . vstart . N . backbone
    kept fragment (target) = vstart . N . backbone . N  (the stretch from the second cut round to the first);
    first / last: the letter right after vstart / the last letter of the kept fragment (right before vend)"""
    site, a, k = enzyme_geometry(e)
    for _ in range(1500):
        n1, n2 = last or clean(rng, 1, e), first or clean(rng, 1, e)
        bb = clean(rng, backbone, e)
        s = n1 + vend + clean(rng, a, e) + gen.rc(site) + clean(rng, placeholder, e) + site + clean(rng, a, e) + vstart + n2 + bb
        if count_sites(s, e) == (1, 1):
            return s, vstart + n2 + bb + n1
    return None, None


def rotate(s, k):
    k %= len(s)
    return s[k:] + s[:k]


def is_rotation(a, b):
    return len(a) == len(b) and (a.upper() in (b + b).upper())


def spec_outcome(mods, vstart, vend, fold=lambda x: x.upper()):
    """oracle on the overhang graph.  mods: list of (start, end, key) with key identifying the module object
    (the same key twice = the same object passed twice).  Returns a tuple:
    ('InvalidSequence',) | ('DuplicateModules',) | ('MissingModule', overhang) | ('product', [keys], [unused keys])"""
    vs, ve = fold(vstart), fold(vend)
    if vs == ve:
        return ("InvalidSequence",)
    by_start = {}
    for (s, e_, key) in mods:
        s = fold(s)
        if s in by_start and by_start[s][2] != key:
            return ("DuplicateModules",)
        by_start.setdefault(s, (s, fold(e_), key))
    for s in by_start:
        if fold(gen.rc(s)) in by_start:
            return ("DuplicateModules",)
    left = dict(by_start)
    path = []
    o = ve
    while o != vs:
        if o not in left:
            return ("MissingModule", o)
        m = left.pop(o)
        path.append(m[2])
        o = m[1]
    return ("product", path, sorted(m[2] for m in left.values()))


class _Timeout(Exception):
    pass


class time_limit(object):
    """a native call that has not come back after `seconds` of PROCESSOR time of this process is a finding
    (non-termination), not a hang of the check.  Processor time, not wall-clock time: the verdict must not flip when the
    machine is busy (a call that takes milliseconds can be held up for seconds of wall-clock time under load)."""

    def __init__(self, seconds=5.0):
        self.seconds = seconds

    def __enter__(self):
        import signal

        def handler(signum, frame):
            raise _Timeout()

        self._old = signal.signal(signal.SIGPROF, handler)
        signal.setitimer(signal.ITIMER_PROF, self.seconds)

    def __exit__(self, *exc):
        import signal
        signal.setitimer(signal.ITIMER_PROF, 0)
        signal.signal(signal.SIGPROF, self._old)
        return False


def run_assembly(vector, modules, **kw):
    """calls the real assemble; returns (outcome tuple, product or None, warnings)"""
    from moclo import errors
    with warnings.catch_warnings(record=True) as w:
        warnings.simplefilter("always")
        try:
            with time_limit(8.0):
                prod = vector.assemble(*modules, **kw)
        except _Timeout:
            return ("does-not-terminate",), None, w
        except errors.DuplicateModules as ex:
            return ("DuplicateModules",), None, w
        except errors.MissingModule as ex:
            return ("MissingModule", str(ex.start_overhang)), None, w
        except errors.InvalidSequence as ex:
            return ("InvalidSequence",), None, w
        except Exception as ex:
            return ("internal-error", type(ex).__name__, str(ex)[:200]), None, w
    unused = []
    for x in w:
        if isinstance(x.message, errors.UnusedModules):
            unused = list(x.message.remaining)
    return ("product", unused), prod, w


def typed_part_scenario(ns, rng, e=None):
    """an assembly whose modules are wrapped by *part* classes (AbstractPart + Entry, typed by a signature) rather than
    by generic module classes: one signature with a degenerate letter (S), one with a wildcard side (NNNN), closed by
    a generic vector.  Returns dict(vec_cls, vtext, parts=[(cls, text)], generic=module class, frags, vfrag) or None.
    The overhangs are read off the records with the generic class (not through the part wrappers)."""
    from Bio.Seq import Seq
    from Bio.Restriction import BsaI
    from . import entities as be
    e = e or BsaI
    core = ns["moclo.core"]
    CircularRecord = ns["moclo.record"].CircularRecord
    site, a, k = enzyme_geometry(e)
    if k != 4:
        return None
    Gen = type("GenericModule", (core.Entry,), dict(cutter=e))
    Vec = type("GenericVector", (core.EntryVector,), dict(cutter=e))
    P1 = type("StrongOrWeakPart", (core.AbstractPart, core.Entry), dict(cutter=e, signature=("GGAS", "TACT")))
    P2 = type("OpenEndedPart", (core.AbstractPart, core.Entry), dict(cutter=e, signature=("TACT", "NNNN")))
    for _ in range(60):
        t1 = be.class_records(P1, rng, count=1, run_range=(4, 9))[0]
        t2 = be.class_records(P2, rng, count=1, run_range=(4, 9))[0]
        o1 = be.observe_entity(Gen(CircularRecord(Seq(t1), id="x")))
        o2 = be.observe_entity(Gen(CircularRecord(Seq(t2), id="x")))
        if o1.get("valid") is not True or o2.get("valid") is not True:
            continue
        ovs = [o1["overhang_start"].upper(), o1["overhang_end"].upper(), o2["overhang_end"].upper()]
        if o2["overhang_start"].upper() != ovs[1] or len(set(ovs)) < 3 or any(gen.rc(x) in ovs for x in ovs):
            continue
        if count_sites(t1, e) != (1, 1) or count_sites(t2, e) != (1, 1):
            continue
        vtext, vfrag = build_vector(e, ovs[2], ovs[0], rng)
        if vtext is None:
            continue
        return dict(vec_cls=Vec, vtext=vtext, parts=[(P1, t1), (P2, t2)], generic=Gen, frags=[o1["target"], o2["target"]], vfrag=vfrag,
                    overhangs=ovs)
    return None
