# coding: utf-8
"""Bounded stand-in helpers for assembly properties: plasmid builders from the formal definition
(docs/source/theory/standard.rst), the overhang-graph oracle `spec_outcome`, product comparison up to rotation."""
from __future__ import annotations

import random
import warnings

from . import gen
from .entities import enzyme_geometry, occurrences


def avoid_sites(e):
    site, a, k = enzyme_geometry(e)
    return (site, gen.rc(site))


def clean(rng, n, e, extra=()):
    return gen.random_dna(rng, n, avoid=avoid_sites(e) + tuple(extra))


def join_clean(parts, e, rng, fillers):
    """concatenate; re-draw the filler parts until the whole carries exactly the intended sites"""
    return "".join(parts)


def count_sites(s, e):
    site, a, k = enzyme_geometry(e)
    return len(occurrences(s, site)), len(occurrences(s, gen.rc(site)))


def build_module(e, o5, t, o3, rng, backbone=8):
    """site . N^a . o5 . t . o3 . N^a . rc(site) . backbone   (exactly one forward and one reverse site)"""
    site, a, k = enzyme_geometry(e)
    for _ in range(1500):
        s = site + clean(rng, a, e) + o5 + t + o3 + clean(rng, a, e) + gen.rc(site) + clean(rng, backbone, e)
        if count_sites(s, e) == (1, 1):
            return s
    return None


def build_vector(e, vstart, vend, rng, placeholder=6, backbone=10):
    """N . vend . N^a . rc(site) . placeholder . site . N^a . vstart . N . backbone
    kept fragment (target) = vstart . N . backbone . N  (the stretch from the second cut round to the first)"""
    site, a, k = enzyme_geometry(e)
    for _ in range(1500):
        n1, n2 = clean(rng, 1, e), clean(rng, 1, e)
        bb = clean(rng, backbone, e)
        s = n1 + vend + clean(rng, a, e) + gen.rc(site) + clean(rng, placeholder, e) + site + clean(rng, a, e) + vstart + n2 + bb
        if count_sites(s, e) == (1, 1):
            return s, vstart + n2 + bb + n1
    return None, None


def rotate(s, k):
    k %= len(s)
    return s[k:] + s[:k]


def is_rotation(a, b):
    return len(a) == len(b) and (a.upper() in (b + b).upper())


def spec_outcome(mods, vstart, vend, fold=lambda x: x.upper()):
    """oracle on the overhang graph.  mods: list of (start, end, key) with key identifying the module object
    (the same key twice = the same object passed twice).  Returns a tuple:
    ('InvalidSequence',) | ('DuplicateModules',) | ('MissingModule', overhang) | ('product', [keys], [unused keys])"""
    vs, ve = fold(vstart), fold(vend)
    if vs == ve:
        return ("InvalidSequence",)
    by_start = {}
    for (s, e_, key) in mods:
        s = fold(s)
        if s in by_start and by_start[s][2] != key:
            return ("DuplicateModules",)
        by_start.setdefault(s, (s, fold(e_), key))
    for s in by_start:
        if fold(gen.rc(s)) in by_start:
            return ("DuplicateModules",)
    left = dict(by_start)
    path = []
    o = ve
    while o != vs:
        if o not in left:
            return ("MissingModule", o)
        m = left.pop(o)
        path.append(m[2])
        o = m[1]
    return ("product", path, sorted(m[2] for m in left.values()))


class _Timeout(Exception):
    pass


class time_limit(object):
    """a native call that does not come back within `seconds` is a finding (non-termination), not a hang of the check"""

    def __init__(self, seconds=5.0):
        self.seconds = seconds

    def __enter__(self):
        import signal

        def handler(signum, frame):
            raise _Timeout()

        self._old = signal.signal(signal.SIGALRM, handler)
        signal.setitimer(signal.ITIMER_REAL, self.seconds)

    def __exit__(self, *exc):
        import signal
        signal.setitimer(signal.ITIMER_REAL, 0)
        signal.signal(signal.SIGALRM, self._old)
        return False


def run_assembly(vector, modules, **kw):
    """calls the real assemble; returns (outcome tuple, product or None, warnings)"""
    from moclo import errors
    with warnings.catch_warnings(record=True) as w:
        warnings.simplefilter("always")
        try:
            with time_limit(5.0):
                prod = vector.assemble(*modules, **kw)
        except _Timeout:
            return ("does-not-terminate",), None, w
        except errors.DuplicateModules as ex:
            return ("DuplicateModules",), None, w
        except errors.MissingModule as ex:
            return ("MissingModule", str(ex.start_overhang)), None, w
        except errors.InvalidSequence as ex:
            return ("InvalidSequence",), None, w
        except Exception as ex:
            return ("internal-error", type(ex).__name__, str(ex)[:200]), None, w
    unused = []
    for x in w:
        if isinstance(x.message, errors.UnusedModules):
            unused = list(x.message.remaining)
    return ("product", unused), prod, w
