# coding: utf-8
"""One generator of *assembly scenarios* shared by the bounded stand-ins of the assembly-level properties.

The seeded changes that were missed at first had one thing in common: they need a *combination* of unusual but legal
input dimensions that the property's own generator did not cross (lower case x origin inside an overhang; a replacement
module x a clashing record id; a long reference list x a shared reference; a source-typed feature x a rotation ...).
A scenario here is drawn from the cross product of all the dimensions met so far; every property runs its *own* oracle
over the same scenarios.

A scenario is built from a *spec* (plain data, deterministic): the same spec with one dimension overridden (all upper
case, no rotation) is the reference of the differential oracles (C18, C02).

Dimensions: enzyme geometry; chain length; junction overhangs (random / spelling a recognition site across the scar);
per-record spelling (upper, lower, per-letter mixed, regional) and rotation (biased to the boundaries: cut positions,
inside the overhangs, inside the sites, around the origin of the match); record ids (unique, clashing, Biopython's
default); topology annotation spelling; feature tables placed relative to the retained stretch (simple, reverse, joins
on one strand, on both strands, strandless, source-typed, crossing a boundary, outside, spanning the plasmid origin);
own provenance features naming an ancestor; literature citations (0..13 references told apart by one field, shared
between records, cited by inherited and by discarded features); a supplied module that is not used; the same module
object passed twice.
"""
from __future__ import annotations

import copy
import random

from . import gen, assembly as ba
from .entities import enzyme_geometry

REF_FIELDS = ("title", "journal", "comment", "pubmed_id", "authors", "medline_id", "consrtm")


def refkey(r):
    return "|".join(repr(getattr(r, f, None)) for f in REF_FIELDS)


def _recase(s, mode, rng, region=None):
    if mode == "upper":
        return s.upper()
    if mode == "lower":
        return s.lower()
    if mode == "mixed":
        return "".join(c.lower() if rng.random() < 0.5 else c.upper() for c in s)
    if mode == "regional" and region:
        a, ln = region
        n = len(s)
        idx = {(a + t) % n for t in range(ln)}
        return "".join(c.lower() if i in idx else c.upper() for i, c in enumerate(s))
    return s


OTHER_GEOMETRIES = ("SapI", "HgaI", "BbvI", "EarI", "BspQI")     # overhangs of 3 and 5 letters, a cut 8 letters away from the site


def draw_spec(rng, tier="quick", enzyme=None):
    """plain-data description of one scenario"""
    import Bio.Restriction as R_
    ename = rng.choice(["BsaI", "BsaI", "BpiI", "BsmBI"])
    if enzyme is not None:
        ename = enzyme
    e = getattr(R_, ename)
    site, a, k = enzyme_geometry(e)
    chain = rng.choice([1, 2, 2, 3])
    scar = chain >= 2 and len(site) == k + 2 and rng.random() < 0.15
    for _ in range(200):
        ovs = []
        while len(ovs) < chain + 2:
            o = ba.clean(rng, k, e)
            if o in ovs or gen.rc(o) in ovs or gen.rc(o) == o:
                continue
            ovs.append(o)
        # the overhang the chain ends with (the vector's upstream one) is no module's start: it may be the reverse
        # complement of one (also of the vector's other overhang), or a palindrome
        rel = rng.random()
        if rel < 0.25:
            ovs[chain] = gen.rc(ovs[rng.randrange(chain)])
        elif rel < 0.35 and k % 2 == 0:
            half = ba.clean(rng, k // 2, e)
            pal = half + gen.rc(half)
            if pal not in ovs and site.upper() not in pal.upper():
                ovs[chain] = pal
        word = rng.choice([site, gen.rc(site)])
        if scar:
            ovs[1] = word[1:-1]
            if len(set(ovs) | {gen.rc(o) for o in ovs}) < 2 * len(ovs):
                continue
        break
    plasmids = []
    for i in range(chain):
        for _ in range(50):
            t = ba.clean(rng, rng.randint(2, 11), e)
            if scar and i == 0:
                t = t[:-1] + word[0]
            if scar and i == 1:
                t = word[-1] + t[1:]
            text = ba.build_module(e, ovs[i], t, ovs[i + 1], rng, backbone=rng.choice([0, 0, 1, 2] + list(range(3, 15))))   # (0: the structure fills the plasmid)
            if text is not None:
                break
        else:
            return None
        st = len(site) + a          # (layout of build_module: site . N^a . o5 . t . o3 ...; searching for o5 + t can hit the site itself)
        plasmids.append(dict(role="module", text=text, inside=(st, k + len(t)), frag=ovs[i] + t))
    ph_ = rng.choice([0, 1, 2] + list(range(3, 10)))
    vtext, vfrag = ba.build_vector(e, ovs[chain], ovs[0], rng, placeholder=ph_, backbone=rng.choice([0, 1] + list(range(2, 15))))
    if vtext is None:
        return None
    # (layout of build_vector: N . vend . N^a . rc(site) . placeholder . site . N^a . vstart . N . backbone; the kept stretch starts at vstart)
    vst = 1 + k + a + len(site) + ph_ + len(site) + a
    assert (vtext + vtext)[vst:vst + len(vfrag)] == vfrag
    plasmids.append(dict(role="vector", text=vtext, inside=(vst, len(vfrag)), frag=vfrag))
    unused = None
    if rng.random() < 0.3:
        if chain == 1 and rng.random() < 0.5 and gen.rc(ovs[chain]) not in ovs[:chain] and gen.rc(ovs[chain]) != ovs[chain]:
            # the same fragment supplied once more, from the other strand (its start overhang is the reverse complement of
            # the chain's last overhang: not when that is a module's start already, or a palindrome -- a legitimate DuplicateModules)
            utext = gen.rc(plasmids[0]["text"])
        else:
            utext = ba.build_module(e, ovs[chain + 1], ba.clean(rng, 5, e), ovs[chain + 1] if chain == 1 else ovs[1], rng)
        if utext is not None:
            unused = dict(role="module", text=utext, inside=(0, 0), frag="")
    ids_mode = rng.choice(["unique", "unique", "unique", "clash", "default"])
    nrefs = rng.choice([0, 0, 1, 2, 3, 13])
    shared_ref = nrefs > 0 and rng.random() < 0.4
    spec = dict(enzyme=ename, chain=chain, scar=scar, plasmids=plasmids, unused=unused, ids_mode=ids_mode, nrefs=nrefs,
                shared_ref=shared_ref, twice=(rng.random() < 0.1), own_source=(rng.random() < 0.35),
                topology=rng.choice(["circular", "circular", "Circular", None]), feat_seed=rng.randrange(10 ** 9),
                # histories: the wrappers are asked about themselves before being assembled; the annotations mapping of a
                # record is replaced after construction (no topology key at all)
                prequery=rng.choice([None, None, "valid", "overhangs", "target", "all"]), replace_annotations=(rng.random() < 0.3),
                order_seed=rng.randrange(10 ** 9))
    for j, p in enumerate(plasmids + ([unused] if unused else [])):
        n = len(p["text"])
        a0, ln = p["inside"]
        # boundary-biased rotation: right rotation r moves position q to q + r; the landmarks are brought onto the origin
        marks = [0, a0, a0 + 1, a0 + k - 1, a0 + k, a0 + ln - 1, a0 + ln, a0 + ln + 1, a0 + ln + k - 1, a0 - 1, a0 - a - 1,
                 a0 - a - len(site) + 1, a0 - a - len(site)]
        r = (n - rng.choice(marks)) % n if rng.random() < 0.6 else rng.randrange(n)
        p["rot"] = r
        p["case"] = rng.choice(["upper", "upper", "lower", "mixed", "regional"])
        p["region"] = ((a0 - rng.randint(0, k)) % n, k + rng.randint(0, 3))
        p["case_seed"] = rng.randrange(10 ** 9)
        # how the record object came to be: made for this text, or an object that held (and was searched, typed, rotated
        # with) another sequence before the caller gave it this one -- directly or through a copy
        p["made"] = random.Random(p["case_seed"] + 1).choice(["fresh", "fresh", "fresh", "recycled", "copied"])
    return spec


def _features_for(p, k, rng):
    """feature specs relative to the unrotated text: (label, [(start mod n, length, strand)], type, cites)"""
    n = len(p["text"])
    a, L = p["inside"]
    rel = lambda off, ln, sd=1: ((a + off) % n, ln, sd)
    cand = []
    if L <= 0:
        return cand
    cand.append(("in-simple", [rel(1, max(1, min(3, L - 1)))], "misc_feature"))
    cand.append(("in-rev", [rel(0, min(2, L), -1)], "CDS"))
    cand.append(("in-whole", [rel(0, L)], "misc_feature"))
    cand.append(("out-left", [rel(-1, 3)], "misc_feature"))
    cand.append(("out-right", [rel(L - 1, 3, -1)], "misc_feature"))
    cand.append(("outside", [rel(L + 2, 3)], "misc_feature"))
    cand.append(("in-nostrand", [rel(0, min(2, L), None)], "misc_feature"))
    if L >= 5:
        cand.append(("in-join", [rel(0, 2), rel(3, 2)], "exon"))
        cand.append(("in-join-rev", [rel(3, 2, -1), rel(0, 2, -1)], "exon"))
        cand.append(("in-join-mixed", [rel(0, 2, 1), rel(3, 2, -1)], "gene"))
        cand.append(("half-join", [rel(1, 2), rel(L + 1, 2)], "misc_feature"))
        cand.append(("in-source-typed", [rel(1, 3)], "source"))
        # features spanning exactly the retained stretch, also source-typed ones (what the generated provenance feature spans)
        cand.append(("in-marker", [rel(2, 0)], "misc_feature"))          # a between-bases marker (zero-length location)
        cand.append(("whole-source-typed", [rel(0, L)], "source"))
        cand.append(("whole-source-typed-rev", [rel(0, L, -1)], "source"))
        cand.append(("whole-join", [rel(0, 2), rel(2, L - 2)], "source" if rng.random() < 0.5 else "misc_feature"))
    picked = [c for c in cand if rng.random() < 0.55]
    return picked


def build(ns, spec, override=None):
    """materialise a spec: returns a Scenario (entities, expected product, expected inherited features, citations)"""
    from Bio.Seq import Seq
    from Bio.SeqFeature import SeqFeature, FeatureLocation, CompoundLocation, Reference
    import Bio.Restriction as R
    spec = copy.deepcopy(spec)
    override = override or {}
    e = getattr(R, spec["enzyme"])
    site, a, k = enzyme_geometry(e)
    core = ns["moclo.core"]
    CircularRecord = ns["moclo.record"].CircularRecord
    Mod = type("SModule", (core.Entry,), dict(cutter=e))
    Vec = type("SVector", (core.EntryVector,), dict(cutter=e))
    frng = random.Random(spec["feat_seed"])
    plasmids = spec["plasmids"] + ([spec["unused"]] if spec["unused"] else [])
    chain = spec["chain"]
    exp = "".join(p["frag"] for p in spec["plasmids"])
    offs, off = [], 0
    for p in spec["plasmids"]:
        offs.append(off)
        off += len(p["frag"])
    names = []
    for j, p in enumerate(plasmids):
        if p is spec.get("unused") or (spec["unused"] and j == len(plasmids) - 1):
            nm = "pUnused"
        elif p["role"] == "vector":
            nm = "pVec"
        else:
            nm = "pMod%d" % j
        names.append(nm)
    ids = list(names)
    if spec["ids_mode"] == "clash" and chain >= 1:
        ids[0] = ids[-1 if not spec["unused"] else -2]     # module 0 carries the vector's id
        if chain >= 2:
            ids[1] = ids[0]
    elif spec["ids_mode"] == "default":
        ids = ["<unknown id>"] * len(ids)
    shared = None
    if spec["shared_ref"]:
        shared = Reference()
        shared.title, shared.authors, shared.journal = "Direct Submission", "Doe J.", "shared between the inputs"
    ents, expected_feats, expected_cites, records = [], [], {}, []
    for j, p in enumerate(plasmids):
        text0 = p["text"]
        n = len(text0)
        r = 0 if override.get("rot") == 0 else p["rot"]
        case = override.get("case", p["case"])
        crng = random.Random(p["case_seed"])
        text = _recase(text0, case, crng, p["region"])
        text = text[n - r:] + text[:n - r] if r else text
        refs = []
        for x in range(spec["nrefs"]):
            ref = Reference()
            ref.title, ref.authors, ref.journal = "Direct Submission", "Doe J.", "J. Irreproducible Results"
            setattr(ref, REF_FIELDS[(x + j) % len(REF_FIELDS)], "%s reference %d" % (names[j], x))
            refs.append(ref)
        if shared is not None and refs:
            refs[min(len(refs) - 1, 1 if len(refs) > 1 else 0)] = copy.deepcopy(shared)
        feats = []
        in_chain = j < len(spec["plasmids"])
        for (label, parts, ftype) in _features_for(p, k, frng):
            locs = []
            fz = frng.random()
            for (st, ln, sd) in parts:
                st = (st + r) % n
                if st + ln <= n:
                    if fz < 0.2 and ln >= 1:
                        # approximate boundaries (within / between / one-of / open-ended position objects, same default coordinates)
                        from bounded.common import fuzzy_bounds
                        a_, b_ = fuzzy_bounds(st, st + ln, ("within", "between", "oneof", "open")[int(fz * 20) % 4])
                        locs.append(FeatureLocation(a_, b_, strand=sd))
                    else:
                        locs.append(FeatureLocation(st, st + ln, strand=sd))
                else:
                    pieces = [FeatureLocation(st, n, strand=sd), FeatureLocation(0, st + ln - n, strand=sd)]
                    locs.extend(pieces if sd != -1 else pieces[::-1])
            loc = locs[0] if len(locs) == 1 else CompoundLocation(locs)
            full = names[j] + ":" + label
            quals = {"label": [full], "note": ["n1", "n2"]}
            if frng.random() < 0.3:
                # qualifier values that are not lists (records built in code rather than parsed): carried over as they are
                quals["codon_start"] = 1
                quals["product"] = "bare text"
                quals["translation"] = ("M", "K")
            cites = None
            if refs and frng.random() < 0.6:
                cs = sorted({frng.randrange(len(refs)) for _ in range(frng.choice([1, 1, 2]))})
                if len(refs) >= 12 and frng.random() < 0.7:
                    cs = [len(refs) - 1] + cs[:1]
                quals["citation"] = ["[%d]" % (c + 1) for c in cs]
                cites = [refkey(refs[c]) for c in cs]
            feats.append(SeqFeature(loc, type=ftype, id=full, qualifiers=quals))
            if (len(full) + 3 * j + spec["feat_seed"]) % 4 == 0:
                # qualifiers kept in an auto-vivifying mapping (assigned after construction, as code that collects qualifiers with
                # `defaultdict(list)` does): merely *looking up* a missing key in it creates the key
                import collections
                feats[-1].qualifiers = collections.defaultdict(list, quals)
            a0, L = p["inside"]
            inside = in_chain and all(((st - a0) % n) + ln <= L for (st, ln, sd) in parts)
            if inside:
                img = [(tuple((offs[j] + ((st - a0) % n) + t) % len(exp) for t in range(ln)), sd) for (st, ln, sd) in parts]
                expected_feats.append((full, ftype, img))
                expected_cites[full] = cites or []
        if spec["own_source"] and j % 2 == 1:
            # the plasmid's own whole-record source feature, as exported by other tools: only some of the usual qualifiers
            # (it reaches into the dropped part of the plasmid, so it is not inherited)
            feats.append(SeqFeature(FeatureLocation(0, n, strand=1), type="source", id=names[j] + ":whole-source",
                                    qualifiers=[{"organism": ["unidentified"]}, {"mol_type": ["genomic DNA"]}, {}, {"db_xref": ["taxon:32630"]}][(j + n) % 4]))
        if spec["own_source"] and j % 2 == 0:
            a0, L = p["inside"]
            bb = (a0 + L + 2 + r) % n
            if bb + 3 <= n:
                feats.append(SeqFeature(FeatureLocation(bb, bb + 3, strand=1), type="source", id=names[j] + ":own-source", qualifiers={
                    "organism": ["synthetic DNA construct"], "mol_type": ["other DNA"], "plasmid": ["ancestor-of-" + names[j]],
                    "label": ["source: ancestor-of-" + names[j]]}))
        if refs and spec["feat_seed"] % 3 == 0:
            # literature references bound to a region (GenBank `REFERENCE 1 (bases 3 to 9)`), also one crossing nothing special
            refs[0].location = [FeatureLocation(min(2, n - 1), min(9, n))]
            if len(refs) > 1:
                refs[-1].location = [FeatureLocation(0, 5)]       # (the same bases in every input: a reference shared between inputs stays one reference)
        if spec["feat_seed"] % 4 == 1:
            # a feature of the common backbone, word for word the same in every input (same id, type, coordinates, qualifiers and
            # citation text): placed where no plasmid retains it
            a0, L = p["inside"]
            lo_, hi_ = 1, 3
            if all(not (((q_ - r - a0) % n) < L) for q_ in range(lo_, hi_)) and hi_ <= n:
                q_ = {"label": ["common-ori"], "note": ["n1", "n2"]}
                if refs:
                    q_["citation"] = ["[1]"]
                feats.append(SeqFeature(FeatureLocation(lo_, hi_, strand=1), type="rep_origin", id="common-ori", qualifiers=q_))
        ann = {"molecule_type": "DNA"}
        if spec["feat_seed"] % 5 in (1, 2):
            # record-level annotations as other readers / hand-written code leave them: dates in several spellings and types,
            # lists, nested mappings
            import datetime as _dt
            ann["date"] = ["12-MAR-2019", "2019-03-12", _dt.datetime(2019, 3, 12, 10, 30), ["12-MAR-2019"], _dt.date(2019, 3, 12), 20190312][(spec["feat_seed"] // 5 + j) % 6]
            ann["keywords"] = ["", "golden gate"][(j + 1) % 2:]
            ann["taxonomy"] = []
            ann["structured_comment"] = {"Assembly-Data": {"Sequencing Technology": "Sanger"}}
            ann["comment"] = "a remark of the depositor\nover two lines" if j % 2 else ["a remark", "as a list"]
        if spec["topology"] is not None:
            ann["topology"] = spec["topology"]
        if refs:
            ann["references"] = refs
        made = override.get("made", p.get("made", "fresh"))
        if made == "fresh":
            rec = CircularRecord(Seq(text), id=ids[j], name=names[j], features=feats, annotations=ann)
        else:
            from bounded.common import preuse
            decoy = (text[5:] + text[:5])[:-2].upper()
            rec = CircularRecord(Seq(decoy), id=ids[j], name=names[j], annotations=ann)
            preuse(rec, ns)
            try:
                w_ = (Vec if p["role"] == "vector" else Mod)(rec)
                w_.is_valid(), w_.target_sequence()
            except Exception:
                pass
            if made == "copied":
                rec = copy.deepcopy(rec)
            rec.seq = Seq(text)
            rec.features = feats
        lt_ = spec["feat_seed"] % 7
        if lt_ in (1, 2, 3):
            # per-letter annotations (sequencing qualities): on every record with the same key, or only on some, as lists or tuples
            if lt_ in (1, 3) or j % 2 == 0:
                vals_ = [(q_ * 7 + j) % 41 for q_ in range(len(rec.seq))]
                rec.letter_annotations["phred_quality"] = tuple(vals_) if (lt_ == 3 and j == 0) else vals_
        if spec.get("replace_annotations") and spec["topology"] is None:
            rec.annotations = {k_: v_ for k_, v_ in rec.annotations.items() if k_ != "topology"}    # a new mapping, set by the caller
        records.append(rec)
        ents.append((Vec if p["role"] == "vector" else Mod)(rec))
    nplas = len(spec["plasmids"])
    vec = ents[nplas - 1]
    mods = ents[:nplas - 1]
    supplied = list(mods) + (ents[nplas:] if spec["unused"] else [])
    if spec["twice"] and mods:
        supplied.append(mods[0])
    random.Random(spec["order_seed"]).shuffle(supplied)
    return Scenario(spec, vec, mods, supplied, ents, exp, expected_feats, expected_cites, names, ids, k)


class Scenario(object):
    def __init__(self, spec, vec, mods, supplied, ents, exp, expected_feats, expected_cites, names, ids, k):
        self.spec, self.vec, self.mods, self.supplied, self.ents = spec, vec, mods, supplied, ents
        self.exp, self.expected_feats, self.expected_cites, self.names, self.ids, self.k = exp, expected_feats, expected_cites, names, ids, k

    def describe(self):
        s = self.spec
        return dict(enzyme=s["enzyme"], chain=s["chain"], scar=s["scar"], ids=s["ids_mode"], refs=s["nrefs"], shared_ref=s["shared_ref"],
                    prequery=s.get("prequery"), replace_annotations=s.get("replace_annotations"),
                    twice=s["twice"], unused=bool(s["unused"]), own_source=s["own_source"], topology=s["topology"],
                    plasmids=[dict(role=p["role"], rot=p["rot"], case=p["case"], made=p.get("made", "fresh"), length=len(p["text"])) for p in s["plasmids"]],
                    records=[str(x.record.seq) for x in self.ents], supplied=[x.record.name for x in self.supplied])

    def prequery(self):
        """what a user does before assembling: ask the wrappers about themselves (the answers are not used)"""
        how = self.spec.get("prequery")
        if not how:
            return
        for x in self.ents:
            try:
                if how in ("valid", "all"):
                    x.is_valid()
                if how in ("overhangs", "all"):
                    x.overhang_start(), x.overhang_end()
                if how in ("target", "all"):
                    x.target_sequence()
            except Exception:
                pass

    def run(self, **kw):
        self.prequery()
        return ba.run_assembly(self.vec, self.supplied, **kw)


# ------------------------------------------------------------------------------------------------ oracles
def oracle_sequence(sc, got, prod):
    """C01: a product, whose text is the documented formula (compared up to rotation and letter case)"""
    if got[0] != "product":
        return ["a chain from the vector's downstream overhang back to its upstream overhang ends with %r" % (got[:3],)]
    if not ba.is_rotation(str(prod.seq), sc.exp):
        return ["product %r is not a rotation of overhang.target ... vector fragment = %r" % (str(prod.seq)[:80], sc.exp[:80])]
    if len(prod.seq) != len(sc.exp):
        return ["product length %d, sum of the retained fragments %d" % (len(prod.seq), len(sc.exp))]
    return []


def product_shift(sc, prod):
    t = str(prod.seq).upper()
    return (t + t).find(sc.exp.upper())


def oracle_features(sc, got, prod):
    """C08: exactly the features lying inside a retained fragment, denoting the same nucleotides on the same strand"""
    if got[0] != "product":
        return []
    shift = product_shift(sc, prod)
    if shift < 0:
        return []
    n = len(sc.exp)
    pb = []
    got_by = {}
    for f in prod.features:
        if f.type == "source" and "plasmid" in f.qualifiers:
            continue        # generated provenance features (C09's subject)
        label = f.qualifiers.get("label", ["?"])[0]
        parts = [(tuple(((int(p.start) + t) - shift) % n for t in range(int(p.end) - int(p.start))), p.strand) for p in f.location.parts]
        got_by.setdefault(label, []).append((f.type, parts, f.qualifiers))
    exp_by = {x[0]: x for x in sc.expected_feats}
    for lab, (_l, ftype, img) in exp_by.items():
        gs = got_by.get(lab, [])
        if len(gs) != 1:
            pb.append("%s lies inside a retained fragment but appears %d times in the product" % (lab, len(gs)))
            continue
        gtype, gparts, gq = gs[0]
        want_pos = sorted(q for (pos, sd) in img for q in pos)
        got_pos = sorted(q for (pos, sd) in gparts for q in pos)
        want_sd = sorted({(sd if sd in (1, -1) else 0) for (pos, sd) in img})
        got_sd = sorted({(sd if sd in (1, -1) else 0) for (pos, sd) in gparts})
        if want_pos != got_pos or want_sd != got_sd:
            pb.append("%s denotes %r in the product, expected %r" % (lab, gparts, img))
        bare_ok = ("codon_start" not in gq and "product" not in gq) or (gq.get("codon_start") == 1 and gq.get("product") == "bare text" and gq.get("translation") == ("M", "K"))
        if gtype != ftype or gq.get("note") != ["n1", "n2"] or not bare_ok:
            pb.append("%s lost its type or qualifiers (%s, %r)" % (lab, gtype, dict(gq)))
    for lab in got_by:
        if lab not in exp_by:
            pb.append("%s is in the product although it is not wholly inside a retained fragment" % lab)
    return pb


def oracle_provenance(sc, got, prod, pid="assembly", pname="assembly"):
    """C09 (the part that does not need unique ids): circular product, requested id/name, comment naming every supplied
    record, one generated source feature per retained fragment, tiling the product, each naming the plasmid it came from"""
    if got[0] != "product":
        return []
    pb = []
    n = len(prod.seq)
    if type(prod).__name__ != "CircularRecord" or str(prod.annotations.get("topology")).lower() != "circular":
        pb.append("product is a %s with topology %r" % (type(prod).__name__, prod.annotations.get("topology")))
    if prod.id != pid or prod.name != pname:
        pb.append("id/name %r/%r, requested %r/%r" % (prod.id, prod.name, pid, pname))
    comment = prod.annotations.get("comment", [])
    ctext = "\n".join(comment) if isinstance(comment, list) else str(comment)
    for x in [sc.vec] + list(sc.supplied):
        if x.record.id not in ctext:
            pb.append("comment does not name %s" % x.record.id)
    src = [f for f in prod.features if f.type == "source" and "plasmid" in f.qualifiers]
    cover = [0] * n
    chain_ents = list(sc.mods) + [sc.vec]
    for f in src:
        for p in f.location.parts:
            for q in range(int(p.start), int(p.end)):
                if 0 <= q < n:
                    cover[q] += 1
        plasmid = f.qualifiers["plasmid"]
        plasmid = plasmid[0] if isinstance(plasmid, list) else plasmid
        owners = [x for x in chain_ents if x.record.id == plasmid]
        stretch = str(f.location.extract(prod.seq)).upper()
        if not owners:
            pb.append("a generated source feature names %r, which is not a supplied record of the chain" % plasmid)
        elif not any(stretch in (str(o.record.seq) * 2).upper() for o in owners):
            pb.append("the stretch covered by the source feature of %s does not occur in that plasmid" % plasmid)
    if len(src) != len(chain_ents):
        pb.append("%d generated source features for %d retained fragments" % (len(src), len(chain_ents)))
    if any(c != 1 for c in cover):
        pb.append("generated source features do not tile the product (coverage min %d max %d)" % (min(cover), max(cover)))
    return pb


def oracle_citations(sc, got, prod):
    """C10: bracketed indices, each resolving to the reference its source feature cited; reference list = cited ones, once"""
    import re
    if got[0] != "product":
        return ["records with citations do not assemble: %r" % (got[:3],)] if sc.spec["nrefs"] else []
    pb = []
    prefs = prod.annotations.get("references", []) or []
    keys = [refkey(r) for r in prefs]
    cited = set()
    for f in prod.features:
        lab = f.qualifiers.get("label", ["?"])[0]
        if lab not in sc.expected_cites:
            continue
        cits = f.qualifiers.get("citation", [])
        resolved = []
        for c in cits:
            if not (isinstance(c, str) and re.fullmatch(r"\[\d+\]", c)) or not (1 <= int(c[1:-1]) <= len(prefs)):
                pb.append("%s: citation qualifier %r is not a bracketed index into the %d references" % (lab, c, len(prefs)))
                resolved = None
                break
            resolved.append(keys[int(c[1:-1]) - 1])
            cited.add(keys[int(c[1:-1]) - 1])
        if resolved is not None and resolved != sc.expected_cites[lab]:
            pb.append("%s cites %r in the product, its source feature cited %r" % (lab, resolved, sc.expected_cites[lab]))
    if len(keys) != len(set(keys)):
        pb.append("the product's reference list repeats a reference")
    if set(keys) != cited:
        pb.append("the product's reference list (%d) is not the set of cited references (%d)" % (len(set(keys)), len(cited)))
    return pb


def snapshot(ent):
    from . import common as bc
    rec = ent.record
    obs = bc.observe(rec)
    obs["references"] = [refkey(r) + "@" + repr([(int(l_.start), int(l_.end)) for l_ in (getattr(r, "location", None) or [])])
                         for r in rec.annotations.get("references", [])]
    obs["qual_values"] = [[(k, copy.deepcopy(v) if isinstance(v, list) and all(isinstance(x, str) for x in v) else
                            [type(x).__name__ for x in v] if isinstance(v, list) else repr(v)) for k, v in sorted(f.qualifiers.items())]
                          for f in rec.features]
    return obs


def scenarios(ns, seed, count, tier="quick"):
    out = []
    t = 0
    while len(out) < count and t < count * 4:
        rng = random.Random(seed * 100003 + t)
        t += 1
        spec = draw_spec(rng, tier)
        if spec is None:
            continue
        out.append(spec)
    # the same dimensions over enzymes of other geometries (a stream of their own: the draws above stay what they were)
    extra, t = 0, 0
    while extra < max(4, count // 6) and t < count:
        rng = random.Random(seed * 100003 + 500000 + t)
        spec = draw_spec(rng, tier, enzyme=OTHER_GEOMETRIES[t % len(OTHER_GEOMETRIES)])
        t += 1
        if spec is None:
            continue
        out.append(spec)
        extra += 1
    return out


def sweep(ctx, ns, which, count=None):
    """run one property's oracle over the shared scenarios; returns (evaluations, distinct keys, violations)
    which: sequence (C01) | features (C08) | provenance (C09) | citations (C10) | frame (C07) | case (C18) | rotation (C02)"""
    count = count or (70 if ctx.tier == "quick" else 400)
    viol, distinct = [], set()
    evals = 0
    for t, spec in enumerate(scenarios(ns, ctx.seed + 17, count, ctx.tier)):
        sc = build(ns, spec)
        key = (spec["enzyme"], spec["chain"], spec["ids_mode"], spec["nrefs"], tuple((p["case"], p["rot"]) for p in spec["plasmids"]))
        pb = []
        if which == "frame":
            before = [snapshot(x) for x in sc.ents]
            got, prod, w = sc.run()
            mid = [snapshot(x) for x in sc.ents]
            got2, prod2, w2 = sc.run()
            after = [snapshot(x) for x in sc.ents]
            for x, b, m, a_ in zip(sc.ents, before, mid, after):
                if m != b or a_ != b:
                    diff = [k_ for k_ in b if m.get(k_) != b[k_] or a_.get(k_) != b[k_]]
                    pb.append("input %s changed in %s" % (x.record.name, diff))
            if got[0] != got2[0] or (prod is not None and prod2 is not None and (str(prod.seq) != str(prod2.seq) or len(prod.features) != len(prod2.features))):
                pb.append("the second identical call gives another result (%r, then %r)" % (got[:1], got2[:1]))
            evals += 2
        elif which in ("case", "rotation"):
            ref = build(ns, spec, override=(dict(case="upper") if which == "case" else dict(rot=0)))
            got, prod, w = sc.run()
            gref, pref, wref = ref.run()
            evals += 2
            if got[0] != gref[0]:
                pb.append("ends with %r, the %s inputs with %r" % (got[:2], "all-upper-case" if which == "case" else "unrotated", gref[:2]))
            elif prod is not None and not ba.is_rotation(str(prod.seq), str(pref.seq)):
                pb.append("product differs (beyond rotation and letter case) from that of the %s inputs" % ("all-upper-case" if which == "case" else "unrotated"))
            if not pb and which == "rotation" and gref[0] == "product":
                # rotation applied by the library itself to records that have been typed before (the wrappers of the
                # unrotated scenario were just assembled): >> on a used record, new wrappers, same product
                evals += 1
                try:
                    moved = {id(x): type(x)(x.record >> p_["rot"]) for x, p_ in zip(ref.ents, (spec["plasmids"] + ([spec["unused"]] if spec["unused"] else [])))}
                    gl, pl, wl = ba.run_assembly(moved[id(ref.vec)], [moved[id(m_)] for m_ in ref.supplied])
                    if gl[0] != "product" or not ba.is_rotation(str(pl.seq), str(pref.seq)):
                        pb.append("records rotated with >> after having been typed assemble to %r, the unrotated ones to a product" % (gl[:2],))
                except Exception as e_:
                    pb.append("rotating typed records with >> and assembling them raised %r" % (e_,))
            if pb:
                pass
            elif prod is not None and which == "rotation":
                # same inherited features (through the nucleotides they denote), whatever the rotation of the inputs
                a_, b_ = oracle_features(sc, got, prod), oracle_features(ref, gref, pref)
                if a_ and not b_:
                    pb.append("inherited features differ from those of the unrotated inputs: %s" % a_[0])
        else:
            pre = []
            if which == "citations" and t % 3 == 0 and len(sc.mods) >= 2:
                # history: an earlier call with the same wrappers that FAILS (one module of the chain left out), then
                # the call under test: the inputs' own citation texts are what they were, the product is the same
                evals += 1
                cit_of = lambda: [[[c_ if isinstance(c_, str) else "<%s object>" % type(c_).__name__ for c_ in f.qualifiers.get("citation", [])]
                                   for f in x.record.features] for x in sc.ents]
                before = cit_of()
                gf, pf, _ = ba.run_assembly(sc.vec, [m_ for m_ in sc.supplied if m_ is not sc.mods[-1]])
                if gf[0] == "product":
                    pre.append("an assembly without the last module of the chain gave a product")
                elif cit_of() != before:
                    pre.append("after a failing assembly (%s) the inputs' citation qualifiers changed: %r -> %r" % (
                        gf[0], [c_ for x_ in before for c_ in x_ if c_][:3], [c_ for x_ in cit_of() for c_ in x_ if c_][:3]))
            cit0 = None
            if which == "citations":
                cit_all = lambda: [[[c_ if isinstance(c_, str) else "<%s object>" % type(c_).__name__ for c_ in f.qualifiers.get("citation", [])]
                                    for f in x.record.features] for x in sc.ents]
                cit0 = cit_all()
            got, prod, w = sc.run()
            evals += 1
            fn = dict(sequence=oracle_sequence, features=oracle_features, provenance=oracle_provenance, citations=oracle_citations)[which]
            pb = pre + fn(sc, got, prod)
            if cit0 is not None and cit_all() != cit0:
                pb.append("the inputs' own citation qualifiers changed: %r -> %r" % ([c_ for x_ in cit0 for c_ in x_ if c_][:3], [c_ for x_ in cit_all() for c_ in x_ if c_][:3]))
            if which == "features" and not pb and got[0] == "product" and sc.expected_feats:
                # edit between two calls with the same wrappers: a feature of an input is relabelled (and one removed);
                # the second product must show the records as they are *now*
                evals += 1
                lab = sc.expected_feats[0][0]
                gone = sc.expected_feats[-1][0] if len(sc.expected_feats) > 1 else None
                for x in sc.ents:
                    keep = []
                    for f in x.record.features:
                        l_ = f.qualifiers.get("label", [""])[0]
                        if l_ == lab:
                            f.qualifiers["label"] = [lab + "-relabelled"]
                        if gone is not None and l_ == gone:
                            continue
                        keep.append(f)
                    x.record.features[:] = keep
                exp2 = [((l_ + "-relabelled") if l_ == lab else l_, t_, img) for (l_, t_, img) in sc.expected_feats if l_ != gone]
                saved, sc.expected_feats = sc.expected_feats, exp2
                got2, prod2, w2 = ba.run_assembly(sc.vec, sc.supplied)
                pb2 = oracle_features(sc, got2, prod2)
                sc.expected_feats = saved
                if pb2:
                    pb = ["after relabelling %s%s in the input and assembling again with the same wrappers: %s" % (
                        lab, (" and removing %s" % gone) if gone else "", pb2[0])]
        if sc.spec["nrefs"] or which != "citations":
            distinct.add(key)
        if pb:
            viol.append(dict(name="scenario_%s_%s_chain%d" % (which, spec["enzyme"], spec["chain"]),
                             what="shared scenario %d (%s): %s" % (t, {k_: v_ for k_, v_ in sc.describe().items() if k_ not in ("records", "supplied")}, "; ".join(pb[:3])),
                             case=sc.describe(), observed=pb[:6]))
    uniq = {}
    for v in viol:
        uniq.setdefault(v["name"], v)
    return evals, distinct, list(uniq.values())


SWEEP_RULE = ("shared scenarios (bounded/scenarios.py): random draws from the cross product of enzyme x chain length x junction "
              "spelling a site x per-record spelling (upper, lower, mixed, regional) x per-record rotation biased to the cut / "
              "site / overhang boundaries x record ids (unique, clashing, default) x topology spelling x feature tables relative "
              "to the retained stretch (either strand, joins, mixed-strand, strandless, source-typed, crossing a boundary) x own "
              "provenance features x 0-13 references (one distinguishing field, shared between inputs) x unused module x same "
              "object twice, argument order shuffled")
