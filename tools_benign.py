#!/venv/bin/python
"""behaviour-preserving changes must not raise an alarm:
       tools_benign.py PATCH [PROP...]      apply PATCH to a scratch copy of /repo, run the checks (default: all 20,
                                            5 at a time), print exit codes and every VIOLATION / CHECKER-ERROR line
   exit status 0 iff no check exits 1 or 3 (DEGRADED lines and exit 2 are reported but are not alarms)."""
import os, shutil, subprocess, sys, tempfile
from concurrent.futures import ThreadPoolExecutor
VERIF = os.path.dirname(os.path.abspath(__file__))
sys.path.insert(0, VERIF)
from tools_seeded import scratch, sh, ENV  # noqa: E402


def main():
    args = sys.argv[1:]
    base_rev = None
    if args[0] == "--base-rev":       # the patch was written against an earlier commit of /repo: use those file versions
        base_rev, args = args[1], args[2:]
    patch = os.path.abspath(args[0])
    props = args[1:] or ["C%02d" % i for i in range(1, 21)]
    tmp = scratch()
    bad = 0
    try:
        if base_rev:
            rc, names = sh("git -C /repo diff --name-only %s HEAD" % base_rev)
            for rel in names.split():
                rc, old = sh("git -C /repo show %s:%s" % (base_rev, rel))
                if rc == 0:
                    open(os.path.join(tmp, rel), "w").write(old)
            print("files taken from %s: %s" % (base_rev, names.split()))
        rc, out = sh("patch -p1 -s -i %s" % patch, cwd=tmp)
        if rc != 0:
            print("PATCH DOES NOT APPLY:", out[-300:])
            return 2
        rc, out = sh("/venv/bin/python -m pytest -q -p no:cacheprovider -x", cwd=tmp)
        print("test-suite:", out.strip().splitlines()[-1])
        if rc != 0:
            print("NOT BENIGN: the test-suite fails with this patch")
            return 2

        def one(p):
            env = dict(ENV, VERIF_REPO=tmp, VERIF_NO_EVIDENCE="1", PYVC_JOBS="4")
            # every check gets its own scratch out-dir name through the property id; they may run concurrently
            try:
                r = subprocess.run(["%s/check" % VERIF, p], env=env, stdout=subprocess.PIPE, stderr=subprocess.STDOUT,
                                   universal_newlines=True, timeout=1500)
                return p, r.returncode, r.stdout
            except subprocess.TimeoutExpired:
                return p, -9, "TIMEOUT"

        with ThreadPoolExecutor(max_workers=5) as pool:
            for (p, rc, out) in pool.map(one, props):
                lines = [l for l in out.splitlines() if l.startswith(("VIOLATION", "CHECKER", "DEGRADED"))]
                alarm = rc in (1, 3, -9)
                bad += alarm
                print("%s exit %d%s" % (p, rc, "   <-- ALARM" if alarm else ""))
                for l in lines[:6]:
                    print("     ", l[:400])
                if alarm:
                    # first replay file, to see what was claimed
                    for l in lines:
                        if l.startswith("VIOLATION"):
                            path = l.split("replay=")[1].split()[0]
                            try:
                                print("      >>", open(path).read()[:1200].replace("\n", " "))
                            except Exception:
                                pass
                            break
    finally:
        shutil.rmtree(tmp, ignore_errors=True)
    print("ALARMS:", bad)
    return 1 if bad else 0


if __name__ == "__main__":
    sys.exit(main())
