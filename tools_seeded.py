#!/venv/bin/python
"""seeded changes:  tools_seeded.py import ID SRC_DIR   (copy patch+demo from a sub-agent's worktree, verify, write meta)
                    tools_seeded.py run ID [PROP...]     (apply to a scratch copy, run the checks, report)
Everything happens on scratch copies outside /repo and /verif, removed afterwards."""
import json, os, shutil, subprocess, sys, tempfile, time
VERIF = os.path.dirname(os.path.abspath(__file__))
ENV = dict(os.environ, PYTHONDONTWRITEBYTECODE="1")


def scratch():
    """a copy of /repo's working tree (incl. the built registry archives, which are not tracked by git)"""
    tmp = tempfile.mkdtemp(prefix="seed-")
    for d in os.listdir("/repo"):
        if d == ".git":
            continue
        src = os.path.join("/repo", d)
        (shutil.copytree if os.path.isdir(src) else shutil.copy)(src, os.path.join(tmp, d))
    return tmp


def sh(cmd, cwd=None, env=None, timeout=1500):
    r = subprocess.run(cmd, shell=True, cwd=cwd, env=env or ENV, stdout=subprocess.PIPE, stderr=subprocess.STDOUT, universal_newlines=True, timeout=timeout)
    return r.returncode, r.stdout


def do_import(sid, src):
    dst = os.path.join(VERIF, "seeded", sid)
    os.makedirs(dst, exist_ok=True)
    shutil.copy(os.path.join(src, "seeded_patch.diff"), os.path.join(dst, "patch.diff"))
    shutil.copy(os.path.join(src, "seeded_demo.py"), os.path.join(dst, "demo.py"))
    tmp = scratch()
    ran = []
    try:
        env = dict(ENV, MOCLO_TREE=tmp)
        demo = os.path.join(tmp, "seeded_demo.py")
        shutil.copy(os.path.join(dst, "demo.py"), demo)
        rc0, out0 = sh("/venv/bin/python seeded_demo.py", cwd=tmp, env=env)
        ran.append(dict(cmd="demo on the unchanged tree", exit=rc0, tail=out0.strip().splitlines()[-1:] ))
        rc, out = sh("git apply --unsafe-paths --directory=%s %s" % (tmp, os.path.join(dst, "patch.diff")), cwd="/")
        if rc != 0:
            rc, out = sh("patch -p1 -s -i %s" % os.path.join(dst, "patch.diff"), cwd=tmp)
        ran.append(dict(cmd="apply patch", exit=rc, tail=out.strip().splitlines()[-2:]))
        rc1, out1 = sh("/venv/bin/python seeded_demo.py", cwd=tmp, env=env)
        ran.append(dict(cmd="demo on the changed tree", exit=rc1, tail=out1.strip().splitlines()[-1:]))
        rc2, out2 = sh("/venv/bin/python -m pytest -q -p no:cacheprovider -x", cwd=tmp)
        ran.append(dict(cmd="test-suite on the changed tree", exit=rc2, tail=out2.strip().splitlines()[-1:]))
        ok = rc0 == 0 and rc1 != 0 and rc2 == 0
        print(json.dumps(ran, indent=1))
        print("CONFIRMED" if ok else "NOT CONFIRMED")
        return ok, ran
    finally:
        shutil.rmtree(tmp, ignore_errors=True)


def do_run(sid, props):
    dst = os.path.join(VERIF, "seeded", sid)
    tmp = scratch()
    res = {}
    try:
        rc, out = sh("patch -p1 -s -i %s" % os.path.join(dst, "patch.diff"), cwd=tmp)
        assert rc == 0, out
        env = dict(ENV, VERIF_REPO=tmp, VERIF_NO_EVIDENCE="1")
        for p in props:
            t0 = time.time()
            try:
                rc, out = sh("%s/check %s" % (VERIF, p), env=env, timeout=1200)
            except subprocess.TimeoutExpired:
                rc, out = -9, "TIMEOUT"
            lines = [l for l in out.splitlines() if l.startswith(("VIOLATION", "DEGRADED", "CHECKER", "KNOWN", p + " tier"))]
            res[p] = dict(exit=rc, seconds=round(time.time() - t0, 1), lines=lines[:8])
            print(p, "exit", rc, "%.0fs" % (time.time() - t0))
            for l in lines[:6]:
                print("    ", l[:260])
    finally:
        shutil.rmtree(tmp, ignore_errors=True)
    return res


def do_keep(sid):
    """scratch copy with the patch applied, left in place: prints its path (remove it yourself)"""
    tmp = scratch()
    rc, out = sh("patch -p1 -s -i %s" % os.path.join(VERIF, "seeded", sid, "patch.diff"), cwd=tmp)
    assert rc == 0, out
    print(tmp)


if __name__ == "__main__":
    if sys.argv[1] == "keep":
        do_keep(sys.argv[2])
    elif sys.argv[1] == "import":
        do_import(sys.argv[2], sys.argv[3])
    else:
        do_run(sys.argv[2], sys.argv[3:])
