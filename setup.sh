#!/bin/sh
# nothing to build: verify the tools are present and the tree imports
set -e
cd "$(dirname "$0")"
test -x /usr/bin/cvc5 && test -x /usr/local/bin/z3-new && test -x /venv/bin/python
export PYTHONDONTWRITEBYTECODE=1
/venv/bin/python - <<'PY'
import sys
sys.path.insert(0, ".")
from pyvc import native
native.load()
print("setup ok")
PY
