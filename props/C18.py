# coding: utf-8
"""C18 -- Letter case of the input sequences never changes the outcome."""
from __future__ import annotations

import itertools
import random

from pyvc import term as tm
from pyvc.term import INT, BOOL, STR
from pyvc.solve import Obligation
from pyvc.models import re_at
from bounded import gen, assembly as ba, entities as be

ID = "C18"
LEVEL = "proof"
MOD, VEC, RX, ASM = ("moclo/moclo/core/modules.py", "moclo/moclo/core/vectors.py", "moclo/moclo/regex.py",
                     "moclo/moclo/core/_assembly.py")
FILES = [RX, ASM, MOD, VEC]
FUNCTIONS = [(MOD, "AbstractModule.overhang_start"), (MOD, "AbstractModule.overhang_end"),
             (VEC, "AbstractVector.overhang_start"), (VEC, "AbstractVector.overhang_end"),
             (RX, "DNARegex._transcribe"), (ASM, "AssemblyManager.__init__"),
             (ASM, "AssemblyManager._generate_modules_map"), (ASM, "AssemblyManager._generate_assembly"),
             ("moclo/moclo/core/_structured.py", "StructuredRecord._get_regex"), ("moclo/moclo/core/_structured.py", "StructuredRecord._match"), (RX, "DNARegex.search")]
ASSUMES = ["D-RE", "RE4: under the (?i) flag, whether a window matches and where its groups lie depend only on the "
                   "upper-cased window (enumerated for the 15 codes in C16's bounded part)",
           "D-SEQ (Seq == and hash are case-sensitive: this is why the overhangs themselves must be normalised)",
           "UP-HOM: on ASCII text str.upper is letter-wise (commutes with slicing); non-ASCII letters are not modelled"]
TRUSTED = ["CPython re case-insensitive flag", "Bio.Seq equality"]
EXPLANATION = ("every pattern is compiled with the case flag (_transcribe VC); reported overhangs are case-normalised "
               "(overhang contracts), so every comparison and dict key of the assembly (contracts of __init__, "
               "_generate_modules_map, _generate_assembly over the abstract ostart/oend) is spelling-independent; lemmas "
               "L1-L3 lift RE4 to verdicts, overhangs and products")


def obligations(ctx):
    obs = ctx.verify(FUNCTIONS)
    keep = []
    for o in obs:
        fn = o.meta.get("function", "")
        if fn.startswith("AssemblyManager") and o.kind == "A" and "cover" not in o.name:
            # of the assembly functions, C18 needs the clauses that compare overhangs
            if not any(k in o.name for k in ("raises", "filed", "reverse-complement", "walk", "duplicate", "loop")):
                continue
        keep.append(o)
    from props._shared import typing_state_census
    return list(keep + ctx.part(lemmas)) + ctx.part(lambda c_: [typing_state_census(c_, 'C18')], 'typing-state census')


def lemmas(ctx):
    out = []
    pat = tm.V("pat", STR)
    s, t = tm.V("s", STR), tm.V("t", STR)
    n = tm.slen(s)
    j, jj = tm.V("j", INT), tm.V("jj", INT)
    # RE4 as a hypothesis: matching depends on the upper-cased data only
    d1, d2, x, w = tm.V("d1", STR), tm.V("d2", STR), tm.V("x", INT), tm.V("w", INT)
    re4 = tm.forall([d1, d2, x, w], tm.implies(tm.eq(tm.upper(d1), tm.upper(d2)), tm.eq(re_at(pat, d1, x, w), re_at(pat, d2, x, w))))
    same = [tm.eq(tm.upper(s), tm.upper(t)), tm.eq(tm.slen(s), tm.slen(t))]
    ds, dt = tm.concat(s, s), tm.concat(t, t)
    up_cat = tm.eq(tm.upper(ds), tm.upper(dt))
    out.append(Obligation("C18.L0 doubling commutes with case folding", same, up_cat, kind="B", solvers=["cvc5"],
                          text="up(s) = up(t) => up(s.s) = up(t.t)"))
    # L1: acceptance (some start matches) is the same for both spellings
    some_s = tm.exists_range(j, 0, n, re_at(pat, ds, j, n))
    some_t = tm.exists_range(j, 0, n, re_at(pat, dt, j, n))
    out.append(Obligation("C18.L1 the verdict does not depend on the spelling", same + [re4, up_cat, some_s], some_t, kind="B",
                          text="accepts(s) => accepts(t) when up(s) = up(t) (and symmetrically)"))
    # L2: the leftmost start is the same
    a, b = tm.V("a", INT), tm.V("b", INT)

    def leftmost(d, v):
        return tm.and_(tm.le(0, v), tm.lt(v, n), re_at(pat, d, v, n), tm.forall_range(jj, 0, v, tm.not_(re_at(pat, d, jj, n))))

    out.append(Obligation("C18.L2 the match starts at the same position for both spellings",
                          same + [re4, up_cat, leftmost(ds, a), leftmost(dt, b)], tm.eq(a, b), kind="B",
                          text="leftmost start is spelling-independent; group spans then agree by RE4"))
    # L3: equal spans give overhangs that are equal after normalisation, and targets equal up to case
    s0, ln = tm.V("s0", INT), tm.V("ln", INT)
    # UP-HOM (trusted, ASCII text): upper-casing is letter-wise, so it commutes with taking a substring
    hom = [tm.eq(tm.upper(tm.substr(ds, s0, ln)), tm.substr(tm.upper(ds), s0, ln)),
           tm.eq(tm.upper(tm.substr(dt, s0, ln)), tm.substr(tm.upper(dt), s0, ln))]
    out.append(Obligation("C18.L3 normalised overhangs of the two spellings are equal",
                          same + hom + [up_cat, tm.le(0, s0), tm.le(0, ln), tm.le(tm.add(s0, ln), tm.mul(2, n))],
                          tm.eq(tm.upper(tm.substr(ds, s0, ln)), tm.upper(tm.substr(dt, s0, ln))), kind="B", solvers=["cvc5"],
                          text="up(d[s0:s0+l]) is the same for both spellings: identical overhang keys, targets equal up to case"))
    out.append(Obligation("C18.MF1 must-fail: raw (un-normalised) overhangs of two spellings need not be equal",
                          same + [tm.le(0, s0), tm.lt(0, ln), tm.le(tm.add(s0, ln), n)],
                          tm.eq(tm.substr(ds, s0, ln), tm.substr(dt, s0, ln)), kind="V", expect="sat", solvers=["cvc5"],
                          text="canned case-sensitive comparison"))
    return out


# ---------------------------------------------------------------------------------------------- bounded
def recase(s, mode, rng):
    if mode == "lower":
        return s.lower()
    if mode == "upper":
        return s.upper()
    return "".join(c.lower() if rng.random() < 0.5 else c.upper() for c in s)


def bounded(ctx):
    from pyvc import native
    from Bio.Seq import Seq
    from Bio.Restriction import BsaI
    ns = native.load(ctx.repo_root)
    kits = native.kits(ctx.repo_root)
    core = ns["moclo.core"]
    CircularRecord = ns["moclo.record"].CircularRecord
    rng = random.Random(ctx.seed)
    viol, samples = [], []
    evals = 0
    distinct = set()
    # (1) typing: every kit class on a structure instance in four spellings
    classes = gen.concrete_classes(kits)
    for cls in classes:
        recs = be.class_records(cls, rng, count=1 if ctx.tier == "quick" else 3)
        # the same plasmid with a further recognition site of the class's cutter inside the matched region (an illegal
        # plasmid when the site's cut falls in the target): the verdict must not depend on how that site is spelled
        site, a_, k_ = be.enzyme_geometry(cls.cutter)
        for s in list(recs[:1]):
            mid = len(s) // 2
            recs.append(s[:mid] + site + "A" * (a_ + k_ + 2) + s[mid:])
            recs.append(s[:mid] + "T" * (a_ + k_ + 2) + gen.rc(site) + s[mid:])
        # plasmids with unknown bases (IUPAC N) where the structure allows any letter: spelled N or n alike
        for s in list(recs[:1]):
            ent0 = be.observe_entity(cls(CircularRecord(Seq(s), id="r")))
            if ent0["valid"] is True and len(ent0.get("target", "")) > 2:
                tpos = (s + s).upper().find(ent0["target"].upper())
                if tpos >= 0:
                    q_ = (tpos + len(ent0["target"]) // 2) % len(s)
                    recs.append(s[:q_] + "N" + s[q_ + 1:])
        for s in recs:
            ref = be.observe_entity(cls(CircularRecord(Seq(s.upper()), id="r")))
            # regional spellings: one occurrence of the recognition site (either strand, also across the origin) in
            # lower case and the rest upper, and the converse -- a spelling-sensitive shortcut sees some sites only
            regional = []
            up_ = s.upper()
            n_ = len(up_)
            for w_ in {site.upper(), gen.rc(site).upper()}:
                for p_ in range(n_):
                    if (up_ + up_)[p_:p_ + len(w_)] == w_:
                        idx = {(p_ + q_) % n_ for q_ in range(len(w_))}
                        regional.append("".join(c.lower() if i in idx else c for i, c in enumerate(up_)))
                        regional.append("".join(c if i in idx else c.lower() for i, c in enumerate(up_)))
            for mode in ["lower", "mixed", "mixed"] + regional[:8 if ctx.tier == "quick" else 40]:
                evals += 1
                t = recase(s, mode, rng) if mode in ("lower", "mixed") else mode
                mode = mode if mode in ("lower", "mixed") else "regional"
                obs = be.observe_entity(cls(CircularRecord(Seq(t), id="r")))
                if ref["valid"] is True:
                    distinct.add((cls.__name__, mode))
                norm = lambda o: {k: (v.upper() if isinstance(v, str) else v) for k, v in o.items()}
                if norm(obs) != norm(ref):
                    viol.append(dict(name="typing_%s" % cls.__name__, what="%s answers %r on %r but %r on the upper-case spelling" % (
                        cls.__name__, obs, t[:50], ref), case=dict(cls=cls.__name__, record=t)))
    # (2) assemblies: a BsaI chain in every per-record assignment of {upper, lower, mixed}
    Mod = type("BModule", (core.Entry,), dict(cutter=BsaI))
    Vec = type("BVector", (core.EntryVector,), dict(cutter=BsaI))
    ov = ["AACC", "GGAT", "CTAA", "TGCA"]
    texts = []
    for i in range(2):
        texts.append(ba.build_module(BsaI, ov[i], ba.clean(rng, 6, BsaI), ov[i + 1], rng))
    vtext, vfrag = ba.build_vector(BsaI, ov[2], ov[0], rng)
    bad_vtext, _ = ba.build_vector(BsaI, ov[0], ov[0], rng)
    missing_vtext, _ = ba.build_vector(BsaI, ov[3], ov[0], rng)
    dup_text = ba.build_module(BsaI, ov[0], "ACGTTT", ov[3], rng)

    def run(vt, mts, modes):
        vec = Vec(CircularRecord(Seq(recase(vt, modes[0], rng)), id="v"))
        ms = [Mod(CircularRecord(Seq(recase(t, m, rng)), id="m%d" % i)) for i, (t, m) in enumerate(zip(mts, modes[1:]))]
        got, prod, w = ba.run_assembly(vec, ms)
        return got, (str(prod.seq).upper() if prod is not None else None)

    scen = {"complete": (vtext, texts), "invalid-vector": (bad_vtext, texts), "missing": (missing_vtext, texts),
            "duplicate": (vtext, texts + [dup_text]),
            # the same plasmid supplied twice (two records): whatever the verdict, it is the same for every spelling of the copies
            "same-plasmid-twice": (vtext, texts + [texts[0]])}
    for name, (vt, mts) in scen.items():
        ref = run(vt, mts, ["upper"] * (len(mts) + 1))
        combos = list(itertools.product(("upper", "lower", "mixed"), repeat=len(mts) + 1))
        if ctx.tier == "quick":
            combos = [c for c in combos if c.count("upper") != len(c)][:18]
        for modes in combos:
            evals += 1
            got = run(vt, mts, list(modes))
            distinct.add((name, modes))
            same = got[0][0] == ref[0][0] and (got[0][0] != "MissingModule" or got[0][1].upper() == ref[0][1].upper()) \
                and (got[1] is None) == (ref[1] is None) and (got[1] is None or ba.is_rotation(got[1], ref[1]))
            if not same:
                viol.append(dict(name="assembly_%s" % name, what="scenario %s with spellings %r ends with %r; the all-upper-case inputs end with %r" % (
                    name, modes, got[0][:2], ref[0][:2]), case=dict(scenario=name, spellings=list(modes)), expected=list(ref[0][:2]), observed=list(got[0][:2])))
        if len(samples) < 2:
            samples.append(dict(scenario=name, reference_outcome=list(ref[0][:1])))
    # (2b) modules wrapped by signature-typed PART classes (a degenerate letter in one signature, a wildcard side in the
    # other): every per-record spelling, same product as the all-upper-case inputs
    tp = ba.typed_part_scenario(ns, rng)
    if tp is not None:
        def run_tp(modes):
            vec = tp["vec_cls"](CircularRecord(Seq(recase(tp["vtext"], modes[0], rng)), id="v"))
            ms = [c_(CircularRecord(Seq(recase(t_, m_, rng)), id="p%d" % i_)) for i_, ((c_, t_), m_) in enumerate(zip(tp["parts"], modes[1:]))]
            got, prod, w = ba.run_assembly(vec, ms)
            return got, (str(prod.seq).upper() if prod is not None else None)
        ref = run_tp(["upper"] * 3)
        want_ = ("".join(tp["frags"]) + tp["vfrag"]).upper()
        if ref[0][0] != "product" or not ba.is_rotation(ref[1], want_):
            viol.append(dict(name="typed_parts_reference", what="typed parts (signatures GGAS/TACT, TACT/NNNN) with overhangs %r: the upper-case inputs end with %r%s" % (
                tp["overhangs"], ref[0][:2], "" if ref[0][0] != "product" else " (not the documented product)"), case=dict(vector=tp["vtext"], parts=[t_ for _, t_ in tp["parts"]])))
        for modes in itertools.product(("upper", "lower", "mixed"), repeat=3):
            evals += 1
            got = run_tp(list(modes))
            distinct.add(("typed-parts", modes))
            if got[0][0] != ref[0][0] or (got[1] is None) != (ref[1] is None) or (got[1] is not None and not ba.is_rotation(got[1], ref[1])):
                viol.append(dict(name="typed_parts_case", what="typed parts with spellings %r end with %r; the all-upper-case inputs with %r" % (modes, got[0][:2], ref[0][:2]),
                                 case=dict(spellings=list(modes), vector=tp["vtext"], parts=[t_ for _, t_ in tp["parts"]])))
    # (3) the complete scenario with one plasmid at every rotation (the origin inside an overhang, a site ...) and spelled
    # in lower case or per-letter mixed case, the others upper case: same product as the all-upper-case, unrotated run
    vt, mts = scen["complete"]
    ref = run(vt, mts, ["upper"] * (len(mts) + 1))
    for which in range(len(mts) + 1):
        text = vt if which == 0 else mts[which - 1]
        for r_ in range(len(text)):
            rot = text[r_:] + text[:r_]
            for mode in ("lower", "mixed"):
                evals += 1
                modes = ["upper"] * (len(mts) + 1)
                modes[which] = mode
                v2 = rot if which == 0 else vt
                m2 = [rot if i + 1 == which else t for i, t in enumerate(mts)]
                got = run(v2, m2, modes)
                distinct.add(("rot", which, r_, mode))
                same = got[0][0] == ref[0][0] and got[1] is not None and ba.is_rotation(got[1], ref[1])
                if not same:
                    viol.append(dict(name="assembly_rotated_%s_%d" % (mode, which),
                                     what="complete scenario with plasmid %d rotated by %d and spelled %s ends with %r; the upper-case inputs give a product" % (
                                         which, r_, mode, got[0][:2]), case=dict(plasmid=which, rotation=r_, spelling=mode),
                                     expected=list(ref[0][:1]), observed=list(got[0][:2])))
    # the shared scenarios: this property's oracle over the cross product of the unusual input dimensions
    from bounded import scenarios as sn
    n_sw, d_sw, v_sw = sn.sweep(ctx, ns, 'case')
    evals += n_sw
    distinct |= {("shared",) + tuple(map(str, k_)) for k_ in d_sw}
    viol.extend(v_sw)
    uniq = {}
    for v in viol:
        uniq.setdefault(v["name"], v)
    return dict(evaluations=evals, distinct_nontrivial=len(distinct),
                rule="" + sn.SWEEP_RULE + "; (1) every concrete kit class on seeded instances of its structure (and variants with a further site) spelled lower / "
                     "per-letter random / regionally (one recognition-site occurrence lower and the rest upper, and the converse), compared with "
                     "the upper-case spelling (verdict, overhangs, target, placeholder up to case); (2) a BsaI vector + 2 modules in 4 "
                     "scenarios (complete, invalid vector, missing module, duplicate) under per-record assignments of {upper, lower, "
                     "mixed}, compared with the all-upper-case run (same error class and stalled overhang up to case, or same product "
                     "up to case and rotation); (3) the complete scenario with one plasmid at every rotation, lower-case or per-letter "
                     "mixed, the others upper-case",
                bound="%d classes x 3 spellings; 4 scenarios x up to 27 spelling assignments" % len(classes),
                samples=samples, violations=list(uniq.values())[:20], n_violations=len(uniq))


def replay(ctx, ob, model):
    """overhang contracts: a lower-case module/vector must report a case-normalised overhang"""
    fn = ob.meta.get("function", "")
    if "overhang" not in fn:
        return None, "no replay harness"
    from pyvc import native
    from Bio.Seq import Seq
    from Bio.Restriction import BsaI
    ns = native.load(ctx.repo_root)
    core = ns["moclo.core"]
    CircularRecord = ns["moclo.record"].CircularRecord
    rng = random.Random(0)
    if fn.startswith("AbstractModule"):
        cls = type("BModule", (core.Entry,), dict(cutter=BsaI))
        text = ba.build_module(BsaI, "AACC", "ACGTAC", "GGAT", rng)
    else:
        cls = type("BVector", (core.EntryVector,), dict(cutter=BsaI))
        text, _ = ba.build_vector(BsaI, "AACC", "GGAT", rng)
    lo = cls(CircularRecord(Seq(text.lower()), id="x"))
    up = cls(CircularRecord(Seq(text.upper()), id="x"))
    name = fn.split(".")[1]
    a, b = str(getattr(lo, name)()), str(getattr(up, name)())
    return a != b, dict(call="%s(lower-case record).%s() vs upper-case record" % (cls.__name__, name), observed=a, expected=b)


LEVEL_TEXT = ("Deductive: the case flag is part of every compiled pattern (_transcribe), the overhangs a class reports are "
              "case-normalised (overhang contracts), and every comparison / dict key of the assembly is over those normalised "
              "overhangs (assembly contracts); lemmas lift the assumed case-insensitivity of re to verdicts, match positions, "
              "overhang keys and targets for all records and all spellings.")
LEVEL_NOTE = ("Assumed: RE4 (re's (?i) semantics), Seq equality/hash case-sensitive, str.upper as SMT str.to_upper (code points "
              "beyond ASCII not modelled). Bounded (not proved): 85 classes x 3 spellings, 4 assembly scenarios x spelling assignments.")
