# coding: utf-8
"""C01 -- Assembly yields exactly the Golden Gate ligation product."""
from __future__ import annotations

import itertools
import random

from pyvc import term as tm
from pyvc.term import INT, BOOL, STR
from pyvc.solve import Obligation
from contracts import assembly_c as ac
from contracts.assembly_c import frag, SEQI
from bounded import gen, assembly as ba, entities as be
from props.C04 import shape_of

ID = "C01"
LEVEL = "proof"
ASM, MOD, VEC, REC = ("moclo/moclo/core/_assembly.py", "moclo/moclo/core/modules.py", "moclo/moclo/core/vectors.py",
                      "moclo/moclo/record.py")
FILES = [ASM, MOD, VEC, "moclo/moclo/regex.py", REC]
FUNCTIONS = [(MOD, "AbstractModule.target_sequence"), (VEC, "AbstractVector.target_sequence"),
             (ASM, "AssemblyManager._generate_assembly"), (ASM, "AssemblyManager.assemble"),
             (REC, "CircularRecord.__lshift__"), (REC, "CircularRecord.__rshift__"), (REC, "CircularRecord.__getitem__"),
             (REC, "CircularRecord.__init__"), (VEC, "AbstractVector.assemble"),
             (MOD, "AbstractModule.structure"), (VEC, "AbstractVector.structure")]
ASSUMES = ["D-RE", "D-RESTR", "D-SEQ", "D-REC-SLICE", "D-REC-ADD", "D-CACHE",
           "RE5 (shape semantics): a pattern site.N^a(N^k)(N N* N)(N^k)N^a.rc(site) matches at a start exactly when the site is "
           "there and some later position carries rc(site) at the right distance; its groups are the fixed-width windows after "
           "the site and before rc(site) (used only to name the cut positions c1, c2 in lemma L1)",
           "induction rule for |cat(P)| = total(P) (base and step discharged)",
           "abstract view of the entity contracts (frag(e) names the text of target_sequence())"]
TRUSTED = ["CPython re", "Bio.Restriction.elucidate", "SeqRecord + and slicing"]
EXPLANATION = ("body VCs: fragment extraction (module: stretch between the cuts; vector: complement), the overhang walk "
               "concatenating fragments (ghost path, acc = cat(path)), circular wrapping; lemmas: decomposition => fragment text "
               "(rotation-invariant, per symbolic geometry), product is a rotation of the documented formula, length = sum of "
               "fragment lengths; literal obligations: the derived structure of every qualifying enzyme (58) has the documented "
               "shape")


def obligations(ctx):
    obs = ctx.verify(FUNCTIONS)
    obs = [o for o in obs if "citation-qualifiers" not in o.name and "reference-list" not in o.name]
    return obs + ctx.part(lemmas) + ctx.part(literal)


def lemmas(ctx):
    out = []
    W = tm.V("W", STR)
    n = tm.slen(W)
    i, c, l = tm.V("i", INT), tm.V("c", INT), tm.V("l", INT)
    base = [tm.lt(0, n), tm.le(0, i), tm.lt(i, n), tm.le(0, c), tm.lt(c, n), tm.le(0, l), tm.le(l, n)]
    # Lrot: reading l letters at c+i on the plasmid rotated right by i = reading them at c on the plasmid
    out.append(Obligation("C01.Lrot a stretch of a rotated plasmid is the same stretch of the plasmid", base,
                          tm.eq(tm.circ(tm.rot_i(W, i), tm.add(c, i), l), tm.circ(W, c, l)), kind="B",
                          text="circ(rot(W,i), c+i, l) = circ(W, c, l)"))
    # Lsub: the stretch that starts after a prefix A and is |B| long is B
    A, B, C = tm.V("A", STR), tm.V("B", STR), tm.V("C", STR)
    cat3 = tm.concat(A, B, C)
    out.append(Obligation("C01.Lsub the stretch after a prefix is the next piece", [],
                          tm.eq(tm.circ(cat3, tm.slen(A), tm.slen(B)), B), kind="B",
                          text="circ(A.B.C, |A|, |B|) = B"))
    # L1 (module): W = site.x.o5.t.o3.y.rsite.b ; the fragment between the cuts c1 = |site.x|, c2 = c1 + |o5.t| is o5.t,
    # at every rotation (by Lrot) -- symbolic site, flank, overhang and target lengths = every enzyme geometry at once
    site, x, o5, t, o3, y, rsite, b = [tm.V(nm, STR) for nm in ("site", "x", "o5", "t", "o3", "y", "rsite", "b")]
    Wm = tm.concat(site, x, o5, t, o3, y, rsite, b)
    c1 = tm.add(tm.slen(site), tm.slen(x))
    out.append(Obligation("C01.L1 module: the stretch between the two cuts is upstream overhang + target", [],
                          tm.eq(tm.circ(Wm, c1, tm.add(tm.slen(o5), tm.slen(t))), tm.concat(o5, t)), kind="B",
                          text="frag(m) = o5.t for W = site.x.o5.t.o3.y.rc(site).b (any lengths)"))
    # L1v (vector): W = n1.od.x.rsite.ph.site.y.ou.n2.bb ; kept = complement of [c1, c2): from c2 = start of ou round to c1
    n1, od, ph, ou, n2, bb = [tm.V(nm, STR) for nm in ("n1", "od", "ph", "ou", "n2", "bb")]
    Wv = tm.concat(n1, od, x, rsite, ph, site, y, ou, n2, bb)
    nv = tm.slen(Wv)
    c2v = tm.add_many([tm.slen(z) for z in (n1, od, x, rsite, ph, site, y)])
    Lv = tm.sub(c2v, tm.slen(n1))
    out.append(Obligation("C01.L1v vector: the complement of the placeholder stretch is upstream overhang + backbone",
                          [tm.lt(0, tm.slen(n1))],
                          tm.eq(tm.substr(tm.concat(Wv, Wv), c2v, tm.sub(nv, Lv)), tm.concat(ou, n2, bb, n1)), kind="B",
                          text="frag(v) = ou.n2.bb.n1 for W = n1.od.x.rc(site).ph.site.y.ou.n2.bb"))
    # L3: cat(path).frag(v) is a rotation of frag(v).cat(path) = up(v).b.up(m1).t1...  (documented formula)
    X, Y = tm.V("X", STR), tm.V("Y", STR)
    out.append(Obligation("C01.L3 the product is a rotation of the documented formula", [tm.lt(0, tm.slen(Y))],
                          tm.eq(tm.substr(tm.concat(tm.concat(X, Y), tm.concat(X, Y)), tm.slen(X), tm.add(tm.slen(X), tm.slen(Y))),
                                tm.concat(Y, X)), kind="B",
                          text="X.Y read from |X| is Y.X: cat(path).frag(v) ~ frag(v).cat(path)"))
    # L4: length = sum of the fragment lengths (base / step of the induction over the path)
    models = ctx.executor().models
    ac.need_cat(models)

    def total_body(p):
        m = tm.seqlen(p)
        return tm.ite(tm.eq(m, 0), tm.I(0), tm.add(tm.app("total", INT, tm.T("seq.extract", (p, tm.I(0), tm.sub(m, 1)), p.sort)),
                                                   tm.slen(frag(tm.seqnth(p, tm.sub(m, 1))))))

    models.define_rec("total", [("p", SEQI)], INT, total_body)
    P, e = tm.V("P", SEQI), tm.V("e", INT)
    Pe = tm.seqcat(P, tm.sequnit(e))
    defs = models.defs_for(tm.eq(tm.app("cat", STR, P), tm.S("")), [tm.eq(tm.app("total", INT, P), 0)])
    out.append(Obligation("C01.L4a length, base: the empty path contributes nothing", [tm.eq(tm.seqlen(P), 0)],
                          tm.eq(tm.slen(tm.app("cat", STR, P)), tm.app("total", INT, P)), kind="B", defs=defs, decls=models.decls, sorts=models.sorts,
                          text="|cat([])| = total([]) = 0"))
    out.append(Obligation("C01.L4b length, step: appending a module adds exactly its fragment length",
                          [tm.eq(tm.slen(tm.app("cat", STR, P)), tm.app("total", INT, P)),
                           models.unfold("cat", Pe), models.unfold("total", Pe)],
                          tm.eq(tm.slen(tm.app("cat", STR, Pe)), tm.app("total", INT, Pe)), kind="B", defs=defs, decls=models.decls, sorts=models.sorts,
                          text="|cat(P.[e])| = total(P.[e]): every junction overhang counted once, nothing else"))
    return out


def literal(ctx):
    """C: for every qualifying enzyme the *derived* structures have the documented shape"""
    from pyvc import native
    ns = native.load(ctx.repo_root)
    out = []
    enz = gen.qualifying_enzymes()
    out.append(Obligation("C01.C0 the enzyme enumeration is not empty", [], tm.B(len(enz) >= 20), kind="C", text="%d enzymes" % len(enz)))
    for (name, e, m, v) in be.generic_classes(ns["moclo.core"], enz):
        site, a, k = be.enzyme_geometry(e)
        rs = gen.rc(site)
        want_m = site + "N" * a + "(" + "N" * k + ")(NN*N)(" + "N" * k + ")" + "N" * a + rs
        want_v = "N(" + "N" * k + ")(" + "N" * a + rs + "N*" + site + "N" * a + ")(" + "N" * k + ")N"
        for role, cls, want in (("module", m, want_m), ("vector", v, want_v)):
            try:
                got = cls.structure()
            except Exception as ex:
                got = "raised %r" % (ex,)
            out.append(Obligation("C01.C1[%s %s] derived structure has the documented shape" % (name, role), [],
                                  tm.eq(tm.S(got), tm.S(want)), kind="C", text="%s: %s" % (name, got),
                                  meta=dict(function="structure[%s %s]" % (name, role), clause="shape", expected=want, observed=got)))
    return out


# ---------------------------------------------------------------------------------------------- bounded
def scenario(ns, e, rng, chain_len, extra=0):
    """vector + chain of modules for enzyme e, random rotations; returns (vector entity, [module entities], expected text)"""
    from Bio.Seq import Seq
    core = ns["moclo.core"]
    CircularRecord = ns["moclo.record"].CircularRecord
    site, a, k = be.enzyme_geometry(e)
    Mod = type("GModule", (core.Entry,), dict(cutter=e))
    Vec = type("GVector", (core.EntryVector,), dict(cutter=e))
    # chaining overhangs: pairwise distinct, not reverse-complementary to each other or themselves
    ovs = []
    tries = 0
    while len(ovs) < chain_len + 1 and tries < 2000:
        tries += 1
        o = ba.clean(rng, k, e)
        if o in ovs or gen.rc(o) in ovs or gen.rc(o) == o:
            continue
        ovs.append(o)
    if len(ovs) < chain_len + 1:
        return None
    # the chain's last overhang (the vector's upstream one) is no module's start: it may be the reverse complement of one
    if rng.random() < 0.3:
        ovs[chain_len] = gen.rc(ovs[rng.randrange(chain_len)])
    mods, frags = [], []
    for i in range(chain_len):
        t = ba.clean(rng, rng.randint(2, 9), e)
        text = ba.build_module(e, ovs[i], t, ovs[i + 1], rng, backbone=rng.choice([0, 1, 2] + list(range(3, 13))))     # (0: the structure fills the plasmid)
        if text is None:
            return None
        mods.append(text)
        frags.append(ovs[i] + t)
    vtext, vfrag = ba.build_vector(e, ovs[chain_len], ovs[0], rng, placeholder=rng.choice([0, 1] + list(range(2, 9))), backbone=rng.choice([0, 1] + list(range(2, 11))))
    if vtext is None:
        return None
    return Mod, Vec, vtext, mods, "".join(frags) + vfrag


def bounded(ctx):
    from pyvc import native
    from Bio.Seq import Seq
    ns = native.load(ctx.repo_root)
    CircularRecord = ns["moclo.record"].CircularRecord
    rng = random.Random(ctx.seed)
    enz = gen.qualifying_enzymes()
    if ctx.tier == "quick":
        seen, keep = set(), []
        for x in enz:
            g = (len(x[2]), x[3], x[4])
            if g not in seen:
                seen.add(g)
                keep.append(x)
        enz = keep
    viol, samples = [], []
    evals = 0
    distinct = set()
    for (name, e, site, a, k) in enz:
        for chain_len in ((1, 2, 3) if ctx.tier == "quick" else (1, 2, 3, 4)):
            if k == 1 and chain_len > 1:
                continue
            sc = scenario(ns, e, rng, chain_len)
            if sc is None:
                continue
            Mod, Vec, vtext, mods, expected = sc
            # rotations: every rotation of one plasmid at a time (the others at a random rotation)
            texts = [vtext] + mods
            for which in range(len(texts)):
                nrot = len(texts[which])
                rots = range(nrot) if (ctx.tier != "quick" or which <= 1) else sorted(set(rng.sample(range(nrot), min(nrot, 12)) + [0, nrot - 1]))
                for r in rots:
                    evals += 1
                    cur = [ba.rotate(t_, rng.randrange(len(t_))) for t_ in texts]
                    cur[which] = ba.rotate(texts[which], r)
                    vec = Vec(CircularRecord(Seq(cur[0]), id="v"))
                    ms = [Mod(CircularRecord(Seq(t_), id="m%d" % j)) for j, t_ in enumerate(cur[1:])]
                    order = list(range(len(ms)))
                    rng.shuffle(order)
                    got, prod, w = ba.run_assembly(vec, [ms[j] for j in order])
                    distinct.add((name, chain_len, which, r))
                    ok = got[0] == "product" and ba.is_rotation(str(prod.seq), expected) and len(prod.seq) == len(expected)
                    if not ok:
                        viol.append(dict(name="formula_%s_%d" % (name, chain_len),
                                         what="enzyme %s %s(a=%d,k=%d), chain of %d, plasmid #%d at rotation %d, argument order %r: %s" % (
                                             name, site, a, k, chain_len, which, r, order,
                                             ("product %r (%d nt) is not a rotation of the formula %r (%d nt)" % (
                                                 str(prod.seq)[:50], len(prod.seq), expected[:50], len(expected))) if prod is not None else "ended with %r" % (got,)),
                                         case=dict(enzyme=name, plasmids=cur, order=order), expected=expected,
                                         observed=str(prod.seq) if prod is not None else list(got)))
                        break
            if len(samples) < 3:
                samples.append(dict(enzyme=name, geometry=[len(site), a, k], chain=chain_len, product_length=len(expected)))
    # modules wrapped by signature-typed PART classes (a degenerate letter / a wildcard side in the signature) instead of
    # generic module classes: the same formula, at every rotation of the first part
    tp = ba.typed_part_scenario(ns, rng)
    if tp is not None:
        want_ = "".join(tp["frags"]) + tp["vfrag"]
        c0_, t0_ = tp["parts"][0]
        for r_ in range(len(t0_)):
            evals += 1
            vec_ = tp["vec_cls"](CircularRecord(Seq(tp["vtext"]), id="v"))
            ms_ = [c0_(CircularRecord(Seq(t0_[r_:] + t0_[:r_]), id="p0"))] + [c_(CircularRecord(Seq(t_), id="p%d" % i_)) for i_, (c_, t_) in enumerate(tp["parts"][1:], 1)]
            got_, prod_, _ = ba.run_assembly(vec_, ms_)
            distinct.add(("typed-parts", r_))
            if got_[0] != "product" or not ba.is_rotation(str(prod_.seq), want_):
                viol.append(dict(name="typed_parts", what="modules typed by part classes (signatures GGAS/TACT, TACT/NNNN; overhangs %r), first part rotated by %d: %s" % (
                    tp["overhangs"], r_, "ended with %r" % (got_[:2],) if got_[0] != "product" else "product is not the documented one"),
                                 case=dict(vector=tp["vtext"], parts=[t_ for _, t_ in tp["parts"]], rotation=r_), expected=want_,
                                 observed=str(prod_.seq) if prod_ is not None else list(got_)))
                break
    # the shared scenarios: this property's oracle over the cross product of the unusual input dimensions
    from bounded import scenarios as sn
    n_sw, d_sw, v_sw = sn.sweep(ctx, ns, 'sequence')
    evals += n_sw
    distinct |= {("shared",) + tuple(map(str, k_)) for k_ in d_sw}
    viol.extend(v_sw)
    uniq = {}
    for v in viol:
        uniq.setdefault(v["name"], v)
    return dict(evaluations=evals, distinct_nontrivial=len(distinct),
                rule="" + sn.SWEEP_RULE + "; every qualifying enzyme of Bio.Restriction (quick: one per geometry) x chains of 1-3 (4) modules built to the "
                     "formal definition (exactly one forward and one reverse site per plasmid, seeded targets/backbones/placeholders) "
                     "x every rotation of the vector and of the first module (sampled for the others in quick) with the other "
                     "plasmids at random rotations x a random argument order; product compared up to rotation and in length with the "
                     "documented formula computed from the pieces",
                bound="%d enzymes, chains <= %d, targets 2-9 nt" % (len(enz), 3 if ctx.tier == "quick" else 4),
                samples=samples, violations=list(uniq.values())[:20], n_violations=len(uniq))


def replay(ctx, ob, model):
    from contracts.replays import replay as r
    return r(ctx, ob, model)


LEVEL_TEXT = ("Deductive: fragment extraction and the concatenating walk are verified against contracts whose closed forms are the "
              "documented formula (acc = cat(path), product = cat(path).frag(v)); string lemmas with symbolic piece lengths cover "
              "every enzyme geometry and every rotation at once; the derived structure of each of the 58 qualifying enzymes is "
              "checked literally against the documented shape.")
LEVEL_NOTE = ("Assumed: re shape semantics (RE5) linking the pattern to the cut positions, Bio.Restriction.elucidate, SeqRecord + and "
              "slicing, induction rule, abstract entity view. Bounded part (not proved): all enzymes/geometries x chains x rotations "
              "against the formula.")
