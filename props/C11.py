# coding: utf-8
"""C11 -- Products of one level are valid modules of the next level."""
from __future__ import annotations

import random

from pyvc import term as tm
from pyvc.term import INT, BOOL, STR
from pyvc.solve import Obligation
from bounded import gen, assembly as ba, entities as be
from props.C04 import shape_of

ID = "C11"
LEVEL = "proof"
FILES = ["moclo-cidar/moclo/kits/cidar.py", "moclo-ecoflex/moclo/kits/ecoflex.py", "moclo-moclo/moclo/kits/moclo.py",
         "moclo-ytk/moclo/kits/ytk.py", "moclo/moclo/core/_assembly.py"]
FUNCTIONS = [("moclo/moclo/core/vectors.py", "AbstractVector.target_sequence"), ("moclo/moclo/core/modules.py", "AbstractModule.target_sequence"),
             ("moclo/moclo/core/_assembly.py", "AssemblyManager._generate_assembly"),
             ("moclo/moclo/core/_structured.py", "StructuredRecord._get_regex"), ("moclo/moclo/core/_structured.py", "StructuredRecord._match"), ("moclo/moclo/regex.py", "DNARegex.search")]
# (kit, vector class, module class inserted, next-level class that must accept the product)
TRIPLES = [("cidar", "CIDAREntryVector", "CIDARProduct", "CIDAREntry"),
           ("cidar", "CIDARCassetteVector", "CIDAREntry", "CIDARCassette"),
           ("cidar", "CIDARDeviceVector", "CIDARCassette", "CIDARDevice"),
           ("ecoflex", "EcoFlexCassetteVector", "EcoFlexEntry", "EcoFlexCassette"),
           ("ecoflex", "EcoFlexDeviceVector", "EcoFlexCassette", "EcoFlexDevice"),
           ("moclo", "MoCloEntryVector", "MoCloProduct", "MoCloEntry"),
           ("moclo", "MoCloCassetteVector", "MoCloEntry", "MoCloCassette"),
           ("ytk", "YTKEntryVector", "YTKProduct", "YTKEntry")]
ASSUMES = ["C01 (the product reads F0 . insert . F3 . F4 . rest on the circle: re-verified fragment/walk contracts)",
           "RE5: a window is accepted by a single-run shape iff its fixed-width flanks match letter-wise and the run absorbs the "
           "rest (semantics of re); uniqueness of the match from `no other next-level site` (hypothesis of the statement)",
           "D-RESTR for the digest screen of the next level"]
TRUSTED = ["CPython re", "Bio.Restriction"]
EXPLANATION = ("literal shape-alignment obligations per (vector, module, next-level) triple: the class word the product is known to "
               "carry around the insert (vector flanks with the placeholder replaced by an insert of m >= 2 letters) is letter-wise "
               "included in the next-level structure, whose group 2 covers the whole insert; fragment/walk contracts re-verified")


def obligations(ctx):
    obs = ctx.verify(FUNCTIONS)
    obs = [o for o in obs if "citation" not in o.name]
    from props._shared import typing_state_census
    return list(obs + ctx.part(literal)) + ctx.part(lambda c_: [typing_state_census(c_, 'C11')], 'typing-state census')


def cls_incl(wide, narrow):
    """IUPAC class of `wide` contains class of `narrow`"""
    return set(gen.IUPAC[narrow]) <= set(gen.IUPAC[wide]) or wide == "N"


def product_word(kits, kit, vname, mname, m):
    """class word of the product around the insert, for an insert of one module whose target has m letters.
    Returns (left, insert, right): left/right = fixed class words known from the vector literal, insert = what replaces
    the placeholder (module overhang + target), all as IUPAC class letters."""
    V = getattr(kits[kit], vname)
    M = getattr(kits[kit], mname)
    vs = shape_of(V.structure())
    ms = shape_of(M.structure())
    # module fragment = group 1 + group 2 (leading overhang kept, trailing dropped); group 2 instantiated with m letters
    if len(ms["F2a"]) + len(ms["F2b"]) <= 2:
        body = ms["F2a"] + "N" * max(0, m - len(ms["F2a"]) - len(ms["F2b"])) + ms["F2b"]
    else:   # a hand-written module literal with its own flanks inside group 2 (YTKProduct): m letters of payload in the run
        body = ms["F2a"] + "N" * m + ms["F2b"]
    insert = ms["F1"] + body
    # the product reads:  F0 . insert . F3 . F4   (F1 of the vector is the downstream overhang, replaced by the module's own
    # upstream overhang of the same letters; F3 is the vector's upstream overhang, kept with the vector fragment)
    # the module's trailing overhang class word (its group 3) constrains the letters of the vector's F3 position
    f3 = "".join(a if cls_incl(b, a) else b for a, b in zip(ms["F3"], vs["F3"])) if len(ms["F3"]) == len(vs["F3"]) else vs["F3"]
    return vs["F0"], insert, f3 + vs["F4"]


def aligned(word_left, insert, word_right, nshape, payload=None):
    """is the word  left.insert.right  accepted by the shape `nshape`, at some offsets dl / dr from its two ends, with the
    next-level *target* (groups 1+2: leading overhang included) covering the payload?  payload = (start, end) inside the
    word: by default the whole insert; for the YTK product (whose own flanks complete the next-level sites) the stretch
    between those flanks.  fixed-width parts from the left: G0, G1, G2a ; from the right: G2b, G3, G4 ; the run absorbs
    the middle."""
    w = word_left + insert + word_right
    L = nshape["F0"] + nshape["F1"] + nshape["F2a"]
    R = nshape["F2b"] + nshape["F3"] + nshape["F4"]
    ps, pe = payload if payload is not None else (len(word_left), len(word_left) + len(insert))
    why = "no alignment"
    for dl in range(0, len(word_left) + len(insert)):
        if any(not cls_incl(g, w[dl + i]) for i, g in enumerate(L) if dl + i < len(w)) or dl + len(L) > len(w):
            continue
        for dr in range(0, len(word_right) + len(insert)):
            if dl + len(L) + len(R) + dr > len(w):
                break
            if any(not cls_incl(g, w[len(w) - 1 - dr - i]) for i, g in enumerate(reversed(R))):
                continue
            t_start = dl + len(nshape["F0"])                                  # start of group 1 = start of the next-level target
            t_end = len(w) - dr - len(nshape["F3"]) - len(nshape["F4"])      # end of group 2
            if t_start <= ps and pe <= t_end:
                return True, "ok (offsets %d/%d, target [%d,%d) covers [%d,%d))" % (dl, dr, t_start, t_end, ps, pe)
            why = "target [%d,%d) does not cover the payload [%d,%d)" % (t_start, t_end, ps, pe)
    return False, why


def literal(ctx):
    from pyvc import native
    kits = native.kits(ctx.repo_root)
    out = []
    for (kit, vname, mname, nname) in TRIPLES:
        for m in (2, 3, 5, 9):
            label = "%s: %s + %s -> %s, target of %d nt" % (kit, vname, mname, nname, m)
            try:
                N = getattr(kits[kit], nname)
                left, insert, right = product_word(kits, kit, vname, mname, m)
                payload = None
                if mname == "YTKProduct":
                    # reading (DESIGN 7): the YTK product's own flanks (..GG|TCTCN and NNNN.NGA|GACC..) complete the BsaI sites
                    # of the next level and carry its downstream overhang, so what the next-level target must contain is the
                    # stretch between them (next-level upstream overhang + payload)
                    ms_ = shape_of(getattr(kits[kit], mname).structure())
                    lead = len(ms_["F1"]) + len("TCTCN")
                    payload = (len(left) + lead, len(left) + len(insert) - len("NNNNNGA"))
                ok, why = aligned(left, insert, right, shape_of(N.structure()), payload)
            except Exception as ex:
                ok, why = False, repr(ex)
            out.append(Obligation("C11.C1[%s] the product instantiates the next-level structure around the insert" % label, [],
                                  tm.B(ok), kind="C", text=why, meta=dict(function=vname, clause="alignment", detail=why)))
    return out


# ---------------------------------------------------------------------------------------------- bounded
def instance_with(pattern, g1, g3, rng, run, avoid, edge=(None, None)):
    """an instance of `pattern` whose groups 1 and 3 are the given texts (edge: first / last letter of group 2)"""
    toks = gen.parse_structure(pattern)
    for _ in range(300):
        out, gno, depth = [], 0, 0
        pending = None
        g2 = [None, None]
        for t in toks:
            if t[0] == "open":
                gno += 1
                depth += 1
                if gno in (1, 3):
                    pending = list(g1 if gno == 1 else g3)
                if gno == 2:
                    g2[0] = sum(len(x_) for x_ in out)
            elif t[0] == "close":
                depth -= 1
                pending = None
                if g2[0] is not None and g2[1] is None and gno == 2:
                    g2[1] = sum(len(x_) for x_ in out)
            elif t[0] == "lit":
                if pending is not None:
                    out.append(pending.pop(0))
                else:
                    out.append(rng.choice(gen.IUPAC[t[1]]))
            else:
                out.append("".join(rng.choice(gen.IUPAC[t[1]]) for _ in range(run)))
        s = "".join(out)
        if g2[0] is not None and g2[1] is not None and g2[1] - g2[0] >= 2:
            if edge[0]:
                s = s[:g2[0]] + edge[0] + s[g2[0] + 1:]
            if edge[1]:
                s = s[:g2[1] - 1] + edge[1] + s[g2[1]:]
        if all(gen.count_overlapping(s + s[:8], a) <= gen.count_literal(pattern, a) for a in avoid):
            return s
    return s


def sites_of(*classes):
    out = []
    for c in classes:
        site, a, k = be.enzyme_geometry(c.cutter)
        out += [site, gen.rc(site)]
    return tuple(dict.fromkeys(out))


def run_triple(ns, kits, kit, vname, mname, nname, rng, chain_len, tlen, ids="distinct", scar=False):
    """ids: 'distinct' | 'assembly' (every module carries the library's default product id, as the products of an
    earlier level do when the caller did not name them) | 'unknown' (Biopython's default id)"""
    from Bio.Seq import Seq
    CircularRecord = ns["moclo.record"].CircularRecord
    V, M, N = getattr(kits[kit], vname), getattr(kits[kit], mname), getattr(kits[kit], nname)
    avoid = sites_of(V, N)
    k = be.enzyme_geometry(V.cutter)[2]
    ms = shape_of(M.structure())
    # chain overhangs compatible with the module literal's group words (YTKProduct fixes NNGG / GACC)
    def pick(word):
        return "".join(rng.choice(gen.IUPAC[c]) for c in word)
    for _ in range(200):
        ovs = [pick(ms["F1"])] + [ba.clean(rng, k, V.cutter) for _ in range(chain_len - 1)] + [pick(ms["F3"])]
        if len(set(ovs)) == len(ovs) and not any(gen.rc(o) in ovs for o in ovs) and all(iupac_ok(ms["F1"], o) for o in ovs[:-1]) and all(iupac_ok(ms["F3"], o) for o in ovs[1:]):
            break
    else:
        return None
    # the chain's last overhang (the vector's upstream one) is no module's start: where the literals leave it free it may be
    # the reverse complement of one (of an inner junction, or of the vector's other overhang)
    if rng.random() < 0.4:
        j_ = rng.randrange(chain_len)
        cand_ = gen.rc(ovs[j_])
        if iupac_ok(ms["F3"], cand_) and cand_ not in ovs[:-1] and gen.rc(cand_) != cand_:
            ovs[-1] = cand_
    # scar: the junction between the first two inserts spells the recognition site of the enzyme of THIS level (the overhang is
    # the inner part of the site, the neighbouring target letters complete it): each module alone is clean, the product carries
    # that site -- still none of the next level's beyond the two of the design
    edges = [(None, None)] * chain_len
    if scar and chain_len >= 2:
        vsite = be.enzyme_geometry(V.cutter)[0]
        word = rng.choice([vsite, gen.rc(vsite)])
        inner = word[1:-1]
        if len(inner) == k and iupac_ok(ms["F3"], inner) and iupac_ok(ms["F1"], inner) and inner not in (ovs[0], ovs[-1]) and gen.rc(inner) not in ovs:
            ovs[1] = inner
            edges[0] = (None, word[0])
            edges[1] = (word[-1], None)
        else:
            return None
    vtext = instance_with(V.structure(), ovs[0], ovs[-1], rng, rng.randint(3, 8), avoid)
    # vector group 1 = downstream overhang = start of the chain ; group 3 = upstream overhang = end of the chain
    vec = V(CircularRecord(Seq(ba.rotate(vtext, rng.randrange(len(vtext))) + ""), id=dict(distinct="vec", assembly="vec").get(ids, "<unknown id>")))
    mods, targets = [], []
    for i in range(chain_len):
        for _ in range(100):
            mt = instance_with(M.structure(), ovs[i], ovs[i + 1], rng, tlen, avoid, edge=edges[i])
            ent = M(CircularRecord(Seq(ba.rotate(mt, rng.randrange(len(mt)))), id=dict(distinct="mod%d" % i, assembly="assembly").get(ids, "<unknown id>")))
            if ent.is_valid() and (not scar or ba.count_sites(mt, M.cutter) == (1, 1)):
                break
        if scar and not (ent.is_valid() and ba.count_sites(mt, M.cutter) == (1, 1)):
            return None        # (the letters completing the site across the junction made a site inside this module: no such scenario)
        mods.append(ent)
        targets.append(str(ent.target_sequence().seq))
    return vec, mods, targets, N


# the vector types that receive a module type at the next level of its kit (entries -> cassette vectors -> device vectors, and
# the loop of CIDAR / EcoFlex: a device is a module of the cassette level's enzyme again)
NEXT_VECTORS = {"YTKEntry": ("YTKCassetteVector",), "YTKCassette": ("YTKDeviceVector",),
                "CIDAREntry": ("CIDARCassetteVector",), "CIDARCassette": ("CIDARDeviceVector",), "CIDARDevice": ("CIDARCassetteVector",),
                "EcoFlexEntry": ("EcoFlexCassetteVector",), "EcoFlexCassette": ("EcoFlexDeviceVector",), "EcoFlexDevice": ("EcoFlexCassetteVector",),
                "MoCloEntry": ("MoCloCassetteVector", "MoCloSingleCassetteVector"), "MoCloCassette": ("MoCloDeviceVector",)}


def assemble_at_next_level(prod, N, kits, kit, CircularRecord, Seq, label, viol, seed):
    """"Such a product can itself be assembled at the next level": the product, typed as N, goes into every vector type of the
    kit that receives N at the next level (NEXT_VECTORS), built around its overhangs"""
    import sys
    core = sys.modules["moclo.core"]
    rng = random.Random(seed)
    ent = N(prod)
    try:
        if not ent.is_valid():
            return 0
        o5, o3 = str(ent.overhang_start()).upper(), str(ent.overhang_end()).upper()
    except Exception:
        return 0          # (acceptance is check_next_level's business)
    if o5 == o3 or gen.rc(o5) in (o5, o3) or gen.rc(o3) == o3:
        return 0
    done = 0
    for wname in NEXT_VECTORS.get(N.__name__, ()):
        W = getattr(kits[kit], wname, None)
        if not (isinstance(W, type) and issubclass(W, core.AbstractVector) and W.cutter is N.cutter):
            continue
        try:
            ws = shape_of(W.structure())
        except Exception:
            continue
        if not (iupac_ok(ws["F1"], o5) and iupac_ok(ws["F3"], o3)):
            continue      # this vector type fixes other overhangs
        wtext = instance_with(W.structure(), o5, o3, rng, 6, sites_of(W))
        wvec = W(CircularRecord(Seq(wtext), id="next_vec", name="next_vec"))
        if not wvec.is_valid() or str(wvec.overhang_start()).upper() != o3 or str(wvec.overhang_end()).upper() != o5:
            continue      # generator artefact
        got, prod2, _ = ba.run_assembly(wvec, [ent], id="next", name="next")
        done += 1
        if got[0] != "product":
            viol.append(dict(name="assemble_next_%s_%s" % (label, wname), what="%s: the product, typed as %s, cannot be assembled into a %s built around its "
                             "overhangs %s/%s: %r" % (label, N.__name__, wname, o5, o3, got), case=dict(product=str(prod.seq), next=N.__name__, vector=wtext)))
    return done


def iupac_ok(word, text):
    return len(word) == len(text) and all(t in gen.IUPAC[w] for w, t in zip(word, text))


def check_next_level(prod, targets, N, CircularRecord, Seq, label, viol):
    """the product must be accepted by N at every rotation, with the whole insert inside its target"""
    s = str(prod.seq)
    insert = "".join(targets)
    extra = [x for x in sites_of(N) if gen.count_overlapping(insert + insert[:0], x)]
    n = len(s)
    ok_all = True
    for r in range(n):   # every rotation: in particular the ones that put the origin inside a next-level site
        t = s[r:] + s[:r]
        ent = N(CircularRecord(Seq(t), id="p"))
        obs = be.observe_entity(ent)
        if obs["valid"] is not True:
            viol.append(dict(name="next_%s" % label, what="%s: the product (rotation %d) is not accepted by %s: %r" % (label, r, N.__name__, obs),
                             case=dict(product=t, next=N.__name__)))
            return False
        want = insert
        if label.startswith("YTKEntryVector"):
            want = insert[len("NNGGTCTCN"):-len("NNNNNGA")]     # see the reading in literal(): between the product's own flanks
        if want.upper() not in obs["target"].upper():
            viol.append(dict(name="insert_%s" % label, what="%s: target of the next-level module does not contain the whole insert" % label,
                             case=dict(product=t, insert=insert, target=obs["target"])))
            return False
    return ok_all


def two_level_cidar(ns, kits, rng):
    """entries -> cassettes -> device with the CIDAR literals (also used by C09)"""
    from Bio.Seq import Seq
    CircularRecord = ns["moclo.record"].CircularRecord
    cid = kits["cidar"]
    # level 0: two entry modules into a cassette vector -> cassette A ; same again with other overhangs -> cassette B
    cassettes = []
    dev = None
    for attempt in range(30):
        r = run_triple(ns, kits, "cidar", "CIDARDeviceVector", "CIDARCassette", "CIDARDevice", rng, 2, 12)
        if r is None:
            continue
        dvec, dmods, dtargets, N = r
        # build each cassette of the device chain from entries, with the device-chain overhangs as the cassette vector's outer sites
        break
    else:
        return False, "could not build a device-level scenario"
    # simpler and sufficient: assemble entries into a cassette vector, check the product is a cassette and assemble IT into a device vector
    r1 = run_triple(ns, kits, "cidar", "CIDARCassetteVector", "CIDAREntry", "CIDARCassette", rng, 2, 9)
    if r1 is None:
        return False, "could not build a cassette-level scenario"
    cvec, cmods, ctargets, Ncas = r1
    # the entries are annotated the way deposited plasmids are: a literature reference and a feature inside the insert that
    # cites it (the product of one level is used AS IT IS at the next one: its citations must still resolve there)
    from Bio.SeqFeature import SeqFeature, FeatureLocation, Reference
    for i_, m_ in enumerate(cmods):
        ref_ = Reference()
        ref_.title, ref_.authors, ref_.journal = "paper about entry %d" % i_, "Doe J.", "J. Irreproducible Results"
        m_.record.annotations["references"] = [ref_]
        t_ = str(m_.target_sequence().seq)
        at_ = (str(m_.record.seq) * 2).upper().find(t_.upper())
        n_ = len(m_.record.seq)
        if 0 <= at_ and at_ + 3 <= n_:
            m_.record.features.append(SeqFeature(FeatureLocation(at_ + 1, at_ + 3, strand=1), type="misc_feature", id="cited%d" % i_,
                                                 qualifiers={"label": ["cited%d" % i_], "citation": ["[1]"]}))
    got, prod, _ = ba.run_assembly(cvec, cmods, id="cas1", name="cas1")
    if got[0] != "product":
        return False, "cassette assembly ended with %r" % (got,)
    cas = Ncas(prod)
    if not cas.is_valid():
        return False, "the cassette-level product is not a valid CIDARCassette"
    o5, o3 = str(cas.overhang_start()), str(cas.overhang_end())
    if o5 == o3 or gen.rc(o5) == o5:
        return True, "degenerate overhangs drawn; skipped"
    avoid = sites_of(cid.CIDARDeviceVector, cid.CIDARDevice)
    dtext = instance_with(cid.CIDARDeviceVector.structure(), o5, o3, rng, 6, avoid)
    dvec = cid.CIDARDeviceVector(CircularRecord(Seq(dtext), id="dvec", name="dvec"))
    if not dvec.is_valid():
        return True, "generator artefact (a further site slipped into the generated device vector); skipped"
    got2, prod2, _ = ba.run_assembly(dvec, [cas], id="dev1", name="dev1")
    if got2[0] != "product":
        return False, "device assembly of the cassette-level product ended with %r" % (got2,)
    dev = cid.CIDARDevice(CircularRecord(Seq(str(prod2.seq)), id="dev1"))
    if not dev.is_valid():
        return False, "the device-level product is not a valid CIDARDevice"
    inner = [f for f in prod2.features if f.type == "source"]
    # (the cassette vector's own provenance feature reaches into the discarded flanks and is dropped whole: C08)
    if len(inner) < 2 + len(cmods):
        return False, "inner provenance features were not inherited (%d source features)" % len(inner)
    return True, "ok"


def bounded(ctx):
    from pyvc import native
    from Bio.Seq import Seq
    ns = native.load(ctx.repo_root)
    kits = native.kits(ctx.repo_root)
    CircularRecord = ns["moclo.record"].CircularRecord
    rng = random.Random(ctx.seed)
    viol, samples = [], []
    evals = 0
    distinct = set()
    for (kit, vname, mname, nname) in TRIPLES:
        for chain_len in ((1,) if mname == "YTKProduct" else (1, 2, 3)):
            for tlen in ((2, 5, 10) if ctx.tier == "quick" else (2, 3, 4, 6, 8, 10)):
              for idmode in (("distinct",) if chain_len == 1 else ("distinct", "assembly", "unknown", "scar")):
                evals += 1
                label = "%s+%s->%s chain %d%s" % (vname, mname, nname, chain_len, "" if idmode == "distinct" else " ids " + idmode)
                try:
                    r = run_triple(ns, kits, kit, vname, mname, nname, rng, chain_len, max(tlen, 3), "distinct" if idmode == "scar" else idmode, scar=(idmode == "scar"))
                except Exception as ex:
                    viol.append(dict(name="setup_%s" % vname, what="%s: scenario could not be built: %r" % (label, ex), case={}))
                    continue
                if r is None:
                    continue
                vec, mods, targets, N = r
                if not vec.is_valid() or not all(m.is_valid() for m in mods):
                    continue   # generator artefact (an extra site slipped in): not a statement about the code
                got, prod, _ = ba.run_assembly(vec, mods)
                distinct.add((vname, chain_len, tlen, idmode))
                if got[0] != "product":
                    viol.append(dict(name="assemble_%s" % vname, what="%s: ended with %r" % (label, got), case={}))
                    continue
                # hypothesis: no next-level site other than the two the design provides
                s = str(prod.seq)
                nsite = be.enzyme_geometry(N.cutter)[0]
                if len(be.occurrences(s, nsite)) > 1 or len(be.occurrences(s, gen.rc(nsite))) > 1:   # MORE than the design provides
                    continue
                if check_next_level(prod, targets, N, CircularRecord, Seq, label.replace(" ", "_"), viol):
                    evals += assemble_at_next_level(prod, N, kits, kit, CircularRecord, Seq, label.replace(" ", "_"), viol, ctx.seed + len(s))
                if len(samples) < 3:
                    samples.append(dict(triple=label, product_length=len(s)))
    # every rotation of the vector plasmid (the origin inside each flank, site, overhang and the placeholder): products
    # equal (up to rotation) to the fully checked one of the first rotation need no second look, any other is checked
    for (kit, vname, mname, nname) in TRIPLES:
        try:
            r = run_triple(ns, kits, kit, vname, mname, nname, rng, 1, 4)
        except Exception:
            r = None
        if r is None or not r[0].is_valid() or not all(m.is_valid() for m in r[1]):
            continue
        vec, mods, targets, N = r
        vt0 = str(vec.record.seq)
        got0, prod0, _ = ba.run_assembly(vec, mods)
        if got0[0] != "product":
            continue
        s0 = str(prod0.seq)
        nsite = be.enzyme_geometry(N.cutter)[0]
        if len(be.occurrences(s0, nsite)) > 1 or len(be.occurrences(s0, gen.rc(nsite))) > 1:   # MORE than the design provides
            continue
        label = ("%s+%s->%s every vector rotation" % (vname, mname, nname)).replace(" ", "_")
        if not check_next_level(prod0, targets, N, CircularRecord, Seq, label, viol):
            continue
        for rot in range(1, len(vt0)):
            evals += 1
            v2 = type(vec)(CircularRecord(Seq(vt0[rot:] + vt0[:rot]), id="vec"))
            got, prod, _ = ba.run_assembly(v2, mods)
            distinct.add((vname, "vrot", rot))
            if got[0] == "product" and ba.is_rotation(str(prod.seq), s0):
                continue
            if got[0] != "product":
                viol.append(dict(name="assemble_rot_%s" % vname, what="%s: with the vector rotated by %d the assembly ended with %r" % (label, rot, got),
                                 case=dict(vector=vt0, rotation=rot)))
                break
            s2 = str(prod.seq)
            if len(be.occurrences(s2, nsite)) > 1 or len(be.occurrences(s2, gen.rc(nsite))) > 1:   # MORE than the design provides
                continue
            if not check_next_level(prod, targets, N, CircularRecord, Seq, label + "_rot", viol):
                break
    evals += 1
    try:
        ok, detail = two_level_cidar(ns, kits, rng)
        distinct.add(("two-level",))
        if not ok:
            viol.append(dict(name="two_level", what="entries -> cassette -> device (CIDAR): %s" % detail, case={}))
    except Exception as ex:
        viol.append(dict(name="two_level_setup", what="two-level composition could not be run: %r" % (ex,), case={}))
    uniq = {}
    for v_ in viol:
        uniq.setdefault(v_["name"], v_)
    return dict(evaluations=evals, distinct_nontrivial=len(distinct),
                rule="every (vector, module, next-level) triple of the kits x chains of 1-3 inserts x target lengths 2..10, vectors and "
                     "modules instantiated from the real structure literals (seeded fillings free of further sites of both enzymes, "
                     "random rotations; record ids distinct, all the library's default product id, all Biopython's default): the product must be accepted by the next-level class at EVERY rotation and its target must "
                     "contain every insert in chain order; products carrying another next-level site are outside the hypothesis; every rotation of the vector plasmid for one scenario per triple; a "
                     "two-level CIDAR composition (entries -> cassette -> device)",
                bound="8 triples x chains <= 3 x 3 (6) target lengths", samples=samples,
                violations=list(uniq.values())[:20], n_violations=len(uniq))


LEVEL_TEXT = ("Deductive/exhaustive on the finite configuration: for each of the 8 (vector, module, next-level) triples of the "
              "kits the class word the product carries around the insert (from the real vector and module literals, C01's closed "
              "form) is checked letter by letter against the real next-level literal, with group 2 covering the insert, for "
              "insert lengths 2, 3, 5, 9 (the fixed-width flanks make the argument length-independent); acceptance then follows "
              "from the assumed shape semantics of re under the statement's no-other-site hypothesis.")
LEVEL_NOTE = ("Assumed: RE5 shape semantics, uniqueness hypothesis, C01. Bounded part (not proved): every triple x chains x target "
              "lengths with real acceptance at several rotations, and a two-level composition.")
