# coding: utf-8
"""C20 -- Registries are coherent read-only mappings of uniquely identified plasmids."""
from __future__ import annotations

import itertools
import os
import random
import shutil
import tempfile

from pyvc import term as tm
from pyvc.term import INT, BOOL, STR
from pyvc.solve import Obligation
from contracts.registry_c import FsGetItem

ID = "C20"
LEVEL = "proof"
BASE, UTL = "moclo/moclo/registry/base.py", "moclo/moclo/registry/_utils.py"
FILES = [BASE, UTL]
FUNCTIONS = [(BASE, "CombinedRegistry.add_registry"), (BASE, "CombinedRegistry.__getitem__"),
             (BASE, "CombinedRegistry.__contains__"), (BASE, "CombinedRegistry.__len__"), (BASE, "CombinedRegistry.__iter__"),
             (BASE, "FilesystemRegistry.__iter__"), (BASE, "FilesystemRegistry.__len__"),
             (UTL, "find_resistance"), (BASE, "FilesystemRegistry.__getitem__")]
ASSUMES = ["D-DICT", "D-SET", "D-FS", "D-IO",
           "EmbeddedRegistry (tarfile / pkg_resources) is not under contract: the five embedded archives are enumerated "
           "completely (finite). FilesystemRegistry.__iter__/__len__ are under contract over the assumed directory listing "
           "(D-FS: filterdir('/') yields each root-level file matching *.<ext> once, and every such file); generators are "
           "executed eagerly (terminating, fully consumed)",
           "AbstractPart.characterize: abstract view (its body is C05's subject)"]
TRUSTED = ["tarfile, pkg_resources, pyfilesystem2, Bio.SeqIO GenBank parser"]
EXPLANATION = ("body VCs of CombinedRegistry (union with first-one-wins by a loop invariant with a ghost witness, lookup, "
               "membership, len, iteration), find_resistance (first feature naming exactly one cassette; value in the table), "
               "FilesystemRegistry.__getitem__ over an abstract file system; lemma: the lookup domain of a directory registry "
               "is the set its iteration yields; the five embedded archives enumerated completely")


def obligations(ctx):
    return ctx.verify(FUNCTIONS) + ctx.part(lemmas)


def lemmas(ctx):
    out = []
    key = tm.V("key", STR)
    isfile = lambda p: tm.app("fs_isfile", BOOL, p)
    cands = FsGetItem().candidates(key)
    # from the contract of FilesystemRegistry.__getitem__: the lookup succeeds (no KeyError) iff a candidate is a file
    lookup_ok = tm.or_(*[isfile(c) for c in cands])
    # D-FS: iteration yields the stems of the root-level files with a listed extension: a root-level file is a file
    # whose path has no separator
    yielded = tm.or_(*[tm.and_(isfile(c), tm.not_(tm.contains(c, "/"))) for c in cands])
    out.append(Obligation("C20.L1a every key yielded by a directory registry can be looked up", [yielded], lookup_ok, kind="B",
                          text="iter(r) subset of the domain of r[...]"))
    # (the converse -- lookup finds only yielded keys -- is the `raises` clause of FilesystemRegistry.__getitem__:
    #  KeyError exactly when no candidate is a file of the root directory)
    # L2: iteration (contract of FilesystemRegistry.__iter__, over the assumed directory listing) and lookup (contract of
    # __getitem__) agree: a key is yielded iff looking it up does not raise KeyError
    from contracts.registry_c import FsIter, iter_post, W1S, W2S, SEQS
    from pyvc.models_moclo import fs_listing, listing_facts
    exts = list(FsIter.EXT)
    Fl = fs_listing(exts)
    Y, W1, W2 = tm.V("Y", SEQS), tm.V("W1", W1S), tm.V("W2", W2S)
    facts = listing_facts(Fl, exts) + [t for (_, t) in iter_post(Fl, Y, W1, W2)]
    # D-FS: splitext(x + '.' + e) = (x, '.' + e)
    split = [tm.and_(tm.eq(tm.app("path_stem", STR, c), key), tm.eq(tm.app("path_ext", STR, c), tm.S("." + e)))
             for c, e in zip(cands, exts)]
    nofile = tm.and_(*[tm.not_(tm.and_(isfile(c), tm.not_(tm.contains(c, "/")))) for c in cands])   # = the KeyError condition
    i_ = tm.V("i", INT)
    out.append(Obligation("C20.L2a a key that iteration yields is found by the lookup", facts + split + [
        tm.le(0, i_), tm.lt(i_, tm.seqlen(Y)), tm.eq(tm.seqnth(Y, i_), key)], tm.not_(nofile), kind="B",
        text="Y[i] = key => some key.<ext> is a root-level file, so __getitem__ does not raise KeyError"))
    out.append(Obligation("C20.L2b a key that iteration does not yield raises KeyError", facts + split + [
        tm.forall_range(i_, 0, tm.seqlen(Y), tm.ne(tm.seqnth(Y, i_), key))], nofile, kind="B",
        text="key not in Y => no key.<ext> is a root-level file"))
    must_fail = tm.or_(*[isfile(c) for c in cands])
    out.append(Obligation("C20.MF1 must-fail: `some candidate is a file` does not make the key a yielded key", [must_fail], yielded,
                          kind="V", expect="sat", text="a key with a path separator reaches files below the root"))
    return out


# ---------------------------------------------------------------------------------------------- replay / bounded
GB = """LOCUS       %(name)-16s %(n)d bp    DNA     circular SYN 01-JAN-2000
DEFINITION  test plasmid %(name)s.
ACCESSION   %(name)s
VERSION     %(name)s
KEYWORDS    .
SOURCE      synthetic DNA construct
  ORGANISM  synthetic DNA construct
FEATURES             Location/Qualifiers
     misc_feature    1..10
                     /label="%(res)s"
ORIGIN
%(origin)s
//
"""


GB_MULTI = GB.replace("""     misc_feature    1..10
                     /label="%(res)s"
""", """     CDS             1..10
                     /note="a feature without any label"
     misc_feature    3..8
                     /label="ori"
                     /label="origin of replication"
     misc_feature    1..10
                     /label="selection marker"
                     /label="%(res)s"
                     /note="several labels, the cassette name not first"
""")


def gb_text(name, seq, res="AmpR", multi=False):
    lines = []
    if multi:
        for i in range(0, len(seq), 60):
            chunk = seq[i:i + 60].lower()
            lines.append("%9d %s" % (i + 1, " ".join(chunk[j:j + 10] for j in range(0, len(chunk), 10))))
        return GB_MULTI % dict(name=name, n=len(seq), res=res, origin="\n".join(lines))
    for i in range(0, len(seq), 60):
        chunk = seq[i:i + 60].lower()
        lines.append("%9d %s" % (i + 1, " ".join(chunk[j:j + 10] for j in range(0, len(chunk), 10))))
    return GB % dict(name=name, n=len(seq), res=res, origin="\n".join(lines))


def make_dir(ctx, files):
    """files: {relative path: text}"""
    d = tempfile.mkdtemp(prefix="c20-")
    for rel, text in files.items():
        p = os.path.join(d, rel)
        os.makedirs(os.path.dirname(p), exist_ok=True)
        with open(p, "w") as f:
            f.write(text)
    return d


def plasmid_text(rng):
    from Bio.Restriction import BsaI
    from bounded import assembly as ba
    return ba.build_module(BsaI, "AACC", ba.clean(rng, 12, BsaI), "GGAT", rng, backbone=20)


def check_mapping(reg, label, viol, expect_keys=None):
    """Mapping laws on one registry; returns number of evaluations"""
    evals = 0
    try:
        keys = list(iter(reg))
    except Exception as e:
        viol.append(dict(name="iter_%s" % label, what="%s: iteration raised %r" % (label, e), case=dict(registry=label)))
        return 1
    evals += 1
    if len(keys) != len(set(keys)):
        dup = sorted(k for k in set(keys) if keys.count(k) > 1)
        viol.append(dict(name="once_%s" % label, what="%s: iteration yields keys more than once: %r" % (label, dup[:5]), case=dict(registry=label)))
    if len(reg) != len(set(keys)):
        viol.append(dict(name="len_%s" % label, what="%s: len() = %d but %d distinct keys" % (label, len(reg), len(set(keys))), case=dict(registry=label)))
    if expect_keys is not None and set(keys) != set(expect_keys):
        viol.append(dict(name="keys_%s" % label, what="%s: keys %r, expected %r" % (label, sorted(keys)[:8], sorted(expect_keys)[:8]), case=dict(registry=label)))
    for k in set(keys):
        evals += 1
        try:
            item = reg[k]
        except Exception as e:
            viol.append(dict(name="lookup_%s" % label, what="%s: yielded key %r cannot be looked up: %r" % (label, k, e), case=dict(registry=label, key=k)))
            continue
        pb = []
        if item.id != k:
            pb.append("item.id = %r" % (item.id,))
        if item.entity.record.id != k:
            pb.append("record id = %r" % (item.entity.record.id,))
        if type(item.entity.record).__name__ != "CircularRecord":
            pb.append("record is a %s" % type(item.entity.record).__name__)
        if item.resistance not in ("Kanamycin", "Chloramphenicol", "Ampicillin", "Spectinomycin"):
            pb.append("resistance %r" % (item.resistance,))
        if k not in reg:
            pb.append("`key in registry` is False")
        if pb:
            viol.append(dict(name="item_%s" % label, what="%s[%r]: %s" % (label, k, "; ".join(pb)), case=dict(registry=label, key=k)))
    for absent in ("no-such-plasmid", "", "sub/zzz", "../x"):
        evals += 1
        if absent in set(keys):
            continue
        try:
            reg[absent]
            viol.append(dict(name="absent_%s" % label, what="%s: looking up the absent key %r (not yielded by iteration) returned an item" % (label, absent),
                             case=dict(registry=label, key=absent)))
        except KeyError:
            pass
        except Exception as e:
            viol.append(dict(name="absent_%s" % label, what="%s: looking up the absent key %r raised %r, not KeyError" % (label, absent, e),
                             case=dict(registry=label, key=absent)))
    return evals


def bounded(ctx):
    from pyvc import native
    import importlib
    ns = native.load(ctx.repo_root)
    native.kits(ctx.repo_root)
    base = importlib.import_module("moclo.registry.base")
    core = ns["moclo.core"]
    from Bio.Restriction import BsaI
    viol, samples = [], []
    evals = 0
    distinct = set()
    # (1) the five embedded archives, completely
    embedded = []
    for modname, clsname in (("ytk", "YTKRegistry"), ("ytk", "PTKRegistry"), ("cidar", "CIDARRegistry"),
                             ("ecoflex", "EcoFlexRegistry"), ("plant", "PlantRegistry")):
        try:
            mod = importlib.import_module("moclo.registry." + modname)
            reg = getattr(mod, clsname)()
        except Exception as e:
            viol.append(dict(name="import_%s" % clsname, what="registry %s cannot be created: %r" % (clsname, e), case=dict(registry=clsname)))
            continue
        embedded.append((clsname, reg))
        n0 = len(viol)
        evals += check_mapping(reg, clsname, viol)
        for k in reg:
            distinct.add((clsname, k))
    if embedded:
        samples.append(dict(registry=embedded[0][0], items=len(embedded[0][1]), first_key=next(iter(embedded[0][1]))))
    # (2) combinations: union, first one wins, repeats
    for regs in [embedded[:2], embedded[:2][::-1], embedded[:1] * 2, embedded[2:5], embedded]:
        if not regs:
            continue
        comb = base.CombinedRegistry()
        for (_, r) in regs:
            comb << r
        label = "combined(%s)" % "+".join(n for n, _ in regs)
        want = set()
        for (_, r) in regs:
            want |= set(r)
        evals += check_mapping(comb, label, viol, expect_keys=want)
    # first one wins with overlapping ids: two directory registries sharing a stem
    rng = random.Random(ctx.seed)
    Entry = type("BEntry", (core.AbstractPart, core.Entry), dict(cutter=BsaI, signature=("AACC", "GGAT")))
    p1, p2, p3 = plasmid_text(rng), plasmid_text(rng), plasmid_text(rng)
    dirs = []
    try:
        # (`beta` is stored under two supported extensions: still one key, yielded once, counted once)
        d1 = make_dir(ctx, {"alpha.gb": gb_text("alpha", p1), "beta.gbk": gb_text("beta", p2, "KanR"),
                            "beta.gb": gb_text("beta", p2, "KanR"),
                            # a stem with dots of its own (versioned file names): the key is everything before the extension
                            "omega.v2.gb": gb_text("omega.v2", p1),
                            # several features and several /label qualifiers per feature, the resistance cassette named last
                            "theta.gb": gb_text("theta", p2, "CmR", multi=True),
                            "notes.txt": "hello", "gamma.genbank": gb_text("gamma", p3), "noext": gb_text("noext", p3),
                            "sub/zzz.gb": gb_text("zzz", p3), "sub/deep/yyy.gb": gb_text("yyy", p3)})
        # (file stems need not be the identifiers written inside the files: `renamed.gb` holds the record `inner_id`)
        d2 = make_dir(ctx, {"alpha.gb": gb_text("alpha", p3, "CmR"), "delta.gb": gb_text("inner_id", p2, "SpecR")})
        dirs += [d1, d2]
        r1 = base.FilesystemRegistry(d1, Entry)
        r2 = base.FilesystemRegistry(d2, Entry)
        evals += check_mapping(r1, "directory(alpha.gb, beta.gbk, notes.txt, gamma.genbank, noext, sub/zzz.gb)", viol, expect_keys={"alpha", "beta", "omega.v2", "theta"})
        evals += check_mapping(r2, "directory(alpha.gb, delta.gb)", viol, expect_keys={"alpha", "delta"})
        distinct.update({("dir1", "alpha"), ("dir1", "beta"), ("dir2", "alpha"), ("dir2", "delta")})
        r3 = base.FilesystemRegistry(d1, Entry, extensions=("genbank", "gb"))
        evals += check_mapping(r3, "directory(extensions=genbank,gb)", viol, expect_keys={"alpha", "beta", "gamma", "omega.v2", "theta"})
        for order, first in (((r1, r2), p1), ((r2, r1), p3)):
            comb = base.CombinedRegistry()
            for r in order:
                comb << r
            evals += check_mapping(comb, "combined directories", viol, expect_keys={"alpha", "beta", "delta", "omega.v2", "theta"})
            got = str(comb["alpha"].entity.record.seq).upper()
            if got != first.upper():
                viol.append(dict(name="first_wins", what="combined registry: for the shared id 'alpha' the item of the member added second was kept",
                                 case=dict(order=[len(list(r)) for r in order])))
        samples.append(dict(registry="directory", keys=sorted(r1)))
        # (4) members that grow: every add_registry(m) must leave the union holding every key m has *at that moment*
        # (postcondition of add_registry), also when m was added before -- a nested combined registry that received a
        # further member, a directory in which a file was deposited -- and earlier entries keep winning
        inner, outer = base.CombinedRegistry(), base.CombinedRegistry()
        outer << inner
        inner << r2
        outer << inner
        evals += check_mapping(outer, "outer << inner(empty); inner << dir2; outer << inner", viol, expect_keys={"alpha", "delta"})
        inner << r1
        outer << inner
        outer << inner
        evals += check_mapping(outer, "... inner << dir1; outer << inner (twice)", viol, expect_keys={"alpha", "beta", "delta", "omega.v2", "theta"})
        if "alpha" in outer and str(outer["alpha"].entity.record.seq).upper() != p3.upper():
            viol.append(dict(name="first_wins_regrown", what="re-adding a grown member replaced the entry that was there first",
                             case=dict(scenario="nested combined registries")))
        d3 = make_dir(ctx, {"one.gb": gb_text("one", p1)})
        dirs.append(d3)
        r4 = base.FilesystemRegistry(d3, Entry)
        comb = base.CombinedRegistry()
        comb << r4
        with open(os.path.join(d3, "two.gb"), "w") as fh:
            fh.write(gb_text("two", p2))
        comb << r4
        evals += check_mapping(comb, "directory registry added, a file deposited, added again", viol, expect_keys={"one", "two"})
        distinct.update({("grown", "nested"), ("grown", "directory")})
    except Exception as e:
        # an operation of the scenario itself (combining, re-adding, constructing a registry) failed: a finding, with
        # everything recorded so far kept
        import traceback
        viol.append(dict(name="directory_scenario_raised", what="a registry operation of the directory scenarios raised %r (%s)" % (
            e, traceback.format_exc(limit=-2).strip().splitlines()[-3].strip() if traceback.format_exc() else ""),
            case=dict(scenario="generated directories")))
    finally:
        for d in dirs:
            shutil.rmtree(d, ignore_errors=True)
    uniq = {}
    for v in viol:
        uniq.setdefault(v["name"], v)
    return dict(evaluations=evals, distinct_nontrivial=len(distinct),
                rule="(1) the five embedded archives: every key yielded is looked up and its item checked (id, record id, circular "
                     "record, known resistance, membership), length vs distinct keys, absent keys raise KeyError -- exhaustive over "
                     "the archives; (2) combinations (pairs in both orders, a registry with itself, three, all five) against the "
                     "union of keys; (3) generated directories with supported/unsupported extensions, a non-GenBank file, a file "
                     "without extension, sub-directories, custom extension list, two directories sharing an id combined in both "
                     "orders (first one wins); absent keys include names with path separators; (4) members that grow between two "
                     "add_registry calls (nested combined registry, directory receiving a file)",
                bound="2 generated directories of <= 7 entries", exhaustive="embedded archives: all items of the 5 registries",
                samples=samples, violations=list(uniq.values())[:20], n_violations=len(uniq))


def replay(ctx, ob, model):
    """C20.L1b: a key with a path separator reaches a GenBank file below the root although iteration ignores it"""
    if ob.meta.get("clause") != "L1b" and ob.meta.get("function") != "FilesystemRegistry.__getitem__":
        from contracts.replays import replay as r
        return r(ctx, ob, model)
    from pyvc import native
    import importlib
    ns = native.load(ctx.repo_root)
    base = importlib.import_module("moclo.registry.base")
    core = ns["moclo.core"]
    from Bio.Restriction import BsaI
    rng = random.Random(0)
    Entry = type("BEntry", (core.AbstractPart, core.Entry), dict(cutter=BsaI, signature=("AACC", "GGAT")))
    d = make_dir(ctx, {"alpha.gb": gb_text("alpha", plasmid_text(rng)), "sub/zzz.gb": gb_text("zzz", plasmid_text(rng))})
    try:
        r = base.FilesystemRegistry(d, Entry)
        keys = sorted(r)
        try:
            item = r["sub/zzz"]
            found = True
            detail = "returned an item with id %r" % (item.id,)
        except KeyError:
            found, detail = False, "KeyError"
        except Exception as e:
            found, detail = True, "raised %r (not KeyError)" % (e,)
        return found, dict(directory=["alpha.gb", "sub/zzz.gb"], iteration_yields=keys, lookup="r['sub/zzz']", observed=detail,
                           expected="KeyError", model=model)
    finally:
        shutil.rmtree(d, ignore_errors=True)


LEVEL_TEXT = ("Deductive: CombinedRegistry (union, first one wins, KeyError on absent keys, len/iteration of the key set), "
              "find_resistance and the directory lookup are checked against contracts for all registries/keys; the coherence of "
              "directory lookup with iteration is a lemma over the lookup contract and the assumed file-system contract; the "
              "embedded archives are a finite configuration space and are enumerated completely on every run.")
LEVEL_NOTE = ("Assumed: dict/set semantics, pyfilesystem2 (isfile, filterdir, splitext), Bio.SeqIO, tarfile/pkg_resources; "
              "EmbeddedRegistry and directory iteration not under contract (exhaustive enumeration / bounded instead). Bounded "
              "part: 2 generated directories, 6 combinations.")
