# coding: utf-8
"""C20 -- Registries are coherent read-only mappings of uniquely identified plasmids."""
from __future__ import annotations

import itertools
import os
import random
import shutil
import tempfile

from pyvc import term as tm
from pyvc.term import INT, BOOL, STR
from pyvc.solve import Obligation
from contracts.registry_c import FsGetItem

ID = "C20"
LEVEL = "proof"
BASE, UTL = "moclo/moclo/registry/base.py", "moclo/moclo/registry/_utils.py"
FILES = [BASE, UTL]
FUNCTIONS = [(BASE, "CombinedRegistry.add_registry"), (BASE, "CombinedRegistry.__getitem__"),
             (BASE, "CombinedRegistry.__contains__"), (BASE, "CombinedRegistry.__len__"), (BASE, "CombinedRegistry.__iter__"),
             (BASE, "FilesystemRegistry.__iter__"), (BASE, "FilesystemRegistry.__len__"),
             (UTL, "find_resistance"), (BASE, "FilesystemRegistry.__getitem__"),
             (BASE, "EmbeddedRegistry._data"), (BASE, "EmbeddedRegistry.__getitem__"), (BASE, "EmbeddedRegistry.__iter__"),
             (BASE, "EmbeddedRegistry.__len__"), (BASE, "EmbeddedRegistry._load_name"), (BASE, "EmbeddedRegistry._load_resistance"),
             (BASE, "EmbeddedRegistry.__eq__"), (BASE, "EmbeddedRegistry.__hash__"),
             (BASE, "CombinedRegistry.__init__"), (BASE, "CombinedRegistry.__lshift__"), (BASE, "Item.record"),
             (BASE, "FilesystemRegistry._files"), (BASE, "FilesystemRegistry.__init__")]
ASSUMES = ["D-DICT", "D-SET", "D-FS", "D-IO", "D-TAR", "D-HASH", "D-CACHE",
           "EmbeddedRegistry is under contract over an abstract archive (D-TAR: the member sequence of the package data file; "
           "iter(tar.next, None) walks it, getmembers() lists it, one GenBank record per member); its abstract hook "
           "`_load_entity` is an assumed contract at that level (returns an entity wrapping the record given, or a content "
           "error) and is discharged for the five bundled registries by C20.H1 (shape of every return of the real bodies) and "
           "C20.H2 (every class they can pick keeps StructuredRecord.__init__, itself under contract)",
           "well-formedness of an archive (AW: member names distinct, each the id of the one record it holds) is a property "
           "of package DATA: evaluated member by member on the five shipped archives (C20.AW[...], finite and complete); for "
           "an archive violating AW the three views of an embedded registry disagree (must-fail witness C20.MF2a/b) -- "
           "outside the statement, which quantifies over the five embedded registries",
           "content errors (a member that is not one circular GenBank record with a known resistance and type) surface as "
           "ValueError / RuntimeError / KeyError / StopIteration from `_data`: no closed-form condition at this level; absent "
           "from the shipped archives by the exhaustive bounded enumeration",
           "FilesystemRegistry.__iter__/__len__ are under contract over the assumed directory listing "
           "(D-FS: filterdir('/') yields each root-level file matching *.<ext> once, and every such file); generators are "
           "executed eagerly (terminating, fully consumed)",
           "AbstractPart.characterize: abstract view (its body is C05's subject)"]
TRUSTED = ["tarfile, pkg_resources, pyfilesystem2, Bio.SeqIO GenBank parser"]
EXPLANATION = ("body VCs of CombinedRegistry (union with first-one-wins by a loop invariant with a ghost witness, lookup, "
               "membership, len, iteration), find_resistance (first feature naming exactly one cassette; value in the table), "
               "FilesystemRegistry.__getitem__/__iter__/__len__ over an abstract file system, EmbeddedRegistry._data (loop "
               "invariant with a ghost witness over the abstract archive), __getitem__ (cached / first use), __iter__, __len__, "
               "__eq__, __hash__, _load_name, _load_resistance; lemmas: the lookup domain of a directory registry is the set its "
               "iteration yields (L1, L2); for a well-formed archive the iteration, length and lookup of an embedded registry "
               "are one mapping (L3a-d); the five shipped archives are well-formed (AW); the hooks of the five registries wrap "
               "the record given (H1, H2)")


def obligations(ctx):
    return ctx.verify(FUNCTIONS) + ctx.part(lemmas) + ctx.part(embedded_lemmas) + ctx.part(archives) + ctx.part(hooks)


REGISTRIES = (("moclo-ytk/moclo/registry/ytk.py", "ytk", "YTKRegistry"), ("moclo-ytk/moclo/registry/ytk.py", "ytk", "PTKRegistry"),
              ("moclo-cidar/moclo/registry/cidar.py", "cidar", "CIDARRegistry"),
              ("moclo-ecoflex/moclo/registry/ecoflex.py", "ecoflex", "EcoFlexRegistry"),
              ("moclo-plant/moclo/registry/plant.py", "plant", "PlantRegistry"))


def embedded_lemmas(ctx):
    """B over the contracts of EmbeddedRegistry: for a well-formed archive (AW: member names pairwise distinct, each
    member's name is the id of the record it holds) iteration, length and lookup are one coherent mapping"""
    from contracts.registry_c import data_post, SEQS, IDX, item_recid
    from pyvc.models_moclo import tar_listing, tar_name, tar_recid, MAP, ABSENT
    T = tar_listing(tm.V("file", STR))
    n = tm.seqlen(T)
    D, W, Y = tm.V("D", MAP), tm.V("W", IDX), tm.V("Y", SEQS)
    i, j, a, b = tm.V("i", INT), tm.V("j", INT), tm.V("a", INT), tm.V("b", INT)
    key = tm.V("key", STR)

    class _Ex(object):      # data_post only needs the resistance table of the real source
        pass
    from pyvc.repo import Repo
    ex = _Ex()
    ex.repo = Repo(ctx.repo_root)
    aw = [tm.forall([a, b], tm.implies(tm.and_(tm.le(0, a), tm.lt(a, b), tm.lt(b, n)), tm.ne(tar_name(tm.seqnth(T, a)), tar_name(tm.seqnth(T, b))))),
          tm.forall_range(i, 0, n, tm.eq(tar_name(tm.seqnth(T, i)), tar_recid(tm.seqnth(T, i))))]
    data = [t for (_, t) in data_post(ex, D, T, W, n)]                                                       # contract of _data
    it = [tm.eq(tm.seqlen(Y), n), tm.forall_range(j, 0, n, tm.eq(tm.seqnth(Y, j), tar_name(tm.seqnth(T, j))))]   # contract of __iter__
    ln = tm.V("len", INT)
    out = []
    out.append(Obligation("C20.L3a an embedded registry yields each key once", aw + it,
                          tm.forall([a, b], tm.implies(tm.and_(tm.le(0, a), tm.lt(a, b), tm.lt(b, tm.seqlen(Y))), tm.ne(tm.seqnth(Y, a), tm.seqnth(Y, b)))),
                          kind="B", text="AW and Y[j] = name(T[j]) => the keys are pairwise distinct"))
    out.append(Obligation("C20.L3b its length is the number of keys", it + [tm.eq(ln, n)], tm.eq(ln, tm.seqlen(Y)), kind="B",
                          text="len = |T| = |Y| (contracts of __len__ and __iter__)"))
    it_k = tm.select(D, tm.seqnth(Y, i))
    out.append(Obligation("C20.L3c every yielded key is found, the item carries it as its id and holds a circular record with that id and a known resistance",
                          aw + it + data + [tm.le(0, i), tm.lt(i, tm.seqlen(Y))],
                          tm.and_(tm.ne(it_k, ABSENT), tm.eq(tm.app("item_id", STR, it_k), tm.seqnth(Y, i)), tm.eq(item_recid(it_k), tm.seqnth(Y, i)),
                                  tm.app("item_circ", BOOL, it_k)),
                          kind="B", text="Y[i] = name(T[i]) = recid(T[i]) is a key of the data mapping (contract of _data); __getitem__ returns D[key]"))
    out.append(Obligation("C20.L3d a key iteration does not yield is absent from the data mapping (KeyError)",
                          aw + it + data + [tm.forall_range(i, 0, tm.seqlen(Y), tm.ne(tm.seqnth(Y, i), key))],
                          tm.eq(tm.select(D, key), ABSENT), kind="B",
                          text="every key of D is recid(T[W[key]]) = name(T[W[key]]) = Y[W[key]]"))
    # must-fail: without AW the three views need not agree (a member named otherwise than its record)
    e0 = tm.seqnth(T, 0)
    witness = [tm.eq(n, 1), tm.eq(Y, tm.sequnit(tm.S("member"))), tm.eq(tar_name(e0), tm.S("member")), tm.eq(tar_recid(e0), tm.S("record")),
               tm.eq(D, tm.store(tm.constarr(MAP, ABSENT), tm.S("record"), 7)), tm.eq(tm.app("item_id", STR, 7), tm.S("record")),
               tm.eq(item_recid(7), tm.S("record")), tm.app("item_circ", BOOL, 7), tm.app("item_wraps", BOOL, 7),
               tm.eq(tm.app("item_res", STR, 7), tm.S("Ampicillin")), tm.eq(W, tm.constarr(IDX, 0)), tm.eq(i, 0)]
    # must-fail by witness (a satisfiability query over the quantified contracts comes back `unknown`): the one-member
    # archive whose member `member` holds the record `record` satisfies both contracts, and its only key is not found
    out.append(Obligation("C20.MF2a must-fail witness: the archive (member `member` holding record `record`) satisfies the contracts of _data and __iter__",
                          witness, tm.and_(*(it + data)), kind="B", text="so AW is what makes the three views agree, not the contracts alone"))
    out.append(Obligation("C20.MF2b must-fail witness: ... and the key it yields is absent from its data mapping",
                          witness, tm.eq(tm.select(D, tm.seqnth(Y, 0)), ABSENT), kind="B", text="iteration is by member name, the mapping by record id"))
    return out


def archives(ctx):
    """C: well-formedness (AW) of the five archives shipped in the tree, read member by member"""
    import io
    import tarfile
    import warnings
    import Bio.SeqIO
    out = []
    for (rel, modname, clsname) in REGISTRIES:
        path = os.path.join(ctx.repo_root, os.path.dirname(rel), {"PTKRegistry": "ptk"}.get(clsname, modname) + ".tar.gz")
        bad, n_ = [], 0
        try:
            with tarfile.open(path) as tar, warnings.catch_warnings():
                warnings.simplefilter("ignore")
                names = []
                for m in tar.getmembers():
                    n_ += 1
                    names.append(m.name)
                    if not m.isfile():
                        bad.append("%s is not a regular file" % m.name)
                        continue
                    recs = list(Bio.SeqIO.parse(io.TextIOWrapper(tar.extractfile(m)), "gb"))
                    if len(recs) != 1:
                        bad.append("%s holds %d records" % (m.name, len(recs)))
                    elif recs[0].id != m.name:
                        bad.append("%s holds the record %r" % (m.name, recs[0].id))
                if len(set(names)) != len(names):
                    bad.append("member names repeat")
                if n_ == 0:
                    bad.append("no members")
        except Exception as e:
            bad.append("cannot be read: %r" % (e,))
        out.append(Obligation("C20.AW[%s] the shipped archive is well-formed: %d members, names distinct, each the id of the one record it holds" % (clsname, n_),
                              [], tm.B(not bad), kind="C", text="; ".join(bad[:5]) or os.path.basename(path),
                              meta=dict(function=clsname, clause="archive-well-formed", detail=bad[:10])))
    return out


def hooks(ctx):
    """the assumed contract of the abstract hook `_load_entity` (returns an entity wrapping the very record given) for
    the five bundled registries:  F: every `return` of the real body is `<wrapper class>(record)` or
    `<part class>.characterize(record)` with `record` the parameter, never rebound, its id never assigned;
    C: every class the body can pick (its class tables, evaluated on the real class) is a StructuredRecord subclass
    that keeps StructuredRecord.__init__ (contract: stores the record given)."""
    import ast as _ast
    import importlib
    from pyvc import native
    from pyvc.repo import Repo
    ns = native.load(ctx.repo_root)
    native.kits(ctx.repo_root)
    core = ns["moclo.core"]
    SR = ns["moclo.core._structured"].StructuredRecord
    out = []
    for (rel, modname, clsname) in REGISTRIES:
        owner, node = clsname, None
        try:
            tree = _ast.parse(open(os.path.join(ctx.repo_root, rel), encoding="utf-8").read())
            classes = {c_.name: c_ for c_ in tree.body if isinstance(c_, _ast.ClassDef)}
            while owner in classes and node is None:
                node = next((m_ for m_ in classes[owner].body if isinstance(m_, _ast.FunctionDef) and m_.name == "_load_entity"), None)
                if node is None:      # inherited from a registry class of the same file
                    bases = [b_.id for b_ in classes[owner].bases if isinstance(b_, _ast.Name)]
                    owner = bases[0] if bases else None
        except Exception:
            node = None
        if node is None:
            out.append(Obligation("C20.H1[%s] _load_entity found" % clsname, [], tm.FALSE, kind="F", text="no _load_entity for %s in %s" % (clsname, rel)))
            continue
        params = [a_.arg for a_ in node.args.args]
        rec = params[1] if len(params) == 2 else None
        bad, tables = [], set()
        if rec is None:
            bad.append("signature %r" % (params,))
        for n_ in _ast.walk(node):
            if isinstance(n_, (_ast.Assign, _ast.AugAssign, _ast.AnnAssign, _ast.For, _ast.With, _ast.NamedExpr)):
                tgts = n_.targets if isinstance(n_, _ast.Assign) else [getattr(n_, "target", None)] if not isinstance(n_, _ast.With) else [i_.optional_vars for i_ in n_.items]
                for t_ in tgts:
                    for x_ in _ast.walk(t_) if t_ is not None else []:
                        if isinstance(x_, _ast.Name) and x_.id == rec and isinstance(x_.ctx, _ast.Store):
                            bad.append("line %d rebinds %s" % (n_.lineno, rec))
                        if isinstance(x_, _ast.Attribute) and isinstance(x_.value, _ast.Name) and x_.value.id == rec and x_.attr in ("id", "seq") \
                                and isinstance(x_.ctx, _ast.Store):
                            bad.append("line %d assigns %s.%s" % (n_.lineno, rec, x_.attr))
            if isinstance(n_, _ast.Return):
                v = n_.value
                ok = isinstance(v, _ast.Call) and len(v.args) == 1 and not v.keywords and isinstance(v.args[0], _ast.Name) and v.args[0].id == rec
                if ok:
                    f = v.func
                    if isinstance(f, _ast.Attribute) and f.attr == "characterize":
                        tables.add(("characterize", _ast.unparse(f.value)))
                    elif isinstance(f, _ast.Subscript) and isinstance(f.value, _ast.Attribute) and isinstance(f.value.value, _ast.Name) and f.value.value.id == "self":
                        tables.add(("table", f.value.attr))
                    elif isinstance(f, _ast.Name):
                        tables.add(("loopvar", f.id))
                    else:
                        ok = False
                if not ok:
                    bad.append("line %d returns %s" % (n_.lineno, _ast.unparse(v)[:60] if v is not None else None))
        # loop variables must range over the values of a class table of self
        for (k_, name_) in sorted(tables):
            if k_ == "loopvar":
                src = [n_ for n_ in _ast.walk(node) if isinstance(n_, _ast.For) and any(isinstance(x_, _ast.Name) and x_.id == name_ for x_ in _ast.walk(n_.target))]
                attrs = {x_.attr for n_ in src for x_ in _ast.walk(n_.iter) if isinstance(x_, _ast.Attribute) and isinstance(x_.value, _ast.Name) and x_.value.id == "self"}
                if len(src) != 1 or len(attrs) != 1:
                    bad.append("callee %s is not a loop variable over one class table" % name_)
                else:
                    tables.add(("table", attrs.pop()))
        if bad:
            # a body of another shape is not a wrong body: the assumed hook contract stays undischarged for this registry
            # (DEGRADED; the exhaustive enumeration of the archive decides)
            ctx.fun_info.append(dict(function="%s::%s._load_entity" % (rel, owner),
                                     unreached="hook body outside the shape C20.H1 recognises: %s" % "; ".join(bad[:3])))
            continue
        out.append(Obligation("C20.H1[%s] every return of _load_entity wraps the record given" % clsname, [], tm.TRUE, kind="F",
                              text="returns: %s" % sorted(tables), meta=dict(function="%s._load_entity" % owner, file=rel, clause="hook-shape")))
        # C: the classes
        cbad, ncls = [], 0
        try:
            regcls = getattr(importlib.import_module("moclo.registry." + modname), clsname)
            kit = importlib.import_module("moclo.kits." + ("moclo" if modname == "plant" else modname))
            cands = []
            for (k_, name_) in sorted(tables):
                if k_ == "table":
                    cands += list(getattr(regcls, name_).values())
                elif k_ == "characterize":
                    root = eval(name_, dict(vars(importlib.import_module("moclo.registry." + modname))))
                    todo = [root]
                    while todo:
                        c_ = todo.pop()
                        cands.append(c_)
                        todo += c_.__subclasses__()
            for c_ in cands:
                ncls += 1
                if not (isinstance(c_, type) and issubclass(c_, SR)):
                    cbad.append("%r is not a StructuredRecord subclass" % (c_,))
                elif c_.__init__ is not SR.__init__:
                    cbad.append("%s overrides __init__" % c_.__name__)
        except Exception as e:
            cbad.append("tables cannot be evaluated: %r" % (e,))
        out.append(Obligation("C20.H2[%s] every class _load_entity can pick (%d) keeps StructuredRecord.__init__" % (clsname, ncls), [],
                              tm.B(not cbad and ncls > 0), kind="C", text="; ".join(cbad[:5]) or "%d classes" % ncls,
                              meta=dict(function="%s._load_entity" % owner, file=rel, clause="hook-classes", detail=cbad[:10])))
    return out


def lemmas(ctx):
    out = []
    key = tm.V("key", STR)
    isfile = lambda p: tm.app("fs_isfile", BOOL, p)
    cands = FsGetItem().candidates(key)
    # from the contract of FilesystemRegistry.__getitem__: the lookup succeeds (no KeyError) iff a candidate is a file
    lookup_ok = tm.or_(*[isfile(c) for c in cands])
    # D-FS: iteration yields the stems of the root-level files with a listed extension: a root-level file is a file
    # whose path has no separator
    yielded = tm.or_(*[tm.and_(isfile(c), tm.not_(tm.contains(c, "/"))) for c in cands])
    out.append(Obligation("C20.L1a every key yielded by a directory registry can be looked up", [yielded], lookup_ok, kind="B",
                          text="iter(r) subset of the domain of r[...]"))
    # (the converse -- lookup finds only yielded keys -- is the `raises` clause of FilesystemRegistry.__getitem__:
    #  KeyError exactly when no candidate is a file of the root directory)
    # L2: iteration (contract of FilesystemRegistry.__iter__, over the assumed directory listing) and lookup (contract of
    # __getitem__) agree: a key is yielded iff looking it up does not raise KeyError
    from contracts.registry_c import FsIter, iter_post, W1S, W2S, SEQS
    from pyvc.models_moclo import fs_listing, listing_facts
    exts = list(FsIter.EXT)
    Fl = fs_listing(exts)
    Y, W1, W2 = tm.V("Y", SEQS), tm.V("W1", W1S), tm.V("W2", W2S)
    facts = listing_facts(Fl, exts) + [t for (_, t) in iter_post(Fl, Y, W1, W2)]
    # D-FS: splitext(x + '.' + e) = (x, '.' + e)
    split = [tm.and_(tm.eq(tm.app("path_stem", STR, c), key), tm.eq(tm.app("path_ext", STR, c), tm.S("." + e)))
             for c, e in zip(cands, exts)]
    nofile = tm.and_(*[tm.not_(tm.and_(isfile(c), tm.not_(tm.contains(c, "/")))) for c in cands])   # = the KeyError condition
    i_ = tm.V("i", INT)
    out.append(Obligation("C20.L2a a key that iteration yields is found by the lookup", facts + split + [
        tm.le(0, i_), tm.lt(i_, tm.seqlen(Y)), tm.eq(tm.seqnth(Y, i_), key)], tm.not_(nofile), kind="B",
        text="Y[i] = key => some key.<ext> is a root-level file, so __getitem__ does not raise KeyError"))
    out.append(Obligation("C20.L2b a key that iteration does not yield raises KeyError", facts + split + [
        tm.forall_range(i_, 0, tm.seqlen(Y), tm.ne(tm.seqnth(Y, i_), key))], nofile, kind="B",
        text="key not in Y => no key.<ext> is a root-level file"))
    must_fail = tm.or_(*[isfile(c) for c in cands])
    out.append(Obligation("C20.MF1 must-fail: `some candidate is a file` does not make the key a yielded key", [must_fail], yielded,
                          kind="V", expect="sat", text="a key with a path separator reaches files below the root"))
    return out


# ---------------------------------------------------------------------------------------------- replay / bounded
GB = """LOCUS       %(locus)-16s %(n)d bp    DNA     circular SYN 01-JAN-2000
DEFINITION  test plasmid %(name)s.
ACCESSION   %(name)s
VERSION     %(name)s
KEYWORDS    .
SOURCE      synthetic DNA construct
  ORGANISM  synthetic DNA construct
FEATURES             Location/Qualifiers
     misc_feature    1..10
                     /label="%(res)s"
ORIGIN
%(origin)s
//
"""


GB_MULTI = GB.replace("""     misc_feature    1..10
                     /label="%(res)s"
""", """     CDS             1..10
                     /note="a feature without any label"
     misc_feature    3..8
                     /label="ori"
                     /label="origin of replication"
     misc_feature    1..10
                     /label="selection marker"
                     /label="%(res)s"
                     /note="several labels, the cassette name not first"
""")


def gb_text(name, seq, res="AmpR", multi=False, locus=None):
    lines = []
    locus = locus or name
    if multi:
        for i in range(0, len(seq), 60):
            chunk = seq[i:i + 60].lower()
            lines.append("%9d %s" % (i + 1, " ".join(chunk[j:j + 10] for j in range(0, len(chunk), 10))))
        return GB_MULTI % dict(name=name, locus=locus, n=len(seq), res=res, origin="\n".join(lines))
    for i in range(0, len(seq), 60):
        chunk = seq[i:i + 60].lower()
        lines.append("%9d %s" % (i + 1, " ".join(chunk[j:j + 10] for j in range(0, len(chunk), 10))))
    return GB % dict(name=name, locus=locus, n=len(seq), res=res, origin="\n".join(lines))


def make_dir(ctx, files):
    """files: {relative path: text}"""
    d = tempfile.mkdtemp(prefix="c20-")
    for rel, text in files.items():
        p = os.path.join(d, rel)
        os.makedirs(os.path.dirname(p), exist_ok=True)
        with open(p, "w") as f:
            f.write(text)
    return d


def plasmid_text(rng):
    from Bio.Restriction import BsaI
    from bounded import assembly as ba
    return ba.build_module(BsaI, "AACC", ba.clean(rng, 12, BsaI), "GGAT", rng, backbone=20)


import contextlib


@contextlib.contextmanager
def synthetic_embedded(ns, members, label):
    """an EmbeddedRegistry subclass reading a generated archive: members = [(member name, GenBank text)] in archive
    order.  (pkg_resources.resource_stream is answered from memory for this one file name, for the duration.)"""
    import importlib
    import io
    import tarfile
    from Bio.Restriction import BsaI
    base = importlib.import_module("moclo.registry.base")
    core = ns["moclo.core"]
    buf = io.BytesIO()
    with tarfile.open(mode="w:gz", fileobj=buf) as tar:
        for name, text in members:
            data = text.encode("utf-8")
            ti = tarfile.TarInfo(name)
            ti.size = len(data)
            tar.addfile(ti, io.BytesIO(data))
    blob = buf.getvalue()
    fname = "synthetic-%s.tar.gz" % label
    pr = base.pkg_resources
    orig = pr.resource_stream

    def fake(module, file):
        return io.BytesIO(blob) if file == fname else orig(module, file)

    Part = type("SynPart", (core.AbstractPart, core.Entry), dict(cutter=BsaI, signature=("AACC", "GGAT")))
    Reg = type("SynRegistry_" + label, (base.EmbeddedRegistry,), dict(_module="moclo.registry", _file=fname,
                                                                      _load_entity=lambda self, record: Part(record)))
    pr.resource_stream = fake
    try:
        yield Reg
    finally:
        pr.resource_stream = orig


def embedded_scenarios(ctx, ns, viol):
    """well-formed generated archives (member name = record id, names distinct; the LOCUS name is something else, the
    members are not sorted, 0 / 1 / several members): the mapping laws, the order of iteration, the cache"""
    rng = random.Random(ctx.seed + 77)
    evals = 0
    texts = [plasmid_text(rng) for _ in range(4)]
    archives = {
        "three": [("Zeta_1", gb_text("Zeta_1", texts[0], "KanR", locus="LOCUS_Z")), ("alpha", gb_text("alpha", texts[1], "AmpR", locus="first")),
                  ("pMid.V2", gb_text("pMid.V2", texts[2], "CmR", multi=True, locus="Zeta_1"))],
        "one": [("pSOLO-7", gb_text("pSOLO-7", texts[3], "SpecR", locus="other"))],
        "none": [],
    }
    seqs = dict(three=texts[:3], one=texts[3:], none=[])
    for label, members in archives.items():
        with synthetic_embedded(ns, members, label) as Reg:
            reg = Reg()
            names = [n for n, _ in members]
            evals += check_mapping(reg, "generated archive %r" % label, viol, expect_keys=set(names))
            try:
                got = list(reg)
                if got != names:
                    viol.append(dict(name="embedded_order_%s" % label, what="generated archive %r: iteration yields %r, the members are %r" % (label, got, names),
                                     case=dict(archive=label)))
                if len(reg) != len(names):
                    viol.append(dict(name="embedded_len_%s" % label, what="generated archive %r: len() = %r for %d members" % (label, len(reg), len(names)),
                                     case=dict(archive=label)))
                for (n_, _), t_ in zip(members, seqs[label]):
                    it = reg[n_]
                    if str(it.entity.record.seq).upper() != t_.upper() or it.record is not it.entity.record:
                        viol.append(dict(name="embedded_record_%s" % label, what="generated archive %r: the item of %r does not hold the member's own record" % (label, n_),
                                         case=dict(archive=label, key=n_)))
                    if reg[n_] is not it:
                        viol.append(dict(name="embedded_cache_%s" % label, what="generated archive %r: two lookups of %r give two items" % (label, n_),
                                         case=dict(archive=label, key=n_)))
                other = Reg()
                if not (reg == other and hash(reg) == hash(other)) or reg == object() or (label != "three" and False):
                    viol.append(dict(name="embedded_eq_%s" % label, what="generated archive %r: two registries of one archive are not equal / hash differently" % label,
                                     case=dict(archive=label)))
            except Exception as e:
                import traceback
                viol.append(dict(name="embedded_raised_%s" % label, what="generated archive %r: %r (%s)" % (label, e, traceback.format_exc(limit=-2)[-300:]),
                                 case=dict(archive=label)))
            evals += 1
    with synthetic_embedded(ns, archives["three"], "three") as A:
        with synthetic_embedded(ns, archives["one"], "one") as B:
            if A() == B():
                viol.append(dict(name="embedded_eq_distinct", what="registries of two different archives compare equal", case={}))
    return evals


def check_mapping(reg, label, viol, expect_keys=None):
    """Mapping laws on one registry; returns number of evaluations"""
    evals = 0
    try:
        keys = list(iter(reg))
    except Exception as e:
        viol.append(dict(name="iter_%s" % label, what="%s: iteration raised %r" % (label, e), case=dict(registry=label)))
        return 1
    evals += 1
    if len(keys) != len(set(keys)):
        dup = sorted(k for k in set(keys) if keys.count(k) > 1)
        viol.append(dict(name="once_%s" % label, what="%s: iteration yields keys more than once: %r" % (label, dup[:5]), case=dict(registry=label)))
    if len(reg) != len(set(keys)):
        viol.append(dict(name="len_%s" % label, what="%s: len() = %d but %d distinct keys" % (label, len(reg), len(set(keys))), case=dict(registry=label)))
    if expect_keys is not None and set(keys) != set(expect_keys):
        viol.append(dict(name="keys_%s" % label, what="%s: keys %r, expected %r" % (label, sorted(keys)[:8], sorted(expect_keys)[:8]), case=dict(registry=label)))
    for k in set(keys):
        evals += 1
        try:
            item = reg[k]
        except Exception as e:
            viol.append(dict(name="lookup_%s" % label, what="%s: yielded key %r cannot be looked up: %r" % (label, k, e), case=dict(registry=label, key=k)))
            continue
        pb = []
        if item.id != k:
            pb.append("item.id = %r" % (item.id,))
        if item.entity.record.id != k:
            pb.append("record id = %r" % (item.entity.record.id,))
        if type(item.entity.record).__name__ != "CircularRecord":
            pb.append("record is a %s" % type(item.entity.record).__name__)
        if item.resistance not in ("Kanamycin", "Chloramphenicol", "Ampicillin", "Spectinomycin"):
            pb.append("resistance %r" % (item.resistance,))
        if k not in reg:
            pb.append("`key in registry` is False")
        if pb:
            viol.append(dict(name="item_%s" % label, what="%s[%r]: %s" % (label, k, "; ".join(pb)), case=dict(registry=label, key=k)))
    some = sorted(set(keys))[:1]
    wild = ["*", "?", "*.gb", "[a-z]*"] + [k_[:-1] + "?" for k_ in some if k_] + ["[%s]%s" % (k_[0], k_[1:]) for k_ in some if k_] + [k_ + "*" for k_ in some] \
        + [k_ + "/" for k_ in some] + [k_.swapcase() for k_ in some if k_.swapcase() != k_]
    for absent in ["no-such-plasmid", "", "sub/zzz", "../x"] + wild:     # (keys are names, never patterns)
        evals += 1
        if absent in set(keys):
            continue
        try:
            reg[absent]
            viol.append(dict(name="absent_%s" % label, what="%s: looking up the absent key %r (not yielded by iteration) returned an item" % (label, absent),
                             case=dict(registry=label, key=absent)))
        except KeyError:
            pass
        except Exception as e:
            viol.append(dict(name="absent_%s" % label, what="%s: looking up the absent key %r raised %r, not KeyError" % (label, absent, e),
                             case=dict(registry=label, key=absent)))
    return evals


def bounded(ctx):
    from pyvc import native
    import importlib
    ns = native.load(ctx.repo_root)
    native.kits(ctx.repo_root)
    base = importlib.import_module("moclo.registry.base")
    core = ns["moclo.core"]
    from Bio.Restriction import BsaI
    viol, samples = [], []
    evals = 0
    distinct = set()
    # (1) the five embedded archives, completely
    embedded = []
    for modname, clsname in (("ytk", "YTKRegistry"), ("ytk", "PTKRegistry"), ("cidar", "CIDARRegistry"),
                             ("ecoflex", "EcoFlexRegistry"), ("plant", "PlantRegistry")):
        try:
            mod = importlib.import_module("moclo.registry." + modname)
            reg = getattr(mod, clsname)()
        except Exception as e:
            viol.append(dict(name="import_%s" % clsname, what="registry %s cannot be created: %r" % (clsname, e), case=dict(registry=clsname)))
            continue
        embedded.append((clsname, reg))
        n0 = len(viol)
        evals += check_mapping(reg, clsname, viol)
        for k in reg:
            distinct.add((clsname, k))
    if embedded:
        samples.append(dict(registry=embedded[0][0], items=len(embedded[0][1]), first_key=next(iter(embedded[0][1]))))
    try:
        evals += embedded_scenarios(ctx, ns, viol)
        distinct.update({("generated-archive", x_) for x_ in ("three", "one", "none")})
    except Exception as e:
        import traceback
        viol.append(dict(name="embedded_scenarios_raised", what="generated archives: %r (%s)" % (e, traceback.format_exc(limit=-3)[-400:]), case={}))
    # (2) combinations: union, first one wins, repeats
    for regs in [embedded[:2], embedded[:2][::-1], embedded[:1] * 2, embedded[2:5], embedded]:
        if not regs:
            continue
        comb = base.CombinedRegistry()
        for (_, r) in regs:
            comb << r
        label = "combined(%s)" % "+".join(n for n, _ in regs)
        want = set()
        for (_, r) in regs:
            want |= set(r)
        evals += check_mapping(comb, label, viol, expect_keys=want)
    # first one wins with overlapping ids: two directory registries sharing a stem
    rng = random.Random(ctx.seed)
    Entry = type("BEntry", (core.AbstractPart, core.Entry), dict(cutter=BsaI, signature=("AACC", "GGAT")))
    p1, p2, p3 = plasmid_text(rng), plasmid_text(rng), plasmid_text(rng)
    dirs = []
    try:
        # (`beta` is stored under two supported extensions: still one key, yielded once, counted once)
        d1 = make_dir(ctx, {"alpha.gb": gb_text("alpha", p1), "beta.gbk": gb_text("beta", p2, "KanR"),
                            "beta.gb": gb_text("beta", p2, "KanR"),
                            # a stem with dots of its own (versioned file names): the key is everything before the extension
                            "omega.v2.gb": gb_text("omega.v2", p1),
                            # several features and several /label qualifiers per feature, the resistance cassette named last
                            "theta.gb": gb_text("theta", p2, "CmR", multi=True),
                            "notes.txt": "hello", "gamma.genbank": gb_text("gamma", p3), "noext": gb_text("noext", p3),
                            # extensions spelled in another case: not among the registry's extensions (pyfilesystem2 matches
                            # patterns case-insensitively on some file systems, lookup by name does not)
                            "upper.GBK": gb_text("upper", p3), "Mixed.Gb": gb_text("Mixed", p1),
                            # a stem with characters that mean something in a wildcard pattern
                            "pK[038]-x.gb": gb_text("pK[038]-x", p2),
                            "sub/zzz.gb": gb_text("zzz", p3), "sub/deep/yyy.gb": gb_text("yyy", p3),
                            # directories whose own names end in a supported extension are not records
                            "backup.gb/inner.gb": gb_text("inner", p3), "old.gbk/readme.txt": "x", "attic.genbank/a.gb": gb_text("a", p1)})
        # (file stems need not be the identifiers written inside the files: `renamed.gb` holds the record `inner_id`)
        d2 = make_dir(ctx, {"alpha.gb": gb_text("alpha", p3, "CmR"), "delta.gb": gb_text("inner_id", p2, "SpecR")})
        dirs += [d1, d2]
        r1 = base.FilesystemRegistry(d1, Entry)
        r2 = base.FilesystemRegistry(d2, Entry)
        evals += check_mapping(r1, "directory(alpha.gb, beta.gbk, notes.txt, gamma.genbank, noext, sub/zzz.gb)", viol, expect_keys={"alpha", "beta", "omega.v2", "theta", "pK[038]-x"})
        evals += check_mapping(r2, "directory(alpha.gb, delta.gb)", viol, expect_keys={"alpha", "delta"})
        distinct.update({("dir1", "alpha"), ("dir1", "beta"), ("dir2", "alpha"), ("dir2", "delta")})
        r3 = base.FilesystemRegistry(d1, Entry, extensions=("genbank", "gb"))
        evals += check_mapping(r3, "directory(extensions=genbank,gb)", viol, expect_keys={"alpha", "beta", "gamma", "omega.v2", "theta", "pK[038]-x"})
        for order, first in (((r1, r2), p1), ((r2, r1), p3)):
            comb = base.CombinedRegistry()
            for r in order:
                comb << r
            evals += check_mapping(comb, "combined directories", viol, expect_keys={"alpha", "beta", "delta", "omega.v2", "theta", "pK[038]-x"})
            got = str(comb["alpha"].entity.record.seq).upper()
            if got != first.upper():
                viol.append(dict(name="first_wins", what="combined registry: for the shared id 'alpha' the item of the member added second was kept",
                                 case=dict(order=[len(list(r)) for r in order])))
        samples.append(dict(registry="directory", keys=sorted(r1)))
        # (4) members that grow: every add_registry(m) must leave the union holding every key m has *at that moment*
        # (postcondition of add_registry), also when m was added before -- a nested combined registry that received a
        # further member, a directory in which a file was deposited -- and earlier entries keep winning
        inner, outer = base.CombinedRegistry(), base.CombinedRegistry()
        outer << inner
        inner << r2
        outer << inner
        evals += check_mapping(outer, "outer << inner(empty); inner << dir2; outer << inner", viol, expect_keys={"alpha", "delta"})
        inner << r1
        outer << inner
        outer << inner
        evals += check_mapping(outer, "... inner << dir1; outer << inner (twice)", viol, expect_keys={"alpha", "beta", "delta", "omega.v2", "theta", "pK[038]-x"})
        if "alpha" in outer and str(outer["alpha"].entity.record.seq).upper() != p3.upper():
            viol.append(dict(name="first_wins_regrown", what="re-adding a grown member replaced the entry that was there first",
                             case=dict(scenario="nested combined registries")))
        d3 = make_dir(ctx, {"one.gb": gb_text("one", p1)})
        dirs.append(d3)
        r4 = base.FilesystemRegistry(d3, Entry)
        comb = base.CombinedRegistry()
        comb << r4
        with open(os.path.join(d3, "two.gb"), "w") as fh:
            fh.write(gb_text("two", p2))
        comb << r4
        evals += check_mapping(comb, "directory registry added, a file deposited, added again", viol, expect_keys={"one", "two"})
        distinct.update({("grown", "nested"), ("grown", "directory")})
    except Exception as e:
        # an operation of the scenario itself (combining, re-adding, constructing a registry) failed: a finding, with
        # everything recorded so far kept
        import traceback
        viol.append(dict(name="directory_scenario_raised", what="a registry operation of the directory scenarios raised %r (%s)" % (
            e, traceback.format_exc(limit=-2).strip().splitlines()[-3].strip() if traceback.format_exc() else ""),
            case=dict(scenario="generated directories")))
    finally:
        for d in dirs:
            shutil.rmtree(d, ignore_errors=True)
    uniq = {}
    for v in viol:
        uniq.setdefault(v["name"], v)
    return dict(evaluations=evals, distinct_nontrivial=len(distinct),
                rule="(1) the five embedded archives: every key yielded is looked up and its item checked (id, record id, circular "
                     "record, known resistance, membership), length vs distinct keys, absent keys raise KeyError -- exhaustive over "
                     "the archives; (2) combinations (pairs in both orders, a registry with itself, three, all five) against the "
                     "union of keys; (3) generated directories with supported/unsupported extensions, a non-GenBank file, a file "
                     "without extension, sub-directories, custom extension list, two directories sharing an id combined in both "
                     "orders (first one wins); absent keys include names with path separators; (4) members that grow between two "
                     "add_registry calls (nested combined registry, directory receiving a file)",
                bound="2 generated directories of <= 7 entries", exhaustive="embedded archives: all items of the 5 registries",
                samples=samples, violations=list(uniq.values())[:20], n_violations=len(uniq))


def replay(ctx, ob, model):
    """C20.L1b: a key with a path separator reaches a GenBank file below the root although iteration ignores it"""
    if ob.meta.get("clause") != "L1b" and ob.meta.get("function") != "FilesystemRegistry.__getitem__":
        from contracts.replays import replay as r
        return r(ctx, ob, model)
    from pyvc import native
    import importlib
    ns = native.load(ctx.repo_root)
    base = importlib.import_module("moclo.registry.base")
    core = ns["moclo.core"]
    from Bio.Restriction import BsaI
    rng = random.Random(0)
    Entry = type("BEntry", (core.AbstractPart, core.Entry), dict(cutter=BsaI, signature=("AACC", "GGAT")))
    d = make_dir(ctx, {"alpha.gb": gb_text("alpha", plasmid_text(rng)), "sub/zzz.gb": gb_text("zzz", plasmid_text(rng))})
    try:
        r = base.FilesystemRegistry(d, Entry)
        keys = sorted(r)
        try:
            item = r["sub/zzz"]
            found = True
            detail = "returned an item with id %r" % (item.id,)
        except KeyError:
            found, detail = False, "KeyError"
        except Exception as e:
            found, detail = True, "raised %r (not KeyError)" % (e,)
        return found, dict(directory=["alpha.gb", "sub/zzz.gb"], iteration_yields=keys, lookup="r['sub/zzz']", observed=detail,
                           expected="KeyError", model=model)
    finally:
        shutil.rmtree(d, ignore_errors=True)


LEVEL_TEXT = ("Deductive: CombinedRegistry (union, first one wins, KeyError on absent keys, len/iteration of the key set), "
              "find_resistance, the directory registry (lookup, iteration, length) and the embedded registry (_data with a loop "
              "invariant over the abstract archive, lookup, iteration, length, equality, hash, loaders) are checked against "
              "contracts for all registries/keys; coherence of lookup with iteration is a lemma over those contracts (L1-L3), "
              "for embedded registries under the well-formedness of the archive, which is evaluated completely on the five "
              "shipped archives (AW); the abstract `_load_entity` hook is discharged for the five registries (H1, H2).")
LEVEL_NOTE = ("Assumed: dict/set semantics, pyfilesystem2 (isfile, filterdir, splitext), Bio.SeqIO, tarfile/pkg_resources "
              "(D-TAR). Bounded part (not proved): the five embedded archives enumerated completely, 3 generated archives, "
              "3 generated directories, combinations.")
