# coding: utf-8
"""C19 -- Parts of the same type are interchangeable."""
from __future__ import annotations

import ast
import random

from pyvc import term as tm
from pyvc.term import INT, BOOL, STR
from pyvc.solve import Obligation
from contracts import assembly_c as ac
from contracts.assembly_c import ostart, oend, frag, chain, last_end, SEQI, MAP, ABSENT
from contracts.entities_c import valid
from bounded import gen, assembly as ba, entities as be

ID = "C19"
LEVEL = "proof"
ASM, MOD = "moclo/moclo/core/_assembly.py", "moclo/moclo/core/modules.py"
FILES = [ASM, MOD]
FUNCTIONS = [(ASM, "AssemblyManager._generate_modules_map"), (ASM, "AssemblyManager._generate_assembly"),
             (MOD, "AbstractModule.target_sequence")]
ASSUMES = ["abstract view of the entity contracts", "D-SEQ", "D-REC-ADD",
           "census C19.F1: the assembly code reads of a module only overhang_start(), overhang_end(), target_sequence() and "
           "record.id / record features for citations and the comment"]
TRUSTED = ["C01/C03 postconditions (re-proved in this run as body VCs)"]
EXPLANATION = ("over the functional postconditions of the map builder and the walk: replacing a module by another valid module "
               "with the same overhangs leaves every verdict condition, the walk and every other fragment unchanged; the product "
               "differs only in that module's segment (lemma on cat with one element replaced, base/step)")


def obligations(ctx):
    obs = ctx.verify(FUNCTIONS)
    obs = [o for o in obs if "citation" not in o.name]
    return obs + ctx.part(census) + ctx.part(lemmas)


def census(ctx):
    """F: what _assembly.py reads of a module object"""
    mi = ctx.repo.modules.get(ASM)
    reads = set()
    for n in ast.walk(mi.tree):
        if isinstance(n, ast.Attribute) and isinstance(n.value, ast.Name) and n.value.id in ("mod", "module", "m", "elem"):
            reads.add(n.attr)
    allowed = {"overhang_start", "overhang_end", "target_sequence", "record"}
    extra = sorted(reads - allowed)
    return [Obligation("C19.F1 census: the assembly reads of a module only its overhangs, its target fragment and its record id", [],
                       tm.B(not extra), kind="F", text="attributes read on module objects: %s" % sorted(reads),
                       meta=dict(function="census", clause="F1", detail=extra))]


def lemmas(ctx):
    out = []
    v = tm.V("v", INT)
    A, A2 = tm.V("A", MAP), tm.V("A2", MAP)
    P, Q = tm.V("P", SEQI), tm.V("Q", SEQI)
    e, e2, j = tm.V("e", INT), tm.V("e2", INT), tm.V("j", INT)
    t = tm.V("t", INT)
    n = tm.seqlen(P)
    same_type = [tm.eq(ostart(e), ostart(e2)), tm.eq(oend(e), oend(e2)), tm.ne(e2, ABSENT)]
    # Q is P with position j replaced by e2; the map A2 is A with the entry of that overhang replaced
    repl = [tm.le(0, j), tm.lt(j, n), tm.eq(tm.seqnth(P, j), e), tm.eq(tm.seqlen(Q), n),
            tm.forall_range(t, 0, n, tm.eq(tm.seqnth(Q, t), tm.ite(tm.eq(t, j), e2, tm.seqnth(P, t)))),
            tm.eq(A2, tm.store(A, ostart(e), e2))]
    chP = [c for (_, c) in chain(P, v, A)]
    t0 = tm.V("t0", INT)

    def inst(q, *vals):
        if q.op == "forall_range":
            var, lo, hi, body = q.args
            return tm.implies(tm.and_(tm.le(lo, vals[0]), tm.lt(vals[0], hi)), tm.subst(body, {var: vals[0]}))
        return tm.subst(q.args[1], dict(zip(q.args[0], vals)))

    # L1: the replaced walk is a walk of the replaced map (same verdict: it closes iff the original closes)
    chQ = chain(Q, v, A2)
    walk_goal = inst(chQ[0][1], t0)
    hints = [inst(chP[0], t0), inst(chP[0], tm.sub(t0, 1)), inst(repl[4], t0), inst(repl[4], tm.sub(t0, 1)),
             inst(chP[1], t0, j), inst(chP[1], j, t0)]
    out.append(Obligation("C19.L1a the walk with the module replaced follows the overhangs of the replaced map",
                          chP + repl + same_type + hints + [tm.le(0, t0), tm.lt(t0, n)], walk_goal.args[1] if walk_goal.op == "=>" else walk_goal,
                          kind="B", text="chain(P, A) => chain(P[j := e2], A[ostart(e) := e2]) (element-wise)"))
    out.append(Obligation("C19.L1b the replaced walk ends on the same overhang (same verdict, same stalled overhang)",
                          chP + repl + same_type + [inst(repl[4], tm.sub(n, 1))], tm.eq(last_end(Q, v), last_end(P, v)), kind="B",
                          text="last_end(P[j := e2]) = last_end(P)"))
    # L2: only the j-th segment of the product changes: cat(P) = pre . frag(e) . post  =>  cat(Q) = pre . frag(e2) . post
    models = ctx.executor().models
    ac.need_cat(models)
    X, Y = tm.V("X", SEQI), tm.V("Y", SEQI)
    x = tm.V("x", INT)
    Xx = tm.seqcat(X, tm.sequnit(x))
    defs = models.defs_for(tm.eq(tm.app("cat", STR, X), tm.S("")), [])
    out.append(Obligation("C19.L2a cat distributes over appending one module (step used to split the product into segments)",
                          [models.unfold("cat", Xx)], tm.eq(tm.app("cat", STR, Xx), tm.concat(tm.app("cat", STR, X), frag(x))),
                          kind="B", defs=defs, decls=models.decls, sorts=models.sorts, text="cat(X.[x]) = cat(X).frag(x)"))
    # segment-wise: prefix up to j equal => texts of the prefixes equal (congruence), the j-th segments are frag(e) / frag(e2)
    out.append(Obligation("C19.L2b equal prefixes give byte-identical text before the replaced segment",
                          [tm.eq(X, Y)], tm.eq(tm.app("cat", STR, X), tm.app("cat", STR, Y)), kind="B", defs=defs,
                          decls=models.decls, sorts=models.sorts, text="cat is a function of the path"))
    return out


# ---------------------------------------------------------------------------------------------- bounded
def bounded(ctx):
    from pyvc import native
    from Bio.Seq import Seq
    from Bio.Restriction import BsaI, BpiI, BsmBI
    ns = native.load(ctx.repo_root)
    core = ns["moclo.core"]
    CircularRecord = ns["moclo.record"].CircularRecord
    rng = random.Random(ctx.seed)
    viol, samples = [], []
    evals = 0
    distinct = set()
    for e in (BsaI, BpiI, BsmBI):
        Mod = type("GModule", (core.Entry,), dict(cutter=e))
        Vec = type("GVector", (core.EntryVector,), dict(cutter=e))
        for chain_len in (1, 2, 3):
            site, a, k = be.enzyme_geometry(e)
            ovs = []
            while len(ovs) < chain_len + 1:
                o = ba.clean(rng, k, e)
                if o in ovs or gen.rc(o) in ovs or gen.rc(o) == o:
                    continue
                ovs.append(o)
            targets, texts = [], []
            for i in range(chain_len):
                text = None
                while text is None:
                    t_ = ba.clean(rng, rng.randint(2, 8), e)
                    text = ba.build_module(e, ovs[i], t_, ovs[i + 1], rng)
                targets.append(t_)
                texts.append(text)
            vtext, vfrag = ba.build_vector(e, ovs[chain_len], ovs[0], rng)
            if vtext is None:
                continue
            # every second scenario: all the inputs carry the same per-letter annotation (sequencing qualities); the
            # replacements then come with a list, a tuple, another key, or none
            la_ = (chain_len + len(ovs[0])) % 2 == 0
            q_ = lambda t_: ({"phred_quality": [(7 * i_) % 41 for i_ in range(len(t_))]} if la_ else {})
            vrot_ = ba.rotate(vtext, rng.randrange(len(vtext)))
            vec = Vec(CircularRecord(Seq(vrot_), id="v", letter_annotations=q_(vrot_)))
            mrot_ = [ba.rotate(t_, rng.randrange(len(t_))) for t_ in texts]
            mods = [Mod(CircularRecord(Seq(t_), id="m%d" % i, letter_annotations=q_(t_))) for i, t_ in enumerate(mrot_)]
            got0, prod0, _ = ba.run_assembly(vec, mods)
            if got0[0] != "product":
                viol.append(dict(name="base_%s_%d" % (e.__name__, chain_len), what="reference assembly failed: %r" % (got0,), case={}))
                continue
            segs = [ovs[i] + targets[i] for i in range(chain_len)]
            for j in range(chain_len):
                for newlen in (2, 5, 11):
                    evals += 1
                    ntext = None
                    while ntext is None:
                        nt = ba.clean(rng, newlen, e)
                        ntext = ba.build_module(e, ovs[j], nt, ovs[j + 1], rng, backbone=rng.randint(3, 15))
                    # the replacement's record identifier is free: its own, that of another module, of the vector, or
                    # Biopython's default -- the segment it contributes is decided by its overhangs only
                    rid = ("r", "m%d" % ((j + 1) % chain_len), "v", "<unknown id>")[(j + newlen) % 4]
                    # ... and so is the way it was made: a fresh record, or a redesign of the part in use (a copy of its
                    # record, taken after that record was typed and assembled, given the new sequence)
                    made = ("fresh", "deepcopy", "copy")[(j + newlen + chain_len) % 3]
                    nseq = Seq(ba.rotate(ntext, rng.randrange(len(ntext))))
                    # ... and so is what is annotated on it: every kind of feature table (joins, either strand, past-the-end and
                    # zero-length locations, approximate boundaries), anywhere on the plasmid
                    from bounded import common as bc_
                    tabs_ = bc_.feature_tables(len(nseq))
                    feats_ = [f_ for t_i, t_ in enumerate(tabs_) for f_ in bc_.build_features(t_) if (t_i + j + newlen) % 2 == 0 or t_i >= len(tabs_) - 8]
                    lan_ = [{}, {"phred_quality": list(range(len(nseq)))}, {"phred_quality": tuple(range(len(nseq)))}, {"other_track": "x" * len(nseq)}][(j + newlen) % 4]
                    if made == "fresh":
                        repl = Mod(CircularRecord(nseq, id=rid, features=feats_, letter_annotations=lan_))
                    else:
                        import copy as _copy
                        rec_ = (_copy.deepcopy if made == "deepcopy" else _copy.copy)(mods[j].record)
                        rec_.letter_annotations = {}       # (Biopython refuses a new sequence while per-letter annotations are attached)
                        rec_.seq = nseq
                        for k_, v_ in lan_.items():
                            rec_.letter_annotations[k_] = v_
                        rec_.features = feats_
                        rec_.id = rid
                        repl = Mod(rec_)
                    ms = list(mods)
                    ms[j] = repl
                    rng.shuffle(ms)
                    got, prod, _ = ba.run_assembly(vec, ms)
                    distinct.add((e.__name__, chain_len, j, newlen))
                    want = "".join(segs[:j]) + ovs[j] + nt + "".join(segs[j + 1:]) + vfrag
                    if got[0] != "product" or not ba.is_rotation(str(prod.seq), want):
                        viol.append(dict(name="swap_%s_%d_%d" % (e.__name__, chain_len, j),
                                         what="%s chain of %d: replacing module %d by another module with the same overhangs (%s..%s): %s" % (
                                             e.__name__, chain_len, j, ovs[j], ovs[j + 1],
                                             "ended with %r" % (got,) if got[0] != "product" else "product differs outside that module's segment"),
                                         case=dict(enzyme=e.__name__, chain=chain_len, position=j), expected=want,
                                         observed=str(prod.seq) if prod is not None else list(got)))
            if len(samples) < 2:
                samples.append(dict(enzyme=e.__name__, chain=chain_len, segments=segs))
    # modules wrapped by signature-typed PART classes (degenerate letter / wildcard side in the signature): the assembly
    # succeeds with the documented product, and so does every replacement by another member with the same two overhangs
    tp = ba.typed_part_scenario(ns, rng)
    if tp is not None:
        evals += 1
        mk_ = lambda c_, t_, i_: c_(CircularRecord(Seq(t_), id=i_))
        vec_ = tp["vec_cls"](CircularRecord(Seq(tp["vtext"]), id="v"))
        base_ = [mk_(c_, t_, "p%d" % i_) for i_, (c_, t_) in enumerate(tp["parts"])]
        got0, prod0, _ = ba.run_assembly(vec_, base_)
        want0 = "".join(tp["frags"]) + tp["vfrag"]
        distinct.add(("typed-parts", "base"))
        if got0[0] != "product" or not ba.is_rotation(str(prod0.seq), want0):
            viol.append(dict(name="typed_parts_base", what="modules typed by part classes (signatures GGAS/TACT, TACT/NNNN; overhangs %r): ended with %r" % (tp["overhangs"], got0[:2]),
                             case=dict(vector=tp["vtext"], parts=[t_ for _, t_ in tp["parts"]])))
        else:
            site_, a_, k_ = be.enzyme_geometry(BsaI)
            for j_, (c_, t_) in enumerate(tp["parts"]):
                for _try in range(3):
                    evals += 1
                    nt_ = ba.clean(rng, rng.randint(3, 9), BsaI)
                    rt_ = ba.build_module(BsaI, tp["overhangs"][j_], nt_, tp["overhangs"][j_ + 1], rng, backbone=rng.randint(3, 12))
                    if rt_ is None:
                        continue
                    ms_ = list(base_)
                    ms_[j_] = mk_(c_, ba.rotate(rt_, rng.randrange(len(rt_))), "r")
                    got_, prod_, _ = ba.run_assembly(vec_, ms_)
                    frs_ = list(tp["frags"])
                    frs_[j_] = tp["overhangs"][j_] + nt_
                    distinct.add(("typed-parts", j_, _try))
                    if got_[0] != "product" or not ba.is_rotation(str(prod_.seq), "".join(frs_) + tp["vfrag"]):
                        viol.append(dict(name="typed_parts_swap_%d" % j_, what="part-typed module %d replaced by another member of its type with the same overhangs: %s" % (
                            j_, "ended with %r" % (got_[:2],) if got_[0] != "product" else "product differs outside that module's segment"),
                                         case=dict(vector=tp["vtext"], parts=[t_ for _, t_ in tp["parts"]], replacement=rt_)))
    # junctions that spell a recognition site: the overhang between two modules is the inner part of the enzyme's site and
    # the neighbouring target letters complete it (each module alone is a valid module; the site only exists in the
    # product, across the ligation scar).  Swapping in such a module is a replacement like any other.
    for e in (BsaI, BpiI, BsmBI):
        site, a, k = be.enzyme_geometry(e)
        if len(site) != k + 2:
            continue
        Mod = type("GModule", (core.Entry,), dict(cutter=e))
        Vec = type("GVector", (core.EntryVector,), dict(cutter=e))
        for word in (site, gen.rc(site)):
            inner, left, right = word[1:-1], word[0], word[-1]
            o0, o2 = None, None
            while o0 is None or o2 is None or len({o0, o2, inner, gen.rc(o0), gen.rc(o2), gen.rc(inner)}) < 6:
                o0, o2 = ba.clean(rng, k, e), ba.clean(rng, k, e)
            plain0 = ba.build_module(e, o0, ba.clean(rng, 5, e) + "A", inner, rng)
            t0s = ba.clean(rng, 5, e) + left
            scar0 = ba.build_module(e, o0, t0s, inner, rng)
            t1 = right + ba.clean(rng, 5, e)
            m1 = ba.build_module(e, inner, t1, o2, rng)
            vtext, vfrag = ba.build_vector(e, o2, o0, rng)
            if None in (plain0, scar0, m1, vtext):
                continue
            evals += 1
            mk = lambda t_, i_: Mod(CircularRecord(Seq(t_), id=i_))
            vec = Vec(CircularRecord(Seq(vtext), id="v"))
            got0, prod0, _ = ba.run_assembly(vec, [mk(plain0, "m0"), mk(m1, "m1")])
            got1, prod1, _ = ba.run_assembly(vec, [mk(scar0, "r"), mk(m1, "m1")])
            distinct.add((e.__name__, "scar", word))
            tail = inner + t1 + vfrag
            ok = (got0[0] == "product" and got1[0] == "product" and ba.is_rotation(str(prod1.seq), o0 + t0s + tail))
            if not ok:
                viol.append(dict(name="scar_%s" % e.__name__, what="%s: a module whose target ends with %r before the junction overhang %r (next target starts with %r: "
                                 "the product spells %s across the junction) replaces one with the same overhangs: reference %r, replacement %r" % (
                                     e.__name__, left, inner, right, word, got0[:2], got1[:2]),
                                 case=dict(enzyme=e.__name__, junction=inner, left=left, right=right)))
    # canonical registry assembly: YTK cassette from parts 1..8 with every same-type replacement available
    try:
        import importlib
        native.kits(ctx.repo_root)
        reg = importlib.import_module("moclo.registry.ytk").YTKRegistry()
        ytk = importlib.import_module("moclo.kits.ytk")
        by_type = {}
        for key in reg:
            item = reg[key]
            by_type.setdefault(type(item.entity).__name__, []).append(item.entity)
        order = ["YTKPart1", "YTKPart2", "YTKPart3", "YTKPart4", "YTKPart5", "YTKPart6", "YTKPart7"]
        vecs = by_type.get("YTKPart8", []) or by_type.get("YTKPart8a", [])
        if all(by_type.get(t_) for t_ in order) and vecs:
            base = [by_type[t_][0] for t_ in order]
            got0, prod0, _ = ba.run_assembly(vecs[0], base)
            if got0[0] == "product":
                for pos, t_ in enumerate(order):
                    for alt in by_type[t_][1:(3 if ctx.tier == "quick" else 12)]:
                        evals += 1
                        ms = list(base)
                        ms[pos] = alt
                        got, prod, _ = ba.run_assembly(vecs[0], ms)
                        distinct.add(("ytk", t_, alt.record.id))
                        a0, a1 = str(base[pos].target_sequence().seq), str(alt.target_sequence().seq)
                        s0, s1 = str(prod0.seq), (str(prod.seq) if prod is not None else "")
                        ok = got[0] == "product" and len(s1) - len(s0) == len(a1) - len(a0) and \
                            ba.is_rotation(s1, (s0 + s0)[(s0 + s0).index(a0) + len(a0):(s0 + s0).index(a0) + len(s0)] + a1) if a0 in (s0 + s0) else False
                        if not ok:
                            viol.append(dict(name="ytk_swap_%s" % t_, what="YTK cassette: replacing the %s part %s by %s: %s" % (
                                t_, base[pos].record.id, alt.record.id, "ended with %r" % (got[:2],) if got[0] != "product" else "product differs outside that part's segment"),
                                             case=dict(type=t_, old=base[pos].record.id, new=alt.record.id)))
    except Exception as ex:
        viol.append(dict(name="ytk_setup", what="canonical YTK assembly could not be set up: %r" % (ex,), case={}))
    uniq = {}
    for v_ in viol:
        uniq.setdefault(v_["name"], v_)
    return dict(evaluations=evals, distinct_nontrivial=len(distinct),
                rule="BsaI/BpiI/BsmBI chains of 1-3 generated modules: every position replaced by fresh modules of other target lengths "
                     "(2, 5, 11) with the same overhangs, random rotations and argument order, product compared with the reference "
                     "product with only that segment exchanged; canonical YTK cassette (parts 1-7 into a type 8 vector from the "
                     "embedded registry) with the same-type alternatives of the registry",
                bound="chains <= 3, 3 replacement lengths, up to 2 (11 thorough) registry alternatives per type",
                samples=samples, violations=list(uniq.values())[:20], n_violations=len(uniq))


LEVEL_TEXT = ("Deductive: the verdict conditions and the walk depend on a module only through ostart/oend (contracts of the map "
              "builder and the walk, re-verified), so a same-overhang replacement keeps the walk (lemma L1, element-wise with "
              "explicit instances) and changes the product only in that module's segment (cat is a function of the path; snoc "
              "step); a census shows the assembly reads nothing else of a module.")
LEVEL_NOTE = ("Assumed: abstract entity view, Seq equality, SeqRecord +, induction over the path for the segment decomposition. "
              "Bounded part (not proved): 3 enzymes x chains <= 3 x positions x 3 lengths; YTK registry swaps.")
