# coding: utf-8
"""C07 -- Assembly is pure: inputs are left untouched, even when it fails."""
from __future__ import annotations

import ast
import copy
import itertools
import random

from pyvc import term as tm
from pyvc.term import INT, BOOL, STR
from pyvc.solve import Obligation
from bounded import gen, assembly as ba, common as bc

ID = "C07"
LEVEL = "proof"
F = "moclo/moclo/core/_assembly.py"
R = "moclo/moclo/record.py"
FILES = [F, "moclo/moclo/core/_utils.py", R, "moclo/moclo/core/modules.py", "moclo/moclo/core/vectors.py"]
FUNCTIONS = [(F, "AssemblyManager.assemble"), (R, "CircularRecord.__getitem__"), (R, "CircularRecord.__init__"),
             ("moclo/moclo/core/_utils.py", "add_as_source"),
             # the fragment extractors run on the inputs: frame clause `wrapped-record-left-untouched`
             ("moclo/moclo/core/modules.py", "AbstractModule.target_sequence"),
             ("moclo/moclo/core/vectors.py", "AbstractVector.target_sequence")]
ASSUMES = ["D-COPY", "D-REC-SLICE", "D-REC-ADD",
           "heap abstraction: only the citation qualifiers and the reference list of the inputs are modelled as mutable "
           "cells; that no other statement of the package mutates an input is the census obligation C07.F1",
           "restoration law of the citation passes R(D(c,r),r) = c (C10) and contracts of _deref/_ref_citations assumed here",
           "inputs are distinct objects (the same module object passed twice is covered by the bounded part only)"]
TRUSTED = ["copy.deepcopy (D-COPY)", "SeqRecord slicing/concatenation create new feature objects (D-REC-SLICE/ADD)"]
EXPLANATION = ("exceptional-frame VCs of assemble(): on every exit the executor enumerates (normal, InvalidSequence, "
               "DuplicateModules, MissingModule) the citation cells and reference lists of every input equal the pre-state; "
               "fragments are fresh (slice contract: new containers); census of every mutation site of the package")

# frame specification (pyvc/frames.py): the access paths through which _assembly.py and core/_utils.py may write to
# anything that outlives a call.  Paths abstract parameters to `P`, expand local aliases, and are per file: renaming,
# temporaries, extracted or inlined helpers, reordered statements or one more annotation key do not change them.
FRAME_ASSEMBLY = {
    "P.features[*].qualifiers[K][*]",      # one entry of a citation list: _deref_citations (inputs, restored below), _ref_citations (product)
    "P[*].qualifiers[K][:]",               # _restore_citations: the saved entries back into the same list object
    "call:P.pop",                          # the overhang walk consumes the map built for this call
    "call:P.annotations.setdefault", "call:P.annotations[K].append",   # reference list of the product
    "P.id", "P.name", "P.annotations[K]",  # _annotate_assembly, on the product
}
# add_as_source: on the destination record (a fresh fragment: contract) -- whichever list operation puts the feature in
FRAME_UTILS = {"call:P.features.append", "call:P.features.insert", "call:P.features.extend", "P.features[:]"}


def obligations(ctx):
    obs = ctx.verify(FUNCTIONS)
    keep = []
    for o in obs:
        fn = o.meta.get("function", "")
        if fn == "AssemblyManager.assemble":
            if any(k in o.name for k in ("citation-qualifiers", "reference-list", "cover", "loop", "call-pre", "unlisted")):
                keep.append(o)
        else:
            keep.append(o)
    return keep + ctx.part(census) + ctx.part(lemmas)


def census(ctx):
    from pyvc import frames
    out = []
    unlisted = []
    # one frame for the two files: logic may move between the assembly manager and its helper module
    for rel, shapes in (("moclo/moclo/core/_assembly.py", FRAME_ASSEMBLY | FRAME_UTILS), ("moclo/moclo/core/_utils.py", FRAME_ASSEMBLY | FRAME_UTILS)):
        mi = ctx.repo.modules.get(rel)
        if mi is None:
            continue
        unlisted += frames.check_frame(mi, rel, shapes)
    # a store through a local whose provenance the analysis cannot tell (the value of `d.setdefault(k, [])`, an entry of a
    # journal ...) is not known to reach an input: the census cannot decide it, the before/after snapshots of the bounded part do
    unknown = [h for h in unlisted if not h.definite]
    unlisted = [h for h in unlisted if h.definite]
    if unknown:
        ctx.fun_info.append(dict(function="census C07.F1", unreached="stores through locals of unknown provenance, not decided by the census: %s" % "; ".join(unknown[:4])))
    out.append(Obligation("C07.F1 census: every escaping store of _assembly.py and core/_utils.py is within the frame", [],
                          tm.B(not unlisted), kind="F", text="stores outside the frame: %s" % unlisted,
                          meta=dict(function="census", clause="F1", detail=unlisted)))
    # entity methods must not write to anything reachable from self (the wrapped record) or from their arguments;
    # rebinding an attribute of the wrapper itself and the class-level pattern cache (C06) are not inputs
    bad = []
    for rel in ("moclo/moclo/core/modules.py", "moclo/moclo/core/vectors.py", "moclo/moclo/core/_structured.py",
                "moclo/moclo/core/parts.py"):
        mi = ctx.repo.modules.get(rel)
        if mi is None:
            continue
        bad += frames.check_frame(mi, rel, (), roots={"self", "P", "L", "?", "E", "FRESH"})
    out.append(Obligation("C07.F2 census: entity methods do not write to the wrapped record or to their arguments", [],
                          tm.B(not bad), kind="F", text="stores on inputs: %s" % bad,
                          meta=dict(function="census", clause="F2", detail=bad)))
    return out


def lemmas(ctx):
    """B: idempotence -- the frame makes a second call start from the same pre-state"""
    from contracts.assembly_c import CIT_ARR, REF_ARR, CITS, REFL
    cit0, cit1 = tm.V("cit0", CIT_ARR), tm.V("cit1", CIT_ARR)
    e = tm.V("e", INT)
    ob = Obligation("C07.L1 frame => the next call sees the same citation cells", [tm.forall([e], tm.eq(tm.select(cit1, e), tm.select(cit0, e)))],
                    tm.eq(cit1, cit0), kind="B", sorts=[CITS, REFL],
                    text="extensionality: equal cells for every input = equal heap; with C03/C01 (outcome is a function of the "
                         "pre-state) a repeated call gives the same result")
    wrong = Obligation("C07.MF1 must-fail: dereferenced cells are not the original cells",
                       [], tm.eq(tm.app("cit_deref", CITS, tm.V("c", CITS), tm.V("r", REFL)), tm.V("c", CITS)), kind="V",
                       expect="sat", sorts=[CITS, REFL], text="canned missing restore")
    return [ob, wrong]


# ---------------------------------------------------------------------------------------------- bounded
def deep_snapshot(rec):
    obs = bc.observe(rec)
    refs = rec.annotations.get("references", [])
    obs["references"] = [repr(r.title) + "|" + repr(r.authors) for r in refs]
    obs["annotations"] = repr(sorted((k, repr(v)) for k, v in rec.annotations.items() if k != "references"))
    obs["qual_types"] = [[(k, [type(x).__name__ for x in v] if isinstance(v, list) else type(v).__name__)
                          for k, v in sorted(f.qualifiers.items())] for f in rec.features]
    obs["qual_values"] = [repr(sorted((k, repr(v)) for k, v in f.qualifiers.items())) for f in rec.features]
    return obs


def build_inputs(ctx, ns, rng, with_citations):
    """BsaI vector XY-style chain of three modules + extras, with features and (optionally) citations"""
    from Bio.Seq import Seq
    from Bio.SeqFeature import SeqFeature, FeatureLocation, Reference
    from Bio.Restriction import BsaI
    core = ns["moclo.core"]
    CircularRecord = ns["moclo.record"].CircularRecord
    Mod = type("BModule", (core.Entry,), dict(cutter=BsaI))
    Vec = type("BVector", (core.EntryVector,), dict(cutter=BsaI))
    ov = ["AACC", "GGAT", "CTAA", "TGCA", "ACTA"]

    def mkrec(text, rid, inside):
        feats = [SeqFeature(FeatureLocation(inside[0], inside[1], strand=1), type="misc_feature",
                            qualifiers={"label": [rid + "-in"]}),
                 SeqFeature(FeatureLocation(0, 3, strand=-1), type="misc_feature", qualifiers={"label": [rid + "-out"]})]
        ann = {"topology": "circular", "molecule_type": "DNA"}
        if with_citations:
            r1, r2 = Reference(), Reference()
            r1.title, r1.authors = "title-%s-1" % rid, "A"
            r2.title, r2.authors = "title-%s-2" % rid, "B"
            ann["references"] = [r1, r2]
            feats[0].qualifiers["citation"] = ["[2]"]
            feats[1].qualifiers["citation"] = ["[1]", "[2]"]
        return CircularRecord(Seq(text), id=rid, name=rid, features=feats, annotations=ann)

    mods = []
    for i in range(3):
        t = ba.clean(rng, 6, BsaI)
        text = ba.build_module(BsaI, ov[i], t, ov[i + 1], rng)
        p = text.index(ov[i] + t)
        mods.append(Mod(mkrec(text, "mod%d" % i, (p + 1, p + 5))))
    stray = Mod(mkrec(ba.build_module(BsaI, ov[4], "ACGTAC", ov[0], rng), "stray", (8, 11)))
    dup = Mod(mkrec(ba.build_module(BsaI, ov[0], "TTTAAA", ov[2], rng), "dup", (8, 11)))
    vtext, vfrag = ba.build_vector(BsaI, ov[3], ov[0], rng)
    p = vtext.index(ov[3])
    vec = Vec(mkrec(vtext, "vec", (p + 1, p + 6)))
    badvec_text, _ = ba.build_vector(BsaI, ov[0], ov[0], rng)
    badvec = Vec(mkrec(badvec_text, "badvec", (1, 3)))
    invalid = Mod(mkrec("ACGTACGTACGTACGT", "invalid", (1, 3)))
    return vec, badvec, mods, stray, dup, invalid


def bounded(ctx):
    from pyvc import native
    ns = native.load(ctx.repo_root)
    errors = ns["moclo.errors"]
    viol, samples = [], []
    evals = 0
    distinct = set()
    for with_cit in (False, True):
        rng = random.Random(ctx.seed + (1 if with_cit else 0))
        vec, badvec, mods, stray, dup, invalid = build_inputs(ctx, ns, rng, with_cit)
        scenarios = {
            "complete": (vec, mods),
            "complete-reordered": (vec, [mods[2], mods[0], mods[1]]),
            "unused": (vec, mods + [stray]),
            "missing-after-0": (vec, mods[1:]),
            "missing-after-1": (vec, [mods[0], mods[2]]),
            "missing-after-2": (vec, mods[:2]),
            "duplicate": (vec, mods + [dup]),
            "invalid-vector": (badvec, mods),
            "invalid-module": (vec, mods[:2] + [invalid]),
            "same-object-twice": (vec, mods + [mods[1]]),
        }
        for name, (v, ms) in scenarios.items():
            inputs = [v] + list(dict((id(m), m) for m in ms).values())
            before = [deep_snapshot(x.record) for x in inputs]
            results = []
            for call in range(3):
                evals += 1
                got, prod, w = ba.run_assembly(v, ms, id="prod", name="prod")
                results.append((got[0], str(prod.seq) if prod is not None else None, got[1:] if got[0] != "product" else None,
                                sorted((f.type, str(f.location), repr(sorted(f.qualifiers.items()))) for f in prod.features) if prod is not None else None))
                after = [deep_snapshot(x.record) for x in inputs]
                for x, b, a in zip(inputs, before, after):
                    if a != b:
                        diff = [k for k in b if a.get(k) != b[k]]
                        viol.append(dict(name="frame_%s_%s" % (name, "cit" if with_cit else "plain"),
                                         what="scenario %s (%s citations), call %d ending with %r: input %s changed in %s: %r -> %r" % (
                                             name, "with" if with_cit else "without", call + 1, got[:2], x.record.id, diff,
                                             str(b[diff[0]])[:160], str(a[diff[0]])[:160]),
                                         case=dict(scenario=name, citations=with_cit, call=call + 1)))
                        break
                if got[0] == "internal-error" and name != "same-object-twice":
                    viol.append(dict(name="internal_%s_%s" % (name, "cit" if with_cit else "plain"),
                                     what="scenario %s (%s citations): %r" % (name, "with" if with_cit else "without", got),
                                     case=dict(scenario=name, citations=with_cit)))
            distinct.add((name, with_cit))
            if len(set(map(repr, results))) != 1:
                viol.append(dict(name="repeat_%s_%s" % (name, "cit" if with_cit else "plain"),
                                 what="scenario %s: repeated identical calls gave different results %r" % (name, [r[0] for r in results]),
                                 case=dict(scenario=name, citations=with_cit)))
            if len(samples) < 3:
                samples.append(dict(scenario=name, citations=with_cit, outcome=results[0][0]))
        # every rotation of the vector plasmid and of the first module plasmid (the origin on a cut, inside a site ...):
        # complete assembly and a missing module, inputs compared before/after; fresh inputs for every rotation
        for which in ("vector", "module"):
            base_v, _bv, base_m, _s, _d, _i = build_inputs(ctx, ns, random.Random(ctx.seed + 7), with_cit)
            nrot = len((base_v if which == "vector" else base_m[0]).record.seq)
            step = 1 if ctx.tier != "quick" else 1
            for k in range(0, nrot, step):
                v2, _bv, m2, _s, _d, _i = build_inputs(ctx, ns, random.Random(ctx.seed + 7), with_cit)
                if which == "vector":
                    v2 = type(v2)(v2.record >> k)
                else:
                    m2 = [type(m2[0])(m2[0].record >> k)] + m2[1:]
                for sc, ms in (("complete", m2), ("missing", m2[:1] + m2[2:])):
                    inputs = [v2] + ms
                    before = [deep_snapshot(x.record) for x in inputs]
                    evals += 1
                    got, prod, w = ba.run_assembly(v2, ms)
                    after = [deep_snapshot(x.record) for x in inputs]
                    distinct.add(("rot", which, k, sc, with_cit))
                    for x, b, a in zip(inputs, before, after):
                        if a != b:
                            diff = [kk for kk in b if a.get(kk) != b[kk]]
                            viol.append(dict(name="rotation_%s_%s_%s" % (which, sc, "cit" if with_cit else "plain"),
                                             what="%s plasmid rotated by %d, scenario %s (%s citations), ending with %r: input %s changed in %s" % (
                                                 which, k, sc, "with" if with_cit else "without", got[:2], x.record.id, diff),
                                             case=dict(rotated=which, k=k, scenario=sc, citations=with_cit)))
                            break
        # a malformed or dangling citation somewhere in the inputs: the call fails inside the dereferencing pass (an
        # exception that is not a MoClo error); the inputs must come back as they were all the same
        if with_cit:
            for (label, v2, m2) in bad_citation_cases(ctx, ns):
                evals += 1
                got, changed, _b, _a = run_and_compare(v2, m2)
                distinct.add(("badcit", label))
                if changed:
                    viol.append(dict(name="bad_citation", what="%s: the call ended with %r and left input(s) changed: %r" % (label, got[:3], changed),
                                     case=dict(scenario=label)))
        # failure injected into the j-th fragment extraction
        for j in range(3):
            evals += 1
            target = mods[j]
            orig = type(target).target_sequence
            state = {"n": 0}

            def boom(self, _orig=orig, _t=target):
                if self is _t:
                    raise RuntimeError("injected failure")
                return _orig(self)

            inputs = [vec] + mods
            before = [deep_snapshot(x.record) for x in inputs]
            type(target).target_sequence = boom
            try:
                got, prod, w = ba.run_assembly(vec, mods)
            finally:
                type(target).target_sequence = orig
            after = [deep_snapshot(x.record) for x in inputs]
            distinct.add(("inject", j, with_cit))
            for x, b, a in zip(inputs, before, after):
                if a != b:
                    diff = [k for k in b if a.get(k) != b[k]]
                    viol.append(dict(name="inject_%d_%s" % (j, "cit" if with_cit else "plain"),
                                     what="exception injected into the extraction of module %d (%s citations): input %s changed in %s" % (
                                         j, "with" if with_cit else "without", x.record.id, diff),
                                     case=dict(inject=j, citations=with_cit)))
                    break
            # retry after the failure gives the same result as the very first complete call
            got2, prod2, w2 = ba.run_assembly(vec, mods)
            if got2[0] != "product":
                viol.append(dict(name="retry_%d_%s" % (j, "cit" if with_cit else "plain"),
                                 what="retry after an injected failure at module %d ends with %r" % (j, got2),
                                 case=dict(inject=j, citations=with_cit)))
    # the shared scenarios: this property's oracle over the cross product of the unusual input dimensions
    from bounded import scenarios as sn
    n_sw, d_sw, v_sw = sn.sweep(ctx, ns, 'frame')
    evals += n_sw
    distinct |= {("shared",) + tuple(map(str, k_)) for k_ in d_sw}
    viol.extend(v_sw)
    uniq = {}
    for v in viol:
        uniq.setdefault(v["name"], v)
    return dict(evaluations=evals, distinct_nontrivial=len(distinct),
                rule="" + sn.SWEEP_RULE + "; a malformed or dangling citation in each element in turn; every rotation of the vector plasmid and of the first module plasmid x {complete, missing module}; BsaI vector + chain of 3 annotated modules, with and without literature citations: 10 scenarios (complete, "
                     "reordered, unused module, missing module after 0/1/2 consumed, duplicate, invalid vector, invalid module, same "
                     "object twice) x 3 consecutive calls, plus an exception injected into the j-th fragment extraction (j=0..2) and a "
                     "retry; deep snapshot (sequence, ids, features by denoted nucleotides, qualifier values and value types, "
                     "annotations, reference list, letter annotations) of every input compared before/after each call",
                bound="one chain of 3 modules, 2 references per record, 3 calls", samples=samples,
                violations=list(uniq.values())[:20], n_violations=len(uniq))


def bad_citation_cases(ctx, ns):
    """inputs carrying /citation qualifiers of which one, in a late feature of a late element, is malformed
    ('Doe2020') or dangling ('[9]' with two references): the assembly fails inside the dereferencing pass"""
    out = []
    for bad in ("Doe2020", "[9]", "[0]x", ""):
        for where in (0, 1, 2, 3):      # which element carries it: module 0..2 or the vector
            vec, badvec, mods, stray, dup, invalid = build_inputs(ctx, ns, random.Random(ctx.seed + 11), True)
            elems = mods + [vec]
            elems[where].record.features[-1].qualifiers["citation"] = ["[1]", bad]
            out.append(("bad-citation %r in element %d" % (bad, where), vec, mods))
    return out


def run_and_compare(vec, mods):
    inputs = [vec] + mods
    before = [deep_snapshot(x.record) for x in inputs]
    got, prod, w = ba.run_assembly(vec, mods)
    after = [deep_snapshot(x.record) for x in inputs]
    changed = [(x.record.id, [k for k in b if a.get(k) != b[k]]) for x, b, a in zip(inputs, before, after) if a != b]
    return got, changed, before, after


def replay(ctx, ob, model):
    """the frame clause of assemble() on an exceptional exit: natively, a missing module with cited inputs, and inputs
    with a malformed / dangling citation (the exits through the dereferencing pass)"""
    from pyvc import native
    if ob.meta.get("function") != "AssemblyManager.assemble" or "exc-frame" not in ob.name:
        return None, "no replay harness for this obligation"
    ns = native.load(ctx.repo_root)
    rng = random.Random(1)
    vec, badvec, mods, stray, dup, invalid = build_inputs(ctx, ns, rng, True)
    inputs = [vec] + mods[:2]
    before = [deep_snapshot(x.record) for x in inputs]
    got, prod, w = ba.run_assembly(vec, mods[:2])
    after = [deep_snapshot(x.record) for x in inputs]
    changed = [x.record.id for x, b, a in zip(inputs, before, after) if a != b]
    if not changed:
        for (label, v2, m2) in bad_citation_cases(ctx, ns):
            got2, ch2, b2, a2 = run_and_compare(v2, m2)
            if ch2:
                return True, dict(call="vector.assemble(mod0, mod1, mod2), %s" % label, outcome=list(got2[:3]), inputs_changed=ch2)
    return bool(changed), dict(call="vector.assemble(mod0, mod1) with mod2 missing, inputs carrying /citation qualifiers",
                               outcome=list(got[:2]), inputs_changed=changed,
                               example_before=before[1]["qual_values"], example_after=after[1]["qual_values"])


LEVEL_TEXT = ("Deductive: assemble() is executed symbolically with every exit enumerated; on each of them the modelled heap "
              "cells of every input (citation qualifiers, reference list) must equal the pre-state; fragments are shown fresh "
              "by the slice/constructor contracts; a census obligation pins every mutation site of the assembly code.")
LEVEL_NOTE = ("Assumed: heap abstraction (only the listed cells are mutable), deepcopy, restoration law of the citation passes "
              "(C10), distinct input objects. Bounded part (not proved): deep snapshots around 10 scenarios x 3 calls with/without "
              "citations, plus injected exceptions at each extraction.")
