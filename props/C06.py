# coding: utf-8
"""C06 -- Typing verdicts do not depend on what was typed before."""
from __future__ import annotations

import ast
import json
import os
import subprocess
import sys
from concurrent.futures import ThreadPoolExecutor

from pyvc import term as tm
from pyvc.term import INT, BOOL, STR
from pyvc.solve import Obligation
from pyvc.models import re_at

ID = "C06"
LEVEL = "proof"
F = "moclo/moclo/core/_structured.py"
FILES = [F]
FUNCTIONS = [(F, "StructuredRecord._get_regex"), (F, "StructuredRecord._match"), (F, "StructuredRecord.is_valid"),
             (F, "StructuredRecord.__init__")]
ASSUMES = ["D-CACHE", "D-RE",
           "MRO model of class attribute lookup: a read of cls._regex returns the own entry if present, else the "
           "entry of the nearest ancestor that has one (StructuredRecord always has one)"]
TRUSTED = ["property_cached.cached_property (D-CACHE)", "Python attribute lookup on classes (MRO model)"]
EXPLANATION = ("history quantifier discharged by a ghost invariant on the class-level pattern cache: INV_cache holds "
               "initially (census), is preserved by the only writer (_get_regex body VC + census of stores), and gives "
               "every reader the pattern of the class it asked for; _match/is_valid are then functions of (class, record)")


def obligations(ctx):
    return ctx.verify(FUNCTIONS) + ctx.part(census) + ctx.part(lemmas)


def census(ctx):
    """F: syntactic obligations over every in-repo package file"""
    out = []
    writers, definers, impure = [], [], []
    for rel, mi in sorted(ctx.repo.modules.items()):
        for node in ast.walk(mi.tree):
            if isinstance(node, (ast.Assign, ast.AugAssign, ast.AnnAssign)):
                targets = node.targets if isinstance(node, ast.Assign) else [node.target]
                for t in targets:
                    if isinstance(t, ast.Attribute) and t.attr == "_regex":
                        writers.append("%s:%d" % (rel, node.lineno))
            if isinstance(node, ast.Call) and isinstance(node.func, ast.Name) and node.func.id == "setattr":
                if len(node.args) >= 2 and isinstance(node.args[1], ast.Constant) and node.args[1].value == "_regex":
                    writers.append("%s:%d" % (rel, node.lineno))
        for cname, ci in mi.classes.items():
            if "_regex" in ci.attrs:
                v = ci.attrs["_regex"]
                definers.append((rel, cname, isinstance(v, ast.Constant) and v.value is None))
            st = ci.methods.get("structure")
            if st is not None:
                # structure() may read only class constants: no self, no globals that are assigned anywhere, no I/O
                for n in ast.walk(st):
                    if isinstance(n, ast.Name) and n.id == "self":
                        impure.append("%s::%s.structure reads self" % (rel, cname))
                    if isinstance(n, (ast.Global, ast.Nonlocal)):
                        impure.append("%s::%s.structure declares global state" % (rel, cname))
                    if isinstance(n, ast.Attribute) and n.attr in ("_regex", "record", "seq") and not (
                            isinstance(n.value, ast.Name) and n.value.id == "Bio"):
                        if n.attr != "seq" or not isinstance(n.value, ast.Attribute):
                            impure.append("%s::%s.structure reads .%s" % (rel, cname, n.attr))
    try:
        node, _ = ctx.repo.function(F, "StructuredRecord._get_regex")
        lo, hi = node.lineno, node.end_lineno
    except KeyError:
        lo = hi = -1
    outside = [w for w in writers if not (w.startswith(F + ":") and lo <= int(w.split(":")[1]) <= hi)]
    out.append(Obligation("C06.F1 the only store to `_regex` is the one in _get_regex", [], tm.B(not outside), kind="F",
                          text="stores found: %s" % writers, meta=dict(function="census", clause="F1", detail=outside)))
    ok_def = [d for d in definers if d[1] == "StructuredRecord" and d[2]]
    bad_def = [d for d in definers if not (d[1] == "StructuredRecord" and d[2])]
    out.append(Obligation("C06.F2 initial state: only StructuredRecord defines `_regex`, as None", [],
                          # (a tree that keeps no `_regex` attribute at all -- nothing defines it, nothing stores to it -- has no such
                          #  cache to initialise; whatever it keeps instead is the business of F4)
                          tm.B((len(ok_def) == 1 and not bad_def) or (not definers and not writers)), kind="F", text="class-level definitions: %s" % definers,
                          meta=dict(function="census", clause="F2", detail=[list(d) for d in bad_def])))
    # F4: the typing path keeps no other state between calls (props/_shared.py)
    from props._shared import typing_state_census
    out.append(typing_state_census(ctx, "C06", "F4"))
    out.append(Obligation("C06.F3 structure() reads class constants only", [], tm.B(not impure), kind="F",
                          text="impure reads: %s" % impure, meta=dict(function="census", clause="F3", detail=impure)))
    return out


def lemmas(ctx):
    """B: the postcondition of _match determines the match: two results for the same (class, record) agree"""
    pat, d = tm.V("pat", STR), tm.V("d", STR)
    n, s1, s2, j = tm.V("n", INT), tm.V("start1", INT), tm.V("start2", INT), tm.V("j", INT)

    def post(s):
        return [tm.le(0, s), tm.lt(s, n), re_at(pat, d, s, n), tm.forall_range(j, 0, s, tm.not_(re_at(pat, d, j, n)))]

    out = [Obligation("C06.L1 the match is a function of (class, record): leftmost start is unique", post(s1) + post(s2),
                      tm.eq(s1, s2), kind="B", text="two results satisfying _match's postcondition have the same start, "
                                                     "hence the same window and (RE2) the same group spans")]
    # must-fail: the inherited-cache body (return the value found through the MRO) breaks the contract
    has = tm.V("has", "(Array Int Bool)")
    c, o = tm.V("c", INT), tm.V("o", INT)
    out.append(Obligation("C06.MF1 must-fail: a pattern found through the MRO need not be the asked class's",
                          [tm.not_(tm.select(has, c)), tm.select(has, o), tm.ne(o, c)],
                          tm.eq(tm.app("structure", STR, o), tm.app("structure", STR, c)), kind="V", expect="sat",
                          text="canned wrong reasoning"))
    return out


# ---------------------------------------------------------------------------------------------- replay
def replay(ctx, ob, model):
    """instantiate the counter-model on real classes: an ancestor whose pattern is cached, then the subclass"""
    if ob.meta.get("function") != "StructuredRecord._get_regex":
        return None, "no replay harness"
    code = r'''
import sys, json
sys.path.insert(0, %r)
from pyvc import native
ns = native.load(%r)
from Bio.Restriction import BsaI
core = ns["moclo.core"]
class Parent(core.Entry):
    cutter = BsaI
class Child(Parent):
    @classmethod
    def structure(cls):
        return "GGTCTCN(ATGC)(NN*N)(TTAA)NGAGACC"
out = {}
out["parent_pattern"] = Parent._get_regex().pattern          # history: the ancestor is asked first
out["child_pattern_after_parent"] = Child._get_regex().pattern
out["child_structure"] = Child.structure()
print(json.dumps(out))
''' % (os.path.dirname(os.path.dirname(os.path.abspath(__file__))), ctx.repo_root)
    r = subprocess.run([sys.executable, "-c", code], stdout=subprocess.PIPE, stderr=subprocess.PIPE, universal_newlines=True,
                       env=dict(os.environ, PYTHONDONTWRITEBYTECODE="1"))
    try:
        out = json.loads(r.stdout.strip().splitlines()[-1])
    except Exception:
        return None, "replay process failed: %s" % r.stderr[-400:]
    bad = out["child_pattern_after_parent"] != out["child_structure"]
    return bad, dict(history="Parent._get_regex(); Child._get_regex()", expected=out["child_structure"],
                     observed=out["child_pattern_after_parent"], model=model)


# ---------------------------------------------------------------------------------------------- bounded
WORKER = r'''
import sys, json, random
sys.path.insert(0, %(verif)r)
from pyvc import native
from bounded import gen
kits = native.kits(%(repo)r)
classes = gen.concrete_classes(kits)
from Bio.Seq import Seq
from moclo.record import CircularRecord
names = [c.__module__.split(".")[-1] + "." + c.__name__ for c in classes]
records = json.loads(%(records)r)
shared, alive = {}, []
def answers(cls):
    # the primed histories ask about the records in the opposite order: an answer must not depend on which records
    # the same class was asked about before either.  They also hand ONE record object per plasmid to all the classes
    # and keep every wrapper alive until the end (state keyed by the identity or equality of records / wrappers)
    out = []
    for s in (records if %(mode)r == "fresh" else records[::-1]):
        if %(mode)r == "fresh":
            e = cls(CircularRecord(Seq(s), id="r"))
        else:
            if s not in shared:
                shared[s] = CircularRecord(Seq(s), id="r")
            e = cls(shared[s])
            alive.append(e)
        try:
            v = e.is_valid()
        except Exception as ex:
            out.append(["raised", repr(ex)]); continue
        if v:
            try:
                t_ = e.target_sequence()
                out.append([True, str(e.overhang_start()), str(e.overhang_end()), str(t_.seq),
                            sorted((f.type, str(f.location)) for f in t_.features), len(e.record.features)])
            except Exception as ex:
                out.append([True, "raised", repr(ex)])
        else:
            out.append([False])
    return out if %(mode)r == "fresh" else out[::-1]
mode = %(mode)r
res = {}
if mode == "fresh":
    idx = %(index)d
    res[names[idx]] = answers(classes[idx])
else:
    idx = %(index)d
    order = list(range(len(classes)))
    if idx < 0:
        order.reverse()                          # history: all classes in reverse order
    else:
        answers(classes[idx])                    # history: class X first, then every other class in order
        order.remove(idx)
    for j in order:
        res[names[j]] = answers(classes[j])
print(json.dumps(res))
'''


def _run_worker(ctx, mode, index, records):
    verif = os.path.dirname(os.path.dirname(os.path.abspath(__file__)))
    code = WORKER % dict(verif=verif, repo=ctx.repo_root, records=json.dumps(records), mode=mode, index=index)
    r = subprocess.run([sys.executable, "-W", "ignore", "-c", code], stdout=subprocess.PIPE, stderr=subprocess.PIPE,
                       universal_newlines=True, env=dict(os.environ, PYTHONDONTWRITEBYTECODE="1"))
    try:
        return json.loads(r.stdout.strip().splitlines()[-1])
    except Exception:
        raise RuntimeError("worker %s %d failed: %s" % (mode, index, r.stderr[-600:]))


def shared_objects(ctx, rng):
    import itertools
    from pyvc import native
    from bounded import gen, entities as be
    from Bio.Seq import Seq
    from Bio.SeqRecord import SeqRecord
    from Bio.Restriction import BsaI, BpiI
    ns = native.load(ctx.repo_root)
    core = ns["moclo.core"]
    CircularRecord = ns["moclo.record"].CircularRecord
    viol = []
    n = 0

    def mk(kind, seq):
        if kind == "circular":
            return CircularRecord(seq, id="p")
        if kind == "linear":
            return SeqRecord(seq, id="p", annotations={"topology": "linear"})
        return SeqRecord(seq, id="p")

    for cutter in (BsaI, BpiI):
        for base in (core.Entry, core.EntryVector):
            classes = [type("G1", (base,), dict(cutter=cutter)), type("G2", (base,), dict(cutter=cutter))]
            if base is core.Entry:
                # the other module families of the core (Product, Cassette, Device): same structure, other class
                classes += [type("G" + b_.__name__, (b_,), dict(cutter=cutter)) for b_ in (core.Product, core.Cassette, core.Device)
                            if isinstance(b_, type)]
            inst, _ = gen.instance(classes[0].structure(), rng, run=7)
            site = cutter.site
            # origin inside the leading recognition site / inside the match / outside it
            texts = [inst, inst[2:] + inst[:2], inst[-3:] + inst[:-3], inst[len(inst) // 2:] + inst[:len(inst) // 2]]
            for text in texts:
                kinds = ("circular", "linear", "none")
                for order in itertools.permutations(kinds):
                    seq = Seq(text)
                    objs = {k: mk(k, seq) for k in kinds}
                    # all the shared queries first (nothing unshared in between), then the unshared reference answers
                    asked = [(k, cls, be.observe_entity(cls(objs[k]))) for k in order for cls in classes]
                    for (k, cls, got) in asked:
                            n += 1
                            want = be.observe_entity(cls(mk(k, Seq(text))))
                            if got != want:
                                viol.append(dict(
                                    name="shared_seq_%s_%s" % (base.__name__, k),
                                    what="records sharing one Seq object (asked in the order %s, each by two classes): %s(%s record) "
                                         "answers %r, for an unshared copy %r" % ("/".join(order), base.__name__, k, got, want),
                                    case=dict(text=text, order=list(order), cutter=cutter.__name__), expected=want, observed=got))
                                break
    uniq = {}
    for v in viol:
        uniq.setdefault(v["name"], v)
    return n, list(uniq.values())


def bounded(ctx):
    import random
    from pyvc import native
    from bounded import gen
    kits = native.kits(ctx.repo_root)
    classes = gen.concrete_classes(kits)
    names = [c.__module__.split(".")[-1] + "." + c.__name__ for c in classes]
    rng = random.Random(ctx.seed)
    structures = sorted({c.structure() for c in classes})
    records = []
    per = 1 if ctx.tier == "quick" else 2
    for s in structures:
        for _ in range(per):
            inst, _ = gen.instance(s, rng, run=rng.randint(4, 9))
            k = rng.randrange(len(inst))
            records.append(inst[k:] + inst[:k] if rng.random() < 0.5 else inst)
        # the origin exactly at the start of the first overhang (a left rotation by that offset is the identity rotation of
        # the rotated plasmid: whatever typing leaves behind on the record shows in the next answer)
        inst, spans = gen.instance(s, rng, run=rng.randint(4, 9))
        if 1 in spans:
            records.append(inst[spans[1][0]:] + inst[:spans[1][0]])
    # records on which a structure matches at more than one start (two units of the same structure in one plasmid, at
    # a random rotation): the answer is the leftmost match, whatever was matched before
    for s in structures[:: max(1, len(structures) // 8)]:
        a, _ = gen.instance(s, rng, run=rng.randint(4, 7))
        b, _ = gen.instance(s, rng, run=rng.randint(4, 7))
        two = a + "ACGTAC" + b + "TTGACA"
        # ... asked about right after (and, in the reversed histories, right before) a plasmid of the same structure whose
        # match starts between the two possible starts of `two` (0 and len(a) + 6)
        c, _ = gen.instance(s, rng, run=rng.randint(4, 7))
        c = c + "ACCA"
        r_ = max(1, min(len(c) - 1, (len(a) + 6) // 2))
        mid = c[-r_:] + c[:-r_]
        records.extend([mid, two, mid])
        k = rng.randrange(len(two))
        records.append(two[k:] + two[:k])
    viol, samples = [], []
    with ThreadPoolExecutor(max_workers=14) as pool:
        fresh_parts = list(pool.map(lambda i: _run_worker(ctx, "fresh", i, records), range(len(classes))))
        fresh = {}
        for p in fresh_parts:
            fresh.update(p)
        primes = list(range(len(classes))) + [-1]
        primed = list(pool.map(lambda i: (i, _run_worker(ctx, "primed", i, records)), primes))
    evals = 0
    distinct = set()
    for (i, res) in primed:
        for name, ans in res.items():
            for ri, (a, b) in enumerate(zip(ans, fresh[name])):
                evals += 1
                if b and b[0] is True:
                    distinct.add((name, ri))
                if a != b and len(viol) < 200:
                    hist = "all classes in reverse order" if i < 0 else "%s first, then the other classes in order" % names[i]
                    viol.append(dict(name="history_%s_query_%s" % ("reverse" if i < 0 else names[i], name),
                                     what="in the history (%s), %s on record %r answers %r; in a fresh interpreter %r" % (
                                         hist, name, records[ri][:60], a, b),
                                     case=dict(history=hist, query=name, record=records[ri]), expected=b, observed=a))
    if primed:
        samples.append(dict(history="%s first" % names[0], query=names[1], record=records[0][:40],
                            answer=primed[0][1][names[1]][0]))
    # dynamically created subclasses: parent first, then child with its own structure
    ok, detail = replay(ctx, type("O", (), dict(meta=dict(function="StructuredRecord._get_regex")))(), {})
    evals += 1
    if ok:
        viol.append(dict(name="dynamic_subclass", what="a subclass created at run time gets its parent's cached pattern: %r" % (detail,),
                         case=detail))
    # objects shared between queries: one Seq object wrapped by a plasmid, by a record declared linear and by a record
    # without topology; one record object typed by several classes; every order of asking.  Each answer is compared
    # with the answer for freshly built, unshared copies (state keyed by object identity shows up here)
    n_sh, v_sh = shared_objects(ctx, rng)
    evals += n_sh
    viol.extend(v_sh)
    viol.sort(key=lambda v: v["name"])
    return dict(evaluations=evals, distinct_nontrivial=len(distinct),
                rule="histories over the %d concrete kit classes: for every class X a fresh interpreter validating X first and "
                     "then every other class in declaration order, plus one history in reverse order, so that every ordered "
                     "pair (A before B) occurs in some history; every answer (verdict, overhangs, target) compared with "
                     "the same query issued first in its own fresh interpreter (the histories share one record object per plasmid between all classes and keep every wrapper alive); "
                     "records = %d seeded instances of the %d distinct structures (random rotation) and plasmids holding two units of a "
                     "structure (several possible match starts); plus a subclass "
                     "created at run time.  non-trivial = (class, record) accepted in the fresh interpreter" % (
                         len(classes), len(records), len(structures)),
                bound="86 histories of length 85 covering all ordered class pairs; %d records" % len(records),
                samples=samples, violations=viol[:20], n_violations=len(viol))


LEVEL_TEXT = ("Deductive: `for all call histories` is reduced to the ghost invariant INV_cache on the class-level `_regex` "
              "cache (own entries belong to their class); the body of _get_regex is checked, with an explicit MRO-lookup "
              "model, to return the asked class's pattern and to preserve the invariant; a census shows nothing else "
              "writes the cache and that structure() reads class constants only; _match/is_valid are then shown to be "
              "functions of (class, record).")
LEVEL_NOTE = ("Assumed: the MRO model of class-attribute reads/writes, cached_property (D-CACHE), re (D-RE). Bounded part "
              "(not proved): all ordered pairs over the 85 kit classes with histories of length 2, fresh interpreter per prime.")
