# coding: utf-8
"""C10 -- Literature citations survive assembly with consistent numbering."""
from __future__ import annotations

import copy
import random

from pyvc import term as tm
from pyvc.term import INT, BOOL, STR
from pyvc.solve import Obligation
from bounded import assembly as ba

ID = "C10"
LEVEL = "proof"
F = "moclo/moclo/core/_assembly.py"
FILES = [F]
FUNCTIONS = [(F, "AssemblyManager._deref_citations"), (F, "AssemblyManager._ref_citations"),
             (F, "AssemblyManager._save_citations"), (F, "AssemblyManager._restore_citations"),
             (F, "AssemblyManager.assemble")]
ASSUMES = ["D-RE-CIT: the citation pattern matches exactly the texts '[' digits ']' (prefix match) and group 1 is the digits",
           "D-COPY", "D-REC-SLICE", "D-REC-ADD",
           "pointwise model (_deref/_save/_restore): a record's citation qualifiers are represented by one generic entry of one generic feature",
           "indexed model (_ref_citations): features = sequence of distinct identities, cite(f,i) = reference cited by entry i; "
           "Reference == Reference is equality of the abstract reference identity",
           "the abstract citation cells (CIT/REFS transformed by D/R/RR) used at the call sites in assemble() stand for the "
           "pointwise/indexed contracts of the passes: linked by reading, not by proof",
           "D-LIST: list.index returns the least position / ValueError, append adds at the end, `in` is membership"]
TRUSTED = ["CPython re on the citation pattern", "Bio.SeqFeature.Reference equality"]
EXPLANATION = ("body VCs of _deref_citations / _save_citations / _restore_citations on the generic citation entry, of "
               "_ref_citations with invariants for both loops (bracketed 1-based index of the cited reference, listed references "
               "kept in place, none twice, every added one cited) and the composition in assemble(); lemmas L0, L3")


def obligations(ctx):
    obs = ctx.verify(FUNCTIONS)
    keep = [o for o in obs if o.meta.get("function") != "AssemblyManager.assemble"
            or any(k in o.name for k in ("citation", "reference-list", "cover"))]
    return keep + ctx.part(lemmas) + ctx.part(pattern_table)


def pattern_table(ctx):
    """C: the assumed contract of the citation pattern (D-RE-CIT: `[` digits `]` is matched and group 1 is *all* the
    digits) is enumerated against the real compiled pattern object of the tree: every index 1..1200 and a few larger
    ones must come back as itself (a finite table, complete for the reference lists GenBank files carry)"""
    from pyvc import native
    ns = native.load(ctx.repo_root)
    core = ns["moclo.core"]
    rx = getattr(core._assembly.AssemblyManager, "_CITATION_RX", None)
    bad = []
    if rx is None:
        bad.append("AssemblyManager._CITATION_RX is gone (the contract of _deref_citations names it)")
    else:
        for q in list(range(1, 1201)) + [4095, 12345, 100000]:
            m = rx.match("[%d]" % q)
            try:
                got = int(m.group(1)) if m is not None else None
            except Exception as e:
                got = repr(e)
            if got != q:
                bad.append("'[%d]' is read as index %r" % (q, got))
                if len(bad) > 5:
                    break
    return [Obligation("C10.C1 the citation pattern reads every bracketed index as itself", [], tm.B(not bad), kind="C",
                       text="; ".join(bad) or "1..1200, 4095, 12345, 100000", meta=dict(function="_CITATION_RX",
                                                                                         clause="citation-pattern-table", detail=bad))]


def lemmas(ctx):
    """B over the pointwise contracts: index q (1-based) -> references[q-1] -> '[' + str(position+1) + ']'"""
    out = []
    q, n = tm.V("q", INT), tm.V("n", INT)
    # L3 (textual restoration needs distinct references; this is why inputs are restored from a saved copy, not
    # re-indexed): with pairwise distinct references the first position of references[q-1] is q-1
    refs = tm.V("refs", tm.seq_sort(INT))
    i, j = tm.V("i", INT), tm.V("j", INT)
    distinct = tm.forall([i, j], tm.implies(tm.and_(tm.le(0, i), tm.lt(i, j), tm.lt(j, tm.seqlen(refs))),
                                            tm.ne(tm.seqnth(refs, i), tm.seqnth(refs, j))))
    first = tm.V("first", INT)
    is_first = tm.and_(tm.le(0, first), tm.lt(first, tm.seqlen(refs)), tm.eq(tm.seqnth(refs, first), tm.seqnth(refs, tm.sub(q, 1))),
                       tm.forall_range(i, 0, first, tm.ne(tm.seqnth(refs, i), tm.seqnth(refs, tm.sub(q, 1)))))
    out.append(Obligation("C10.L3 re-indexing gives back the original index when references are pairwise distinct",
                          [tm.le(1, q), tm.le(q, tm.seqlen(refs)), distinct, is_first], tm.eq(tm.add(first, 1), q), kind="B",
                          text="index(refs, refs[q-1]) + 1 = q"))
    out.append(Obligation("C10.MF1 must-fail: with equal references re-indexing does not give back the original index",
                          [tm.le(1, q), tm.le(q, tm.seqlen(refs)), is_first], tm.eq(tm.add(first, 1), q), kind="V", expect="sat",
                          text="why inputs must be restored textually rather than re-indexed"))
    # bracketed form round trip: int('[' + str(q) + ']'[1:-1]) = q
    out.append(Obligation("C10.L0 bracketed index form round-trips", [tm.le(0, q)],
                          tm.eq(tm.T("str.to_int", (tm.str_of_int(q),), INT), q), kind="B", text="int(str(q)) = q for q >= 0"))
    return out


# ---------------------------------------------------------------------------------------------- bounded
REF_FIELDS = ("title", "journal", "comment", "pubmed_id", "authors", "medline_id", "consrtm", "location")


def refkey(r):
    """identity of a reference for the oracle: all the fields Bio.SeqFeature.Reference.__eq__ compares"""
    return "|".join(repr(getattr(r, f, None)) for f in REF_FIELDS)


def build(ctx, ns, rng, nrefs, shared, dup_refs):
    from Bio.Seq import Seq
    from Bio.SeqFeature import SeqFeature, FeatureLocation, Reference
    from Bio.Restriction import BsaI
    core = ns["moclo.core"]
    CircularRecord = ns["moclo.record"].CircularRecord
    Mod = type("BModule", (core.Entry,), dict(cutter=BsaI))
    Vec = type("BVector", (core.EntryVector,), dict(cutter=BsaI))
    ov = ["AACC", "GGAT", "CTAA"]

    def ref(title):
        # two references are the same exactly when *every* field agrees (Reference.__eq__): a reference is told apart
        # from the others by one field only, the field changing from reference to reference (title, journal -- as in
        # GenBank `Direct Submission` entries --, comment, pubmed id, authors ...), all other fields being common
        r = Reference()
        r.title, r.authors, r.journal = "Direct Submission", "Doe J.", "J. Irreproducible Results"
        if title == "shared reference":
            r.title = title
            return r
        field = REF_FIELDS[sum(map(ord, title)) % len(REF_FIELDS)]
        if field == "location":
            r.location = [FeatureLocation(0, 1 + sum(map(ord, title)) % 7)]
            r.comment = title   # (locations alone could collide)
        else:
            setattr(r, field, title)
        return r

    common = ref("shared reference")

    def mkrec(text, rid, inside, outside):
        refs = [ref("%s-ref%d" % (rid, x)) for x in range(nrefs)]
        if shared and refs:
            refs[0] = ref("shared reference")
        if dup_refs and len(refs) >= 2:
            refs[1] = copy.deepcopy(refs[0])      # two equal entries in one reference list
        feats = []
        cites = []
        if nrefs >= 1:
            cites = ["[%d]" % nrefs]
        f_in = SeqFeature(FeatureLocation(inside[0], inside[1], strand=1), type="misc_feature", qualifiers={"label": [rid + "-in"]})
        f_in2 = SeqFeature(FeatureLocation(inside[0], inside[0] + 2, strand=-1), type="misc_feature", qualifiers={"label": [rid + "-in2"]})
        f_out = SeqFeature(FeatureLocation(outside[0], outside[1], strand=1), type="misc_feature", qualifiers={"label": [rid + "-out"]})
        if nrefs >= 1:
            f_in.qualifiers["citation"] = ["[%d]" % nrefs]
            f_out.qualifiers["citation"] = ["[1]"]
        if nrefs >= 2:
            f_in2.qualifiers["citation"] = ["[1]", "[2]"]
        ann = {"topology": "circular", "molecule_type": "DNA"}
        if nrefs:
            ann["references"] = refs
        return CircularRecord(Seq(text), id=rid, name=rid, features=[f_in, f_in2, f_out], annotations=ann)

    mods = []
    for k in range(2):
        t = ba.clean(rng, 7, BsaI)
        text = ba.build_module(BsaI, ov[k], t, ov[k + 1], rng)
        p = text.index(ov[k] + t)
        mods.append(Mod(mkrec(text, "mod%d" % k, (p + 1, p + 6), (0, 3))))
    vtext, vfrag = ba.build_vector(BsaI, ov[2], ov[0], rng)
    p = vtext.index(ov[2])
    vec = Vec(mkrec(vtext, "vec", (p + 1, p + 6), (p - 8, p - 5)))
    return vec, mods


def bounded(ctx):
    from pyvc import native
    ns = native.load(ctx.repo_root)
    viol, samples = [], []
    evals = 0
    distinct = set()
    import re as _re
    for nrefs in (0, 1, 2, 3, 12):
        for shared in (False, True):
            for dup_refs in (False, True):
                if dup_refs and nrefs < 2:
                    continue
                rng = random.Random(ctx.seed + nrefs)
                vec, mods = build(ctx, ns, rng, nrefs, shared, dup_refs)
                inputs = [vec] + mods
                cfg = "refs=%d shared=%s equal-entries=%s" % (nrefs, shared, dup_refs)
                before = [[[repr(c) for c in f.qualifiers.get("citation", [])] for f in x.record.features] for x in inputs]
                src_refs = {}
                for x in inputs:
                    refs = x.record.annotations.get("references", [])
                    for f in x.record.features:
                        lab = f.qualifiers["label"][0]
                        src_refs[lab] = [refkey(refs[int(c[1:-1]) - 1]) for c in f.qualifiers.get("citation", [])]
                for call in range(3):
                    evals += 1
                    got, prod, w = ba.run_assembly(vec, mods)
                    if got[0] != "product":
                        viol.append(dict(name="outcome_%s" % cfg, what="%s: records with citations do not assemble: %r" % (cfg, got),
                                         case=dict(cfg=cfg)))
                        break
                    distinct.add((cfg, call))
                    prefs = prod.annotations.get("references", [])
                    titles = [refkey(r) for r in prefs]
                    cited = set()
                    for f in prod.features:
                        if f.type == "source" and "plasmid" in f.qualifiers:
                            continue
                        lab = f.qualifiers.get("label", ["?"])[0]
                        cits = f.qualifiers.get("citation", [])
                        resolved = []
                        for c in cits:
                            if not (isinstance(c, str) and _re.fullmatch(r"\[\d+\]", c)):
                                viol.append(dict(name="form_%s" % cfg, what="%s: product citation qualifier %r is not in bracketed index form" % (cfg, c), case=dict(cfg=cfg)))
                                resolved = None
                                break
                            k = int(c[1:-1])
                            if not (1 <= k <= len(prefs)):
                                viol.append(dict(name="range_%s" % cfg, what="%s: product citation %r out of range (%d references)" % (cfg, c, len(prefs)), case=dict(cfg=cfg)))
                                resolved = None
                                break
                            resolved.append(refkey(prefs[k - 1]))
                            cited.add(refkey(prefs[k - 1]))
                        if resolved is not None and resolved != src_refs.get(lab, []):
                            viol.append(dict(name="target_%s" % cfg, what="%s: product feature %s cites %r, its source feature cited %r" % (cfg, lab, resolved, src_refs.get(lab)), case=dict(cfg=cfg)))
                    if len(titles) != len(set(titles)):
                        viol.append(dict(name="once_%s" % cfg, what="%s: product reference list repeats a reference: %r" % (cfg, titles), case=dict(cfg=cfg)))
                    if set(titles) != cited:
                        viol.append(dict(name="exact_%s" % cfg, what="%s: product reference list %r, cited references %r" % (cfg, titles, sorted(cited)), case=dict(cfg=cfg)))
                    after = [[[repr(c) for c in f.qualifiers.get("citation", [])] for f in x.record.features] for x in inputs]
                    if after != before:
                        viol.append(dict(name="inputs_%s" % cfg, what="%s: citation indices of the inputs changed: %r -> %r" % (cfg, before, after), case=dict(cfg=cfg)))
                    if call == 0:
                        # records with citations assemble like records without them: also when a module object is
                        # passed twice (one module, C03) -- compared with the same call on citation-free copies
                        evals += 1
                        got_twice, _, _ = ba.run_assembly(vec, mods + [mods[0]])
                        vec0, mods0 = build(ctx, ns, random.Random(ctx.seed + nrefs), 0, False, False)
                        ref_twice, _, _ = ba.run_assembly(vec0, mods0 + [mods0[0]])
                        if got_twice[0] != ref_twice[0]:
                            viol.append(dict(name="twice_%s" % cfg, what="%s: with the same module object passed twice the assembly ends with %r; "
                                             "without citations it ends with %r" % (cfg, got_twice[:3], ref_twice[:1]), case=dict(cfg=cfg)))
                    if len(samples) < 2 and nrefs == 2:
                        samples.append(dict(cfg=cfg, product_references=titles,
                                            product_citations={f.qualifiers.get("label", ["?"])[0]: f.qualifiers.get("citation") for f in prod.features if "citation" in f.qualifiers}))
    # the re-indexing pass called directly on small records (the contract's clauses as oracle)
    for fs, r0 in ref_pass_cases():
        evals += 1
        pb = check_ref_pass(ns, fs, r0)
        if any(c for c in fs if c):
            distinct.add(("refpass", repr(fs), repr(r0)))
        if pb:
            viol.append(dict(name="refpass_%s" % pb[0][:40], what="_ref_citations(features citing %r, references %r): %s" % (fs, r0, "; ".join(pb[:3])),
                             case=dict(features=fs, references=r0)))
    # the shared scenarios: this property's oracle over the cross product of the unusual input dimensions
    from bounded import scenarios as sn
    n_sw, d_sw, v_sw = sn.sweep(ctx, ns, 'citations')
    evals += n_sw
    distinct |= {("shared",) + tuple(map(str, k_)) for k_ in d_sw}
    viol.extend(v_sw)
    uniq = {}
    for v in viol:
        uniq.setdefault(v["name"], v)
    return dict(evaluations=evals, distinct_nontrivial=len(distinct),
                rule="" + sn.SWEEP_RULE + "; BsaI vector + 2 modules; reference lists of length 0-3 per input; features citing one or two references, "
                     "inside and outside the retained fragment; a reference shared between inputs or not; a reference list with two "
                     "equal entries; 3 consecutive calls; checked: bracketed form, each product citation resolves to the reference "
                     "its source feature cited, product reference list = cited references, each once; inputs' indices unchanged; "
                     "plus _ref_citations called directly on every record with <= 2 features x <= 2 entries over 4 references and 6 "
                     "initial reference lists",
                bound="2 modules, <= 3 references per record, 3 calls; direct calls: <= 2 features, <= 2 entries", samples=samples,
                violations=list(uniq.values())[:20], n_violations=len(uniq))


def check_ref_pass(ns, feats_spec, r0_spec):
    """call the real _ref_citations on a record whose features cite references as in feats_spec (lists of reference
    numbers) and whose reference list is r0_spec (None = no list); returns the clauses of the contract that fail"""
    from Bio.Seq import Seq
    from Bio.SeqRecord import SeqRecord
    from Bio.SeqFeature import SeqFeature, FeatureLocation, Reference
    core = ns["moclo.core"]

    def ref(k):
        r = Reference()
        r.title, r.authors = "Direct Submission", "Doe J."
        setattr(r, ("journal", "title", "comment", "pubmed_id")[k % 4], "ref %d" % k)   # told apart by one field only
        r.tag = "ref %d" % k        # oracle-side name (not a field Reference.__eq__ looks at)
        return r

    pool = {k: ref(k) for k in range(4)}
    feats = [SeqFeature(FeatureLocation(0, 2, strand=1), type="misc_feature", qualifiers=({"citation": [pool[k] for k in cs]} if cs is not None else {}))
             for cs in feats_spec]
    ann = {} if r0_spec is None else {"references": [pool[k] for k in r0_spec]}
    rec = SeqRecord(Seq("ACGT"), features=feats, annotations=ann)
    mgr = object.__new__(core._assembly.AssemblyManager)
    try:
        mgr._ref_citations(rec)
    except Exception as e:
        return ["raised %r" % (e,)]
    pb = []
    R = rec.annotations.get("references")
    if R is None:
        return ["no reference list afterwards"]
    r0 = list(r0_spec or [])
    if [getattr(x, "tag", None) for x in R[:len(r0)]] != ["ref %d" % k for k in r0]:
        pb.append("initial-references-are-kept-in-place")
    titles = [getattr(x, "tag", None) for x in R]
    if len(set(titles)) != len(titles):
        pb.append("no-reference-listed-twice")
    cited = {"ref %d" % k for cs in feats_spec if cs for k in cs}
    if any(t not in cited for t in titles[len(r0):]):
        pb.append("every-added-reference-is-cited-by-a-feature")
    for f, cs in zip(feats, feats_spec):
        got = f.qualifiers.get("citation", [])
        if len(got) != len(cs or []):
            pb.append("number of entries changed")
            continue
        for c, k in zip(got, cs or []):
            ok = isinstance(c, str) and c.startswith("[") and c.endswith("]") and c[1:-1].isdigit() and 1 <= int(c[1:-1]) <= len(R) \
                and c == "[%d]" % int(c[1:-1]) and getattr(R[int(c[1:-1]) - 1], "tag", None) == "ref %d" % k
            if not ok:
                pb.append("every-citation-is-the-bracketed-1-based-index-of-its-reference (entry %r for reference %d, list %r)" % (c, k, titles))
    return pb


def ref_pass_cases():
    import itertools
    lists = [None, [], [0], [1], [0, 0], [0, 1], [1, 0], [2, 1]]
    for r0 in (None, [], [0], [1, 0], [2], [3, 1]):
        for nf in (0, 1, 2):
            for fs in itertools.product(lists, repeat=nf):
                yield list(fs), r0


def replay(ctx, ob, model):
    """obligations of _ref_citations: the counter-model fixes sequences and uninterpreted functions of the indexed model;
    the replay searches its neighbourhood natively (<= 2 features, <= 2 entries each, <= 2 listed references) with the
    contract's clauses as the oracle"""
    if ob.meta.get("function") != "AssemblyManager._ref_citations":
        return None, "pointwise counter-models are searched natively by the bounded layer"
    from pyvc import native
    ns = native.load(ctx.repo_root)
    for fs, r0 in ref_pass_cases():
        pb = check_ref_pass(ns, fs, r0)
        if pb:
            return True, dict(call="AssemblyManager._ref_citations(record with feature citations %r, references %r)" % (fs, r0),
                              problems=pb[:4], note="found in the neighbourhood of the counter-model", model=model)
    return False, dict(note="no failing input among <=2 features x <=2 entries x <=2 listed references", model=model)


LEVEL_TEXT = ("Deductive: the bodies of _deref_citations (pointwise model: generic feature, generic entry) and _ref_citations "
              "(indexed model with loop invariants for both loops: every processed entry is the bracketed 1-based index of the "
              "reference it cited, listed references keep their place, none is listed twice, every added one is cited) are "
              "checked path by path for every record; assemble() is checked against those contracts for the save / dereference / "
              "re-index / restore composition on the citation cells; lemmas L0, L3 relate index and position.")
LEVEL_NOTE = ("Assumed: D-RE-CIT (the citation pattern), Reference equality is identity of the abstract reference, list/dict "
              "semantics (D-LIST, D-DICT), feature objects of a record are distinct, executor encoding, solvers. The link between "
              "the two models (pointwise / indexed) and the abstract cells used at the call sites in assemble() is by reading, not "
              "by proof. Bounded (not proved): 14 configurations x 3 calls on real records and direct calls of _ref_citations on "
              "small records.")
LEVEL = "proof"
MANIFEST_LEVEL = "proof"
