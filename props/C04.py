# coding: utf-8
"""C04 -- Reported overhangs and fragments are true restriction fragments of the cutter."""
from __future__ import annotations

import random

from pyvc import term as tm
from pyvc.term import INT, BOOL, STR
from pyvc.solve import Obligation
from bounded import gen, entities as be, assembly as ba

ID = "C04"
LEVEL = "proof"
MOD, VEC = "moclo/moclo/core/modules.py", "moclo/moclo/core/vectors.py"
FILES = [MOD, VEC, "moclo/moclo/core/parts.py", "moclo-ytk/moclo/kits/ytk.py", "moclo-cidar/moclo/kits/cidar.py",
         "moclo-ecoflex/moclo/kits/ecoflex.py", "moclo-moclo/moclo/kits/moclo.py", "moclo-plant/moclo/kits/plant.py"]
FUNCTIONS = [(MOD, "AbstractModule._match"), (VEC, "AbstractVector._match"),
             (MOD, "AbstractModule.overhang_start"), (MOD, "AbstractModule.overhang_end"),
             (VEC, "AbstractVector.overhang_start"), (VEC, "AbstractVector.overhang_end"),
             (MOD, "AbstractModule.target_sequence"), (VEC, "AbstractVector.target_sequence"),
             (VEC, "AbstractVector.placeholder_sequence"), ("moclo/moclo/regex.py", "SeqMatch.group"),
             # the verdict and the spans come from the per-class pattern and the circular search
             ("moclo/moclo/core/_structured.py", "StructuredRecord._get_regex"), ("moclo/moclo/core/_structured.py", "StructuredRecord._match"), ("moclo/moclo/regex.py", "DNARegex.search"),
             (MOD, "AbstractModule.structure"), (VEC, "AbstractVector.structure")]
ASSUMES = ["D-RE", "D-RESTR", "D-CACHE", "D-SEQ", "D-REC-SLICE", "D-REC-ADD",
           "RE5 (adjacency): for a pattern of the shape F0(F1)(F2)(F3)F4 the spans of groups 1,2,3 are adjacent; a "
           "fixed-width flank/group occupies exactly its width (checked shape per literal, semantics of re assumed)",
           "least-number principle for the leftmost matching start (spec function lmstart)",
           "D-RESTR(cuts): three pairwise distinct in-range cut positions of the enzyme in a text give ncuts >= 3"]
TRUSTED = ["CPython re", "Bio.Restriction (elucidate, catalyse)", "Bio.SeqRecord slicing/concatenation"]
EXPLANATION = ("body VCs of _match (digest screen), overhang_start/end, target_sequence, placeholder_sequence for an "
               "arbitrary subclass and record; per-class literal obligations tying groups 1/3 of every structure "
               "(85 kit classes, and the derived generic structures of all 58 qualifying enzymes) to the cutter's cut "
               "geometry; lemmas for the digest screen and the placeholder/target partition")


def obligations(ctx):
    from props._shared import typing_state_census
    return list(ctx.verify(FUNCTIONS) + ctx.part(literal) + ctx.part(lemmas)) + ctx.part(lambda c_: [typing_state_census(c_, 'C04')], 'typing-state census')


# ---------------------------------------------------------------------------------------------- C: literals
def shape_of(pattern):
    """(F0, F1, F2a, star, F2b, F3, F4) as strings of IUPAC letters, or raises ValueError"""
    toks = gen.parse_structure(pattern)
    parts = []
    cur = []
    groups = []
    depth = 0
    seq = []   # sequence of ('text', str) | ('open') | ('close')
    for t in toks:
        if t[0] == "open":
            if depth:
                raise ValueError("nested group")
            depth += 1
            seq.append(("open",))
        elif t[0] == "close":
            depth -= 1
            seq.append(("close",))
        elif t[0] == "lit":
            seq.append(("lit", t[1]))
        else:
            seq.append(("star", t[1], t[2]))
    # split
    segs = [[]]
    marks = []
    for x in seq:
        if x[0] in ("open", "close"):
            marks.append(x[0])
            segs.append([])
        else:
            segs[-1].append(x)
    if marks != ["open", "close", "open", "close", "open", "close"]:
        raise ValueError("not three top-level groups")
    f0, f1, gap1, f2, gap2, f3, f4 = segs
    if gap1 or gap2:
        raise ValueError("groups are not adjacent")
    for part in (f0, f1, f3, f4):
        if any(x[0] == "star" for x in part):
            raise ValueError("run outside group 2")
    stars = [i for i, x in enumerate(f2) if x[0] == "star"]
    if len(stars) != 1:
        raise ValueError("group 2 must contain exactly one run")
    lit = lambda part: "".join(x[1] for x in part)
    return dict(F0=lit(f0), F1=lit(f1), F2a=lit(f2[:stars[0]]), star=f2[stars[0]], F2b=lit(f2[stars[0] + 1:]),
                F3=lit(f3), F4=lit(f4))


def geometry_ok(shape, site, a, k):
    """cut geometry: some site occurrence to the left of the run cuts at the start of group 1, some occurrence to
    the right of the run cuts at the start of group 3, and both groups are k wide.  Offsets left of the run are
    measured from the left end, offsets right of it from the right end."""
    left = shape["F0"] + shape["F1"] + shape["F2a"]
    right = shape["F2b"] + shape["F3"] + shape["F4"]
    g1 = len(shape["F0"])
    g3_from_right = len(shape["F3"]) + len(shape["F4"])        # start of group 3, counted from the right end
    rsite = gen.rc(site)

    def cuts(text):
        out = set()
        for p in range(len(text) - len(site) + 1):
            if text[p:p + len(site)] == site:
                out.add(p + len(site) + a)
            if text[p:p + len(site)] == rsite:
                out.add(p - a - k)
        return out

    first = g1 in cuts(left)
    second = (len(right) - g3_from_right) in cuts(right)
    return dict(first_cut_at_group1=first, second_cut_at_group3=second, group1_width=len(shape["F1"]) == k,
                group3_width=len(shape["F3"]) == k)


def literal(ctx):
    from pyvc import native
    kits = native.kits(ctx.repo_root)
    ns = native.load(ctx.repo_root)
    out = []
    broken = [k for k, v in kits.items() if isinstance(v, Exception)]
    out.append(Obligation("C04.C0 every kit module imports", [], tm.B(not broken), kind="C", text="kits: %s" % broken,
                          meta=dict(function="kits", clause="import")))
    classes = gen.concrete_classes(kits)
    out.append(Obligation("C04.C0b the configuration space is not empty", [], tm.B(len(classes) >= 1), kind="C",
                          text="%d concrete classes" % len(classes)))
    cases = [(c.__module__.split(".")[-1] + "." + c.__name__, c) for c in classes]
    for (name, e, m, v) in be.generic_classes(ns["moclo.core"], gen.qualifying_enzymes()):
        cases.append(("generic-module[%s]" % name, m))
        cases.append(("generic-vector[%s]" % name, v))
    for (label, c) in cases:
        try:
            pat = c.structure()
            site, a, k = be.enzyme_geometry(c.cutter)
            shape = shape_of(pat)
            geo = geometry_ok(shape, site, a, k)
        except Exception as ex:
            out.append(Obligation("C04.C1[%s] structure has three adjacent groups and a single run" % label, [],
                                  tm.FALSE, kind="C", text="structure %r: %s" % (getattr(c, "__name__", c), ex),
                                  meta=dict(function=label, clause="shape", structure=str(ex))))
            continue
        out.append(Obligation("C04.C1[%s] structure has three adjacent groups and a single run" % label, [], tm.TRUE,
                              kind="C", text=pat, meta=dict(function=label, clause="shape")))
        goal = tm.and_(*[tm.B(v_) for v_ in geo.values()])
        out.append(Obligation("C04.C2[%s] groups 1 and 3 sit exactly on the cutter's cuts" % label, [], goal, kind="C",
                              text="%s with %s%s: %s" % (pat, site, (a, k), geo),
                              meta=dict(function=label, clause="geometry", structure=pat, site=site, a=a, k=k, detail=geo)))
    return out


# ---------------------------------------------------------------------------------------------- B: lemmas
def lemmas(ctx):
    out = []
    # L2 (digest screen): a third distinct cut strictly inside the target forces ncuts >= 3, contradicting the
    # postcondition `ncuts <= 2` of _match -- so no accepted record has a cut strictly inside its target
    e, g0 = tm.V("e", INT), tm.V("g0", STR)
    c1, c2, c3 = tm.V("c1", INT), tm.V("c2", INT), tm.V("c3", INT)
    iscut = lambda c: tm.app("iscut", BOOL, e, g0, c)
    nc = tm.app("ncuts", INT, e, g0)
    x, y, z = tm.V("x", INT), tm.V("y", INT), tm.V("z", INT)
    drestr = tm.forall([x, y, z], tm.implies(tm.and_(tm.app("iscut", BOOL, e, g0, x), tm.app("iscut", BOOL, e, g0, y),
                                                     tm.app("iscut", BOOL, e, g0, z), tm.lt(x, y), tm.lt(y, z)),
                                             tm.le(3, nc)))
    out.append(Obligation("C04.L2 digest screen: an accepted module has no cut strictly inside its target",
                          [drestr, iscut(c1), iscut(c2), iscut(c3), tm.lt(c1, c3), tm.lt(c3, c2), tm.le(nc, 2)],
                          tm.FALSE, kind="B", text="flank cuts c1 < c2 and a third cut c1 < c3 < c2 contradict ncuts <= 2"))
    # L3 (partition): the contiguous placeholder and the target cover the circle exactly once
    s = tm.V("s", STR)
    n = tm.slen(s)
    a, L = tm.V("a", INT), tm.V("L", INT)
    d = tm.concat(s, s)
    hyp = [tm.lt(0, n), tm.le(0, a), tm.lt(a, n), tm.le(0, L), tm.le(L, n)]
    placeholder = tm.substr(d, a, L)
    target = tm.substr(d, tm.pymod(tm.add(a, L), n), tm.sub(n, L))
    out.append(Obligation("C04.L3 placeholder followed by target is a rotation of the plasmid", hyp,
                          tm.eq(tm.concat(placeholder, target), tm.substr(d, a, n)), kind="B",
                          text="circ(s,a,L) . circ(s,a+L,n-L) = circ(s,a,n): every nucleotide exactly once"))
    out.append(Obligation("C04.L3b lengths add up", hyp, tm.eq(tm.add(tm.slen(placeholder), tm.slen(target)), n), kind="B",
                          text="|placeholder| + |target| = n"))
    # must-fail: prepending the *other* overhang does not give a contiguous stretch
    b = tm.V("b", INT)
    k = tm.V("k", INT)
    wrong = tm.concat(tm.substr(d, tm.add(a, L), k), tm.substr(d, tm.add(a, k), tm.sub(L, k)))
    out.append(Obligation("C04.MF1 must-fail: group 3 + group 2 is not the stretch between the cuts",
                          hyp + [tm.lt(0, k), tm.lt(k, L), tm.le(tm.add(tm.add(a, L), k), tm.mul(2, n))],
                          tm.eq(wrong, placeholder), kind="V", expect="sat", text="canned wrong body"))
    return out


# ---------------------------------------------------------------------------------------------- bounded
def bounded(ctx):
    from pyvc import native
    from Bio.Seq import Seq
    ns = native.load(ctx.repo_root)
    kits = native.kits(ctx.repo_root)
    CircularRecord = ns["moclo.record"].CircularRecord
    rng = random.Random(ctx.seed)
    classes = gen.concrete_classes(kits)
    cases = [(c.__module__.split(".")[-1] + "." + c.__name__, c) for c in classes]
    enz = gen.qualifying_enzymes()
    gens = be.generic_classes(ns["moclo.core"], enz)
    if ctx.tier == "quick":
        seen_geo = set()
        keep = []
        for (name, e, m, v) in gens:
            g = be.enzyme_geometry(e)[1:] + (len(e.site),)
            if g not in seen_geo:
                seen_geo.add(g)
                keep.append((name, e, m, v))
        gens = keep
    # cutters whose recognition site holds an ambiguity code (no N: CCDG, CCDS): accepted as cutters like any other
    amb = be.generic_classes(ns["moclo.core"], [x_ for x_ in gen.ambiguous_site_enzymes() if "N" not in x_[2]])
    amb_labels = {"generic-%s[%s]" % (r_, x_[0]) for x_ in amb for r_ in ("module", "vector")}
    gens += amb
    generic_labels = set()
    for (name, e, m, v) in gens:
        cases.append(("generic-module[%s]" % name, m))
        cases.append(("generic-vector[%s]" % name, v))
        generic_labels |= {"generic-module[%s]" % name, "generic-vector[%s]" % name}
    viol, samples = [], []
    evals = 0
    distinct = set()
    per = 2 if ctx.tier == "quick" else 4
    for (label, cls) in cases:
        flank = be.sites_flank_target(cls)
        site, a, k = be.enzyme_geometry(cls.cutter)
        records = be.class_records(cls, rng, count=per)
        # extra-site and mutated variants: the class may reject them; whatever it accepts must satisfy the oracle
        extra = []
        for s in records[:1]:
            mid = len(s) // 2
            extra.append(s[:mid] + site + "A" * (a + k + 2) + s[mid:])
            extra.append(s[:mid] + gen.rc(site) + s[mid:])
            j = rng.randrange(len(s))
            extra.append(s[:j] + rng.choice([c for c in "ACGT" if c != s[j]]) + s[j + 1:])
            # the same plasmids spelled in lower case, and with only the further site in lower case: the enzyme cuts
            # whatever the spelling, so the class must screen them alike (the oracle below is case-insensitive)
            ins1, ins2 = site + "A" * (a + k + 2), gen.rc(site)
            extra.append((s[:mid] + ins1 + s[mid:]).lower())
            extra.append(s[:mid] + ins1.lower() + s[mid:])
            extra.append(s[:mid] + ins2.lower() + s[mid:])
            extra.append(s.lower())
        # every single-letter change of the two recognition sites (generic classes): the class refuses most of them; a
        # site with an ambiguity code tolerates some, and then the fragments must still be the enzyme's
        nearmiss = set()
        if label in generic_labels:
            s_ = records[0]
            for word in (site, gen.rc(site)):
                for p_ in be.occurrences(s_, word):
                    for j_ in range(len(word)):
                        q_ = (p_ + j_) % len(s_)
                        for ch_ in "ACGT":
                            if ch_ != s_[q_].upper():
                                nearmiss.add(s_[:q_] + ch_ + s_[q_ + 1:])
        nearmiss = sorted(nearmiss)
        pool = records + extra + nearmiss
        if label in amb_labels:
            # beyond the enzyme family of the statement (C01's enumeration: unambiguous sites).  Kept to the records on which
            # Bio.Restriction's own search is unambiguous: at most one forward and one reverse occurrence (an occurrence
            # that is its own reverse complement, CCGG for CCDG / CCDS, is reported by Bio on one strand only)
            pool = [s_ for s_ in records + nearmiss if ba.count_sites(s_, cls.cutter)[0] <= 1 and ba.count_sites(s_, cls.cutter)[1] <= 1
                    and not set(be.occurrences(s_, site)) & set(be.occurrences(s_, gen.rc(site)))]
        for s in pool:
            n = len(s)
            rots = range(n) if (ctx.tier != "quick" or n <= 40) else sorted(set(list(range(0, n, 3)) + list(range(min(n, 14))) + list(range(max(0, n - 14), n))))
            if s in nearmiss and ctx.tier == "quick":
                rots = [0, n // 3, n - 2]
            for r in rots:
                t = s[r:] + s[:r]
                evals += 1
                ent_ = cls(CircularRecord(Seq(t), id="r"))
                first_ = be.observe_entity(ent_)
                obs = be.observe_entity(ent_)       # the same wrapper asked again: the same answer
                if obs != first_:
                    viol.append(dict(name="requery_%s" % label, what="%s on %r: the same object answers %r, then %r" % (label, t[:70], first_, obs),
                                     case=dict(cls=label, record=t)))
                    break
                if obs["valid"] is not True:
                    if s in records and obs["valid"] is False and r == 0 and False:
                        pass
                    continue
                distinct.add((label, s))
                pb = be.check_fragments(cls, t, obs, flank)
                if pb:
                    viol.append(dict(name="frag_%s" % label, what="%s on %r (rotation %d of a structure instance): %s" % (label, t[:70], r, "; ".join(pb)),
                                     case=dict(cls=label, record=t), observed={k_: v_ for k_, v_ in obs.items()}))
                    break
                if len(samples) < 3 and r == 3:
                    samples.append(dict(cls=label, record=t[:60], observed={k_: (v_[:30] if isinstance(v_, str) else v_) for k_, v_ in obs.items()}))
    seen = set()
    uniq = []
    for v in viol:
        if v["name"] not in seen:
            seen.add(v["name"])
            uniq.append(v)
    return dict(evaluations=evals, distinct_nontrivial=len(distinct),
                rule="every concrete kit class (%d) and generic module/vector classes over %d enzymes x seeded instances of "
                     "the class's structure (+ an extra forward site, an extra reverse site, a one-letter mutation; lower-case and "
                     "partly lower-case spellings of these) x "
                     "rotations; every accepted record is checked against cut positions computed by plain string search; "
                     "non-trivial = accepted (distinct by class, record)" % (len(classes), len(gens)),
                bound="%d records per class, runs of 2-9 letters, all rotations (quick: a third of them for long records)" % (per + 3),
                samples=samples, violations=uniq[:20], n_violations=len(uniq))


def replay(ctx, ob, model):
    return None, "entity-level counter-models interpret `re` as an uninterpreted function: the bounded layer searches the neighbourhood"


LEVEL_TEXT = ("Deductive: for an arbitrary class with the checked shape and an arbitrary record, overhang_start/end return "
              "the texts of groups 1/3 read on the circle, target_sequence the stretch between the cuts (module) or its "
              "complement (vector), placeholder_sequence the contiguous stretch, and _match enforces the digest screen; "
              "per-class literal obligations (85 classes + 58 enzymes x 2 roles, exhaustive over that finite set) tie "
              "groups 1/3 of each structure to the cutter's cut offsets; lemmas give `no inner cut` and the partition.")
LEVEL_NOTE = ("Assumed: re semantics (D-RE, RE5 adjacency/width), Bio.Restriction (D-RESTR), SeqRecord slicing/concatenation, "
              "least-number principle for lmstart, executor encoding, solvers. Bounded part (not proved): seeded records per "
              "class with extra sites/mutations at all rotations against a string-search oracle.")
