# coding: utf-8
"""C03 -- Ambiguous or incomplete module sets never produce a plasmid."""
from __future__ import annotations

import itertools
import random

from pyvc import term as tm
from pyvc.term import INT, BOOL, STR
from pyvc.solve import Obligation
from contracts import assembly_c as ac
from contracts.assembly_c import ostart, oend, chain, last_end, SEQI, MAP, ABSENT, dup_cond, rcdup_cond, map_post, rc
from contracts.entities_c import valid
from bounded import gen, assembly as ba

ID = "C03"
LEVEL = "proof"
F = "moclo/moclo/core/_assembly.py"
FILES = [F, "moclo/moclo/core/vectors.py", "moclo/moclo/errors.py"]
FUNCTIONS = [(F, "AssemblyManager.__init__"), (F, "AssemblyManager._generate_modules_map"),
             (F, "AssemblyManager._generate_assembly"), (F, "AssemblyManager.assemble")] + [
             ("moclo/moclo/errors.py", q_) for q_ in (
                 "DuplicateModules.__init__", "DuplicateModules.__str__", "MissingModule.__init__", "MissingModule.__str__",
                 "UnusedModules.__init__", "UnusedModules.__str__", "InvalidSequence.__init__", "InvalidSequence.__str__")]
ASSUMES = ["D-SEQ", "D-REC-ADD", "D-WARN", "D-COPY",
           "abstract view of the entity contracts (valid/ostart/oend/frag are functions of the entity: C06)",
           "induction rule for the walk-uniqueness lemma (base and step are discharged, the rule is trusted)",
           "termination of the overhang walk: variant card(modmap) decreases with every pop (obligation loop0:decreases); the finite-map law card(m - {k}) = card(m) - 1 >= 0 for a present key is assumed (D-DICT)",
           "citation passes: contracts of _deref_citations/_ref_citations assumed at this level (see C10)"]
TRUSTED = ["Bio.Seq equality/hash (D-SEQ)", "warnings (D-WARN)"]
EXPLANATION = ("body VCs of __init__, _generate_modules_map (both loops, ghost witness index), _generate_assembly (while "
               "loop with ghost walk, KeyError -> MissingModule exit, unused-modules warning), assemble; lemmas: the "
               "walk is unique (base/step), closing and stalling exclude each other, verdict conditions and the map are "
               "independent of the argument order")


def obligations(ctx):
    obs = ctx.verify(FUNCTIONS)
    # the frame of the citation cells on the exits of assemble() belongs to C07
    obs = [o for o in obs if "citation-qualifiers" not in o.name and "reference-list" not in o.name]
    return obs + ctx.part(lemmas)


def lemmas(ctx):
    out = []
    v = tm.V("v", INT)
    A0 = tm.V("A0", MAP)
    P, Q = tm.V("P", SEQI), tm.V("Q", SEQI)
    t = tm.V("t0", INT)
    chP = [c for (_, c) in chain(P, v, A0)]
    chQ = [c for (_, c) in chain(Q, v, A0)]
    inboth = [tm.le(0, t), tm.lt(t, tm.seqlen(P)), tm.lt(t, tm.seqlen(Q))]
    # L3a/b: two walks over the same map agree on their common prefix (base and step of the induction on t)
    out.append(Obligation("C03.L3a walk uniqueness, base: first elements agree", chP + chQ + inboth + [tm.eq(t, 0)],
                          tm.eq(tm.seqnth(P, t), tm.seqnth(Q, t)), kind="B", text="P[0] = Q[0]"))
    out.append(Obligation("C03.L3b walk uniqueness, step: agreement at t-1 gives agreement at t",
                          chP + chQ + inboth + [tm.lt(0, t), tm.eq(tm.seqnth(P, tm.sub(t, 1)), tm.seqnth(Q, tm.sub(t, 1)))],
                          tm.eq(tm.seqnth(P, t), tm.seqnth(Q, t)), kind="B", text="P[t-1] = Q[t-1] => P[t] = Q[t]"))
    # L3c: given prefix agreement, a closing walk and a stalling walk cannot coexist (so the outcome is a function
    # of (oend(v), ostart(v), the map): product xor MissingModule, and the stalled overhang is determined)
    u = tm.V("u", INT)
    prefix = tm.forall_range(u, 0, tm.imin(tm.seqlen(P), tm.seqlen(Q)), tm.eq(tm.seqnth(P, u), tm.seqnth(Q, u)))
    closes = tm.eq(last_end(P, v), ostart(v))
    oq = last_end(Q, v)
    w = tm.V("w", INT)
    used = tm.exists_range(w, 0, tm.seqlen(Q), tm.eq(ostart(tm.seqnth(Q, w)), oq))
    stalls = tm.and_(tm.ne(oq, ostart(v)), tm.or_(tm.eq(tm.select(A0, oq), ABSENT), used))
    lp, lq = tm.seqlen(P), tm.seqlen(Q)

    def inst(q, *vals):
        """instance of a universally quantified hypothesis (already among the hypotheses) at given terms"""
        if q.op == "forall_range":
            var, lo, hi, body = q.args
            val = vals[0]
            return tm.implies(tm.and_(tm.le(lo, val), tm.lt(val, hi)), tm.subst(body, {var: val}))
        vars_, body = q.args
        return tm.subst(body, dict(zip(vars_, vals)))

    w0 = tm.V("w0", INT)
    stalls_sk = tm.and_(tm.ne(oq, ostart(v)), tm.or_(tm.eq(tm.select(A0, oq), ABSENT), tm.and_(
        tm.le(0, w0), tm.lt(w0, lq), tm.eq(ostart(tm.seqnth(Q, w0)), oq))))
    hints_short = [inst(chP[0], lq), inst(prefix, tm.sub(lq, 1)), inst(prefix, w0), inst(chP[1], w0, lq)]
    hints_long = [inst(chQ[0], lp), inst(prefix, tm.sub(lp, 1))]
    for tag, case, hints in (("shorter", tm.lt(lq, lp), hints_short), ("longer", tm.lt(lp, lq), hints_long),
                             ("same length", tm.eq(lp, lq), [inst(prefix, tm.sub(lp, 1))])):
        out.append(Obligation("C03.L3c a closing walk and a stalling walk exclude each other (stalling walk %s)" % tag,
                              chP + chQ + [prefix, closes, stalls_sk, case] + hints, tm.FALSE, kind="B",
                              text="product and MissingModule are mutually exclusive outcomes of the same overhang graph "
                                   "(the existential `used` is skolemised; hints are instances of the hypotheses)"))
    # L3d: two closing walks have the same length (hence, with prefix agreement, are equal): the product is unique
    closesQ = tm.eq(last_end(Q, v), ostart(v))
    out.append(Obligation("C03.L3d two closing walks have the same length",
                          chP + chQ + [prefix, closes, closesQ, tm.lt(lq, lp), inst(chP[0], lq), inst(prefix, tm.sub(lq, 1))],
                          tm.FALSE, kind="B", text="uniqueness of the assembled plasmid (by symmetry, |Q| < |P| is impossible)"))
    # L2: order independence -- if M2 lists the same module objects as M1, the verdict conditions coincide
    M1, M2 = tm.V("M1", SEQI), tm.V("M2", SEQI)
    i = tm.V("i", INT)
    p12 = lambda x: tm.app("perm12", INT, x)
    p21 = lambda x: tm.app("perm21", INT, x)
    same = [tm.forall_range(i, 0, tm.seqlen(M1), tm.and_(tm.le(0, p12(i)), tm.lt(p12(i), tm.seqlen(M2)),
                                                        tm.eq(tm.seqnth(M2, p12(i)), tm.seqnth(M1, i)))),
            tm.forall_range(i, 0, tm.seqlen(M2), tm.and_(tm.le(0, p21(i)), tm.lt(p21(i), tm.seqlen(M1)),
                                                        tm.eq(tm.seqnth(M1, p21(i)), tm.seqnth(M2, i))))]
    out.append(Obligation("C03.L2a duplicate verdict does not depend on the argument order", same + [dup_cond(M1)],
                          dup_cond(M2), kind="B", text="dup(M1) => dup(M2) when M2 is a rearrangement of M1"))
    out.append(Obligation("C03.L2b reverse-complement verdict does not depend on the argument order",
                          same + [rcdup_cond(M1)], rcdup_cond(M2), kind="B", text="rcdup(M1) => rcdup(M2)"))
    out.append(Obligation("C03.L2c invalid-module verdict does not depend on the argument order",
                          same + [ac.some_invalid(M1)], ac.some_invalid(M2), kind="B", text="invalid(M1) => invalid(M2)"))
    # L2d: without duplicates the start-overhang map is determined by the set of modules
    A1, A2 = tm.V("A1", MAP), tm.V("A2", MAP)
    s = tm.V("s", STR)
    idx1, idx2 = tm.V("idx1", ac.IDX), tm.V("idx2", ac.IDX)

    def filed(A, idx, M):
        return tm.forall([s], tm.implies(tm.ne(tm.select(A, s), ABSENT), tm.and_(
            tm.le(0, tm.select(idx, s)), tm.lt(tm.select(idx, s), tm.seqlen(M)),
            tm.eq(tm.seqnth(M, tm.select(idx, s)), tm.select(A, s)))))

    hyp = same + [c for (_, c) in map_post(M1, A1)] + [c for (_, c) in map_post(M2, A2)] + [
        filed(A1, idx1, M1), filed(A2, idx2, M2), tm.not_(dup_cond(M1)), tm.not_(dup_cond(M2))]
    s0 = tm.V("s0", STR)
    out.append(Obligation("C03.L2d the start-overhang map does not depend on the argument order", hyp,
                          tm.eq(tm.select(A1, s0), tm.select(A2, s0)), kind="B", text="A1[s] = A2[s] for every overhang s"))
    # must-fail: without the reverse-complement pass, an rc pair is not excluded
    out.append(Obligation("C03.MF1 must-fail: the first loop alone does not exclude reverse-complementary overhangs",
                          [c for (_, c) in map_post(M1, A1)] + [tm.not_(dup_cond(M1)), tm.lt(0, tm.seqlen(M1))],
                          tm.not_(rcdup_cond(M1)), kind="V", expect="sat", text="canned missing check"))
    return out


# ---------------------------------------------------------------------------------------------- bounded
ALPHABET = {"X": "AACC", "Y": "GGAT", "x": "GGTT", "P": "ACGT", "Z": "CTAA"}   # x = rc(X), P palindromic


def _setup(ctx, seed_offset=0):
    from pyvc import native
    from Bio.Seq import Seq
    from Bio.Restriction import BsaI
    ns = native.load(ctx.repo_root)
    core = ns["moclo.core"]
    CircularRecord = ns["moclo.record"].CircularRecord
    Mod = type("BModule", (core.Entry,), dict(cutter=BsaI))
    Vec = type("BVector", (core.EntryVector,), dict(cutter=BsaI))
    rng = random.Random(ctx.seed + seed_offset)
    mods = {}
    for a, b in itertools.product(ALPHABET, repeat=2):
        for copy in (0, 1):
            t = ba.clean(rng, rng.randint(2, 7), BsaI)
            text = ba.build_module(BsaI, ALPHABET[a], t, ALPHABET[b], rng)
            text = ba.rotate(text, rng.randrange(len(text)))
            mods[(a, b, copy)] = (Mod(CircularRecord(Seq(text), id="m%s%s%d" % (a, b, copy), name="m")), ALPHABET[a] + t)
    vecs = {}
    for a, b in itertools.product(ALPHABET, repeat=2):
        text, vfrag = ba.build_vector(BsaI, ALPHABET[a], ALPHABET[b], rng)
        k = rng.randrange(len(text))
        vecs[(a, b)] = (Vec(CircularRecord(Seq(ba.rotate(text, k)), id="v%s%s" % (a, b), name="v")), vfrag)
    return ns, mods, vecs


def bounded(ctx):
    ns, mods, vecs = _setup(ctx)
    viol, samples = [], []
    evals = 0
    distinct = set()
    types = sorted({(a, b) for (a, b, c) in mods})
    if ctx.tier == "quick":
        vkeys = [("X", "Y"), ("X", "X"), ("X", "x"), ("P", "Y"), ("Y", "X"), ("Z", "P")]
        maxsize = 2
        extra3 = 250
    else:
        vkeys = sorted(vecs)
        maxsize = 3
        extra3 = 3000
    rng = random.Random(ctx.seed + 7)
    multisets = []
    for size in range(1, maxsize + 1):
        multisets += list(itertools.combinations_with_replacement(types, size))
    for _ in range(extra3):
        multisets.append(tuple(sorted(rng.choice(types) for _ in range(maxsize + 1))))

    def objects(ms):
        seen = {}
        out = []
        for ty in ms:
            c = seen.get(ty, 0)
            seen[ty] = c + 1
            out.append((ty[0], ty[1], min(c, 1)))
        return out

    for vk in vkeys:
        vec, vfrag = vecs[vk]
        for ms in multisets:
            objs = objects(ms)
            perms = [objs, list(reversed(objs))] if len(objs) > 1 else [objs]
            if len(objs) == 3 and ctx.tier != "quick":
                perms = [list(p) for p in itertools.permutations(objs)]
            want = ba.spec_outcome([(ALPHABET[a], ALPHABET[b], (a, b, c)) for (a, b, c) in objs], ALPHABET[vk[0]], ALPHABET[vk[1]])
            results = []
            for perm in perms:
                evals += 1
                got, prod, w = ba.run_assembly(vec, [mods[k][0] for k in perm])
                results.append((got, prod))
                pb = None
                if want[0] != got[0]:
                    pb = "expected %r, got %r" % (want, got)
                elif want[0] == "MissingModule" and want[1].upper() != got[1].upper():
                    pb = "stalled overhang %r, expected %r" % (got[1], want[1])
                elif want[0] == "product":
                    exp = "".join(mods[k][1] for k in want[1]) + vfrag
                    unused_ids = sorted(m.record.id for m in got[1])
                    want_unused = sorted(mods[k][0].record.id for k in want[2])
                    if not ba.is_rotation(str(prod.seq), exp):
                        pb = "product %r is not a rotation of %r" % (str(prod.seq)[:60], exp[:60])
                    elif unused_ids != want_unused:
                        pb = "UnusedModules names %r, expected %r" % (unused_ids, want_unused)
                    distinct.add((vk, ms))
                if pb:
                    viol.append(dict(name="graph_%s_%s" % ("".join(vk), "_".join(a + b for a, b in ms)),
                                     what="vector %s%s with modules %s (order %s): %s" % (
                                         vk[0], vk[1], [a + b for a, b in ms], [a + b + str(c) for a, b, c in perm], pb),
                                     case=dict(vector=vk, modules=[list(x) for x in perm], alphabet=ALPHABET), expected=list(want), observed=list(got[:2])))
            if len(samples) < 3 and want[0] == "product" and len(ms) == 2:
                samples.append(dict(vector=vk, modules=ms, outcome=want[0], path=[list(k) for k in want[1]]))
        # the same object passed twice is one module
        for ty in types[:6]:
            evals += 1
            m = mods[(ty[0], ty[1], 0)][0]
            want = ba.spec_outcome([(ALPHABET[ty[0]], ALPHABET[ty[1]], "k")] * 2, ALPHABET[vk[0]], ALPHABET[vk[1]])
            got, prod, w = ba.run_assembly(vec, [m, m])
            if want[0] != got[0]:
                viol.append(dict(name="same_object_twice", what="vector %s with the same module object %s passed twice: expected %r, got %r" % (vk, ty, want, got),
                                 case=dict(vector=vk, module=ty)))
            # ... but two *objects* wrapping the same plasmid text are two supplied modules sharing a start overhang
            evals += 1
            twin = type(m)(type(m.record)(m.record.seq, id=m.record.id + "-copy", name=m.record.name))
            want2 = ba.spec_outcome([(ALPHABET[ty[0]], ALPHABET[ty[1]], "k1"), (ALPHABET[ty[0]], ALPHABET[ty[1]], "k2")],
                                    ALPHABET[vk[0]], ALPHABET[vk[1]])
            got2, prod2, w2 = ba.run_assembly(vec, [m, twin])
            if want2[0] != got2[0]:
                viol.append(dict(name="same_plasmid_two_objects", what="vector %s with two module objects wrapping the same plasmid %s: expected %r, got %r" % (
                    vk, ty, want2[:1], got2[:2]), case=dict(vector=vk, module=ty)))
            # ... and so are two wrappers around one and the same record object
            evals += 1
            shared = type(m)(m.record)
            got3, prod3, w3 = ba.run_assembly(vec, [m, shared])
            if want2[0] != got3[0]:
                viol.append(dict(name="one_record_two_wrappers", what="vector %s with two module objects wrapping the same record object %s: expected %r, got %r" % (
                    vk, ty, want2[:1], got3[:2]), case=dict(vector=vk, module=ty)))
    # the shared scenarios (complete chains with every kind of annotation, spelling, rotation, identifier, history): the
    # outcome is that of the overhang graph -- a product -- and the warning names exactly the modules left out
    from bounded import scenarios as sn
    for t_, spec in enumerate(sn.scenarios(ns, ctx.seed + 29, 50 if ctx.tier == "quick" else 300, ctx.tier)):
        sc = sn.build(ns, spec)
        evals += 1
        got_, prod_, w_ = sc.run()
        distinct.add(("shared", t_))
        want_unused = [x_ for x_ in sc.supplied if x_ not in sc.mods]
        if sc.spec["twice"]:
            want_ = ("DuplicateModules",)      # the same object twice: see (C03) one object twice above
        else:
            want_ = ("product",)
        if got_[0] != want_[0] and not (sc.spec["twice"] and got_[0] == "product"):
            viol.append(dict(name="scenario_outcome_%s" % got_[0], what="shared scenario %d (%s): a complete chain ended with %r" % (
                t_, {k_: v_ for k_, v_ in sc.describe().items() if k_ not in ("records", "supplied")}, got_[:3]), case=sc.describe()))
        elif got_[0] == "product" and not sc.spec["twice"]:
            named = list(got_[1])
            if sorted(map(id, named)) != sorted(map(id, want_unused)):
                viol.append(dict(name="scenario_unused", what="shared scenario %d: the UnusedModules warning names %d modules, %d were left out of the chain" % (
                    t_, len(named), len(want_unused)), case=sc.describe()))
    uniq = {}
    for v in viol:
        uniq.setdefault(v["name"], v)
    return dict(evaluations=evals, distinct_nontrivial=len(distinct),
                rule="overhang alphabet {X, Y, rc(X), palindrome P, Z}: all 25 start/end module types (two distinct objects per "
                     "type), all multisets of <= %d modules plus %d seeded multisets of %d, argument order forward and reversed "
                     "(all permutations of triples in thorough), %d vectors incl. equal, reverse-complementary and palindromic "
                     "overhang pairs, the same object passed twice; outcome (exception class, stalled overhang, product up to "
                     "rotation, UnusedModules content) compared with an oracle on the overhang graph; non-trivial = a product is "
                     "expected" % (maxsize, extra3, maxsize + 1, len(vkeys)),
                bound="multisets <= %d (+ seeded %d), 5 overhangs" % (maxsize, maxsize + 1), samples=samples,
                violations=list(uniq.values())[:20], n_violations=len(uniq))


def replay(ctx, ob, model):
    from contracts.replays import replay as r
    return r(ctx, ob, model)


LEVEL_TEXT = ("Deductive: the four functions that decide the outcome are checked path by path (both dict loops with a ghost "
              "witness, the pop-based walk with a ghost path, every exceptional exit) against contracts stating the verdict as "
              "a function of the overhang graph; lemmas give uniqueness of the walk (base/step), exclusivity of product and "
              "MissingModule, and independence of the argument order, for all multisets and all overhang alphabets.")
LEVEL_NOTE = ("Assumed: entity methods through their abstract view, Seq equality/hash, SeqRecord +, warnings, the induction "
              "rule, the finite-map law behind the walk's termination variant; citation passes assumed here. Bounded part (not proved): 5-overhang alphabet, multisets <= 2 "
              "(3 thorough) with seeded larger ones, against a graph oracle on real BsaI plasmids.")
