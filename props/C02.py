# coding: utf-8
"""C02 -- A plasmid has no origin: typing and assembly are rotation-invariant."""
from __future__ import annotations

import random

from pyvc import term as tm
from pyvc.term import INT, BOOL, STR
from pyvc.solve import Obligation
from pyvc.models import re_at, RE_AT_DEF
from bounded import gen, assembly as ba, entities as be

ID = "C02"
LEVEL = "proof"
RX, REC, S, MOD, VEC = ("moclo/moclo/regex.py", "moclo/moclo/record.py", "moclo/moclo/core/_structured.py",
                        "moclo/moclo/core/modules.py", "moclo/moclo/core/vectors.py")
FILES = [RX, REC, S, MOD, VEC]
FUNCTIONS = [(RX, "DNARegex.search"), (RX, "SeqMatch.group"), (REC, "CircularRecord.__lshift__"),
             (REC, "CircularRecord.__rshift__"), (REC, "CircularRecord.__getitem__"), (S, "StructuredRecord._match"),
             (MOD, "AbstractModule._match"), (VEC, "AbstractVector._match"),
             (MOD, "AbstractModule.overhang_start"), (MOD, "AbstractModule.overhang_end"), (MOD, "AbstractModule.target_sequence"),
             (VEC, "AbstractVector.overhang_start"), (VEC, "AbstractVector.overhang_end"), (VEC, "AbstractVector.target_sequence"),
             (VEC, "AbstractVector.placeholder_sequence"), (S, "StructuredRecord._get_regex")]
ASSUMES = ["D-RE (RE2 locality: a match attempt depends only on the window it may consume)", "D-RESTR", "D-SEQ", "D-REC-SLICE",
           "hypothesis of the statement: exactly one start position admits a match"]
TRUSTED = ["CPython re locality"]
EXPLANATION = ("the functional postconditions of search / group / the entity methods (leftmost start over one-turn windows of the "
               "doubled text; group text = doubled-text slice; target = circ(s, c1, c2-c1)) reduce rotation invariance to string "
               "lemmas: the window at (j+k) mod n of the rotated plasmid is the window at j of the plasmid (hence, by RE2, the same "
               "match with spans shifted by k), a unique start stays unique, and every reported stretch reads the same letters")


def obligations(ctx):
    from props._shared import typing_state_census
    return list(ctx.verify(FUNCTIONS) + ctx.part(lemmas)) + ctx.part(lambda c_: [typing_state_census(c_, 'C02')], 'typing-state census')


def lemmas(ctx):
    out = []
    s = tm.V("s", STR)
    n = tm.slen(s)
    k, j, l, c = tm.V("k", INT), tm.V("j", INT), tm.V("l", INT), tm.V("c", INT)
    r = tm.rot_i(s, k)
    base = [tm.lt(0, n), tm.le(0, k), tm.lt(k, n), tm.le(0, j), tm.lt(j, n)]
    jk = tm.pymod(tm.add(j, k), n)
    # L2: one-turn windows correspond
    out.append(Obligation("C02.L2 the one-turn window at (j+k) mod n of the rotated plasmid is the window at j of the plasmid", base,
                          tm.eq(tm.substr(tm.concat(r, r), jk, n), tm.substr(tm.concat(s, s), j, n)), kind="B",
                          text="window(rot(s,k), (j+k) mod n) = window(s, j)"))
    # L2b: hence the pattern matches at (j+k) mod n of the rotated plasmid iff it matches at j (RE2, by definition of re_at)
    pat = tm.V("pat", STR)
    ob = Obligation("C02.L2b a start of the rotated plasmid matches iff the corresponding start of the plasmid does",
                    base + [tm.eq(tm.substr(tm.concat(r, r), jk, n), tm.substr(tm.concat(s, s), j, n)), tm.eq(tm.slen(r), n)],
                    tm.eq(re_at(pat, tm.concat(r, r), jk, n), re_at(pat, tm.concat(s, s), j, n)), kind="B", defs=[RE_AT_DEF], decls={"re_m": ([STR, STR], BOOL)},
                    text="re_at is a function of the window (RE2)")
    out.append(ob)
    out.append(Obligation("C02.L2c rotation keeps the length", base[:3], tm.eq(tm.slen(r), n), kind="B", text="|rot(s,k)| = |s|"))
    # L3: the start correspondence j -> (j+k) mod n is a bijection of [0,n), so `exactly one matching start` is preserved and
    # the unique start of the rotated plasmid is (j0+k) mod n
    jp = tm.pymod(tm.sub(j, k), n)
    out.append(Obligation("C02.L3 start positions correspond one-to-one", base,
                          tm.and_(tm.le(0, jp), tm.lt(jp, n), tm.eq(tm.pymod(tm.add(jp, k), n), j)), kind="B", solvers=["z3new", "cvc5"],
                          text="every start j of the rotated plasmid is (j'+k) mod n for exactly one j' = (j-k) mod n"))
    # L4: a stretch reported at c (start of a group / cut) with length l reads the same letters after rotation
    out.append(Obligation("C02.L4 every reported stretch (overhang, target, placeholder, matched region) reads the same letters",
                          base[:3] + [tm.le(0, c), tm.lt(c, n), tm.le(0, l), tm.le(l, n)],
                          tm.eq(tm.circ(r, tm.add(c, k), l), tm.circ(s, c, l)), kind="B",
                          text="circ(rot(s,k), c+k, l) = circ(s, c, l): same overhangs, target, placeholder, and the same text handed to the digest screen"))
    # must-fail: without doubling the text, windows at the end of the record are truncated
    out.append(Obligation("C02.MF1 must-fail: windows of the undoubled text do not correspond", base + [tm.lt(0, k)],
                          tm.eq(tm.substr(r, jk, n), tm.substr(s, j, n)), kind="V", expect="sat", text="canned `data *= 2` removed"))
    return out


# ---------------------------------------------------------------------------------------------- bounded
def bounded(ctx):
    from pyvc import native
    from Bio.Seq import Seq
    import importlib
    ns = native.load(ctx.repo_root)
    kits = native.kits(ctx.repo_root)
    core = ns["moclo.core"]
    CircularRecord = ns["moclo.record"].CircularRecord
    rng = random.Random(ctx.seed)
    viol, samples = [], []
    evals = 0
    distinct = set()
    classes = [(c.__module__.split(".")[-1] + "." + c.__name__, c) for c in gen.concrete_classes(kits)]
    enz = gen.qualifying_enzymes()
    for (name, e, m, v) in be.generic_classes(core, enz[::6] if ctx.tier == "quick" else enz):
        classes += [("generic-module[%s]" % name, m), ("generic-vector[%s]" % name, v)]
    # (1) every class x seeded instances x all rotations: same verdict / overhangs / target / placeholder
    refused = []
    for (label, cls) in classes:
        for s in be.class_records(cls, rng, count=1 if ctx.tier == "quick" else 3, run_range=(2, 8)):
            ref = be.observe_entity(cls(CircularRecord(Seq(s), id="r")))
            if ref["valid"] is not True:
                # an instance of the class's own structure that the class refuses as generated (a further site slipped into
                # the random filling): whatever the verdict, it is asked again at the rotations that move the origin through
                # the structure -- a class that accepts it only at some rotation is what this property excludes
                refused.append(label)
                rx_ = cls._get_regex().regex
                if sum(1 for j_ in range(len(s)) if rx_.match(s + s, j_, j_ + len(s))) != 1:
                    continue          # outside the hypothesis: the structure occurs more than once (the filling added a site)
                for r in (1, 2, len(s) // 3, len(s) // 2, len(s) - 2, len(s) - 1):
                    evals += 1
                    obs = be.observe_entity(cls(CircularRecord(Seq(s[-r:] + s[:-r]), id="r")))
                    if obs.get("valid") is True:
                        viol.append(dict(name="typing_refused_%s" % label, what="%s refuses an instance of its structure as generated but accepts it rotated by %d (record %r)" % (
                            label, r, s[:60]), case=dict(cls=label, record=s, k=r), expected=ref, observed=obs))
                        break
                continue
            n = len(s)
            for r in range(1, n):
                evals += 1
                t = s[-r:] + s[:-r]
                obs = be.observe_entity(cls(CircularRecord(Seq(t), id="r")))
                distinct.add((label, r))
                if obs != ref:
                    diff = [k_ for k_ in ref if obs.get(k_) != ref[k_]]
                    viol.append(dict(name="typing_%s" % label, what="%s: record >> %d reports %s = %r, the unrotated record %r (record %r)" % (
                        label, r, diff[0], obs.get(diff[0]), ref[diff[0]], s[:60]), case=dict(cls=label, record=s, k=r), expected=ref, observed=obs))
                    break
    if len(refused) > max(3, len(classes) // 5):
        raise RuntimeError("the stand-in cannot exercise this tree: %d of %d classes refuse the instances generated from their own structure (%s ...)" % (
            len(refused), len(classes), ", ".join(refused[:4])))
    # (1b) records the class REFUSES although its structure occurs exactly once (a further recognition site inside the
    # matched stretch: signature-typed classes, whose fixed overhang letters keep the occurrence unique): the refusal,
    # too, is the same at every rotation
    sig = [(l_, c_) for (l_, c_) in classes if isinstance(getattr(c_, "signature", NotImplemented), tuple)]
    rng2 = random.Random(ctx.seed + 17)
    for (label, cls) in (rng2.sample(sig, min(len(sig), 8)) if ctx.tier == "quick" else sig):
        site = be.enzyme_geometry(cls.cutter)[0]
        for s0 in be.class_records(cls, rng2, count=1, run_range=(8, 14)):
            ref0 = be.observe_entity(cls(CircularRecord(Seq(s0), id="r")))
            if ref0["valid"] is not True or not ref0.get("target"):
                continue
            tgt = ref0["target"]
            at = (s0 + s0).upper().find(tgt.upper())
            if at < 0:
                continue
            mid = (at + len(tgt) // 2) % len(s0)
            for extra in (site, gen.rc(site)):
                s = s0[:mid] + extra + s0[mid:]
                rx = cls._get_regex().regex
                if sum(1 for j_ in range(len(s)) if rx.match(s + s, j_, j_ + len(s))) != 1:
                    continue        # outside the hypothesis: the structure occurs more than once
                ref = be.observe_entity(cls(CircularRecord(Seq(s), id="r")))
                for r in range(1, len(s)):
                    evals += 1
                    obs = be.observe_entity(cls(CircularRecord(Seq(s[-r:] + s[:-r]), id="r")))
                    distinct.add((label, "extra-site", r))
                    if obs.get("valid") != ref.get("valid") or (ref.get("valid") is True and obs != ref):
                        viol.append(dict(name="refusal_%s" % label, what="%s: a record with a further %s site inside the matched stretch is %s, rotated by %d it is %s" % (
                            label, extra, "accepted" if ref.get("valid") is True else "refused (%s)" % (ref.get("error") or ref.get("valid"),), r,
                            "accepted" if obs.get("valid") is True else "refused (%s)" % (obs.get("error") or obs.get("valid"),)),
                                         case=dict(cls=label, record=s, k=r), expected=ref, observed=obs))
                        break
    # (2) assembly products under rotation of every participant
    from Bio.Restriction import BsaI
    Mod = type("BModule", (core.Entry,), dict(cutter=BsaI))
    Vec = type("BVector", (core.EntryVector,), dict(cutter=BsaI))
    ov = ["AACC", "GGAT", "CTAA"]
    texts = [ba.build_module(BsaI, ov[i], ba.clean(rng, 5, BsaI), ov[i + 1], rng) for i in range(2)]
    vtext, vfrag = ba.build_vector(BsaI, ov[2], ov[0], rng)
    allt = [vtext] + texts
    ref = None
    for which in range(3):
        for r in range(len(allt[which])):
            evals += 1
            cur = list(allt)
            cur[which] = ba.rotate(cur[which], r)
            got, prod, _ = ba.run_assembly(Vec(CircularRecord(Seq(cur[0]), id="v")), [Mod(CircularRecord(Seq(t), id="m")) for t in cur[1:]])
            distinct.add(("assembly", which, r))
            if ref is None:
                ref = str(prod.seq) if prod is not None else None
            if got[0] != "product" or not ba.is_rotation(str(prod.seq), ref):
                viol.append(dict(name="assembly_rot_%d" % which, what="assembly with plasmid #%d rotated by %d: %s" % (
                    which, r, "ended with %r" % (got,) if got[0] != "product" else "product is not a rotation of the unrotated product"),
                                 case=dict(which=which, k=r, plasmids=cur)))
                break
    # (3) registry plasmids: rotations that put the origin inside the flanking structure (and a few others)
    try:
        for modname, clsname in (("ytk", "YTKRegistry"), ("cidar", "CIDARRegistry"), ("ecoflex", "EcoFlexRegistry")):
            reg = getattr(importlib.import_module("moclo.registry." + modname), clsname)()
            keys = sorted(reg)
            if ctx.tier == "quick":
                keys = keys[::9]
            for key in keys:
                ent = reg[key].entity
                cls = type(ent)
                s = str(ent.record.seq)
                ref = be.observe_entity(cls(CircularRecord(Seq(s), id="r")))
                if ref["valid"] is not True:
                    continue
                n = len(s)
                m = ent._match
                marks = sorted({m.span(g)[i] % n for g in (0, 1, 2, 3) for i in (0, 1)})
                rots = set()
                for p in marks:
                    for d in (-1, 0, 1, 2):
                        rots.add((n - p + d) % n)
                rots |= {rng.randrange(n) for _ in range(3)}
                for r in sorted(rots):
                    evals += 1
                    t = s[-r:] + s[:-r] if r else s
                    obs = be.observe_entity(cls(CircularRecord(Seq(t), id="r")))
                    distinct.add((clsname, key, r))
                    if obs != ref:
                        diff = [k_ for k_ in ref if obs.get(k_) != ref[k_]]
                        viol.append(dict(name="registry_%s_%s" % (clsname, key), what="%s %s as %s: rotated right by %d reports a different %s" % (
                            clsname, key, cls.__name__, r, diff[0]), case=dict(registry=clsname, key=key, k=r)))
                        break
        samples.append(dict(registry="YTKRegistry", note="origin placed on every group boundary +-2"))
    except Exception as ex:
        viol.append(dict(name="registry_setup", what="registry rotations could not be run: %r" % (ex,), case={}))
    # the shared scenarios: this property's oracle over the cross product of the unusual input dimensions
    from bounded import scenarios as sn
    n_sw, d_sw, v_sw = sn.sweep(ctx, ns, 'rotation')
    evals += n_sw
    distinct |= {("shared",) + tuple(map(str, k_)) for k_ in d_sw}
    viol.extend(v_sw)
    uniq = {}
    for v_ in viol:
        uniq.setdefault(v_["name"], v_)
    return dict(evaluations=evals, distinct_nontrivial=len(distinct),
                rule="" + sn.SWEEP_RULE + "; (1) every concrete kit class and generic classes over enzymes x seeded instances x ALL n rotations: verdict, "
                     "overhangs, target, placeholder identical; (2) a BsaI assembly with each participant at ALL its rotations: "
                     "product equal up to rotation; (3) registry plasmids (YTK, CIDAR, EcoFlex; every 9th in quick) with their own "
                     "class, rotated so that the origin falls on every boundary of the match and its groups (+-2) and at 3 seeded "
                     "positions",
                bound="1 (3) instances per class, all rotations; registry sample", samples=samples,
                violations=list(uniq.values())[:20], n_violations=len(uniq))


def replay(ctx, ob, model):
    from contracts.replays import replay as r
    return r(ctx, ob, model)


LEVEL_TEXT = ("Deductive: search/group/_match/overhangs/targets/placeholder are verified against functional postconditions, and "
              "rotation invariance is then a set of string lemmas proved for all lengths and all k (window correspondence, start "
              "bijection, stretch equality), including every rotation that puts the origin inside a site, an overhang or the target.")
LEVEL_NOTE = ("Assumed: locality of re (RE2), Bio.Restriction (the digest screen sees the same text by L4), uniqueness of the "
              "matching start (hypothesis of the statement). Bounded part (not proved): all rotations of seeded instances of every "
              "class, of one assembly, and boundary rotations of registry plasmids.")
