# coding: utf-8
"""C08 -- Annotations are inherited faithfully by the assembled plasmid."""
from __future__ import annotations

import random

from pyvc import term as tm
from pyvc.term import INT, BOOL, STR
from pyvc.solve import Obligation
from bounded import gen, assembly as ba, entities as be, common as bc

ID = "C08"
LEVEL = "proof"
REC, MOD, VEC, ASM = ("moclo/moclo/record.py", "moclo/moclo/core/modules.py", "moclo/moclo/core/vectors.py",
                      "moclo/moclo/core/_assembly.py")
FILES = [REC, MOD, VEC, ASM]
FUNCTIONS = [(REC, "CircularRecord.__rshift__"), (REC, "CircularRecord.__lshift__"), (REC, "CircularRecord.__getitem__"),
             (REC, "CircularRecord.__init__"), (MOD, "AbstractModule.target_sequence"), (VEC, "AbstractVector.target_sequence"),
             (ASM, "AssemblyManager._generate_assembly")]
ASSUMES = ["D-REC-SLICE: slicing keeps exactly the features whose every part lies in [start, stop) (min/max test), shifted by "
           "-start, qualifiers carried; never truncates", "D-REC-ADD: concatenation shifts the right operand's features by the "
           "length of the left, keeps the left ones", "D-LOC", "D-COPY",
           "map-loop rule for the feature and part loops of __rshift__",
           "the feature table algebra (feats_rot / feats_slice / feats_shift / feats_cat / feats_snoc) is pointwise: its meaning on "
           "one feature is the part map proved for __rshift__ (C13) resp. the assumed D-REC-* contracts"]
TRUSTED = ["Bio.SeqRecord slicing and concatenation of feature tables", "SeqFeature._shift"]
EXPLANATION = ("body VCs give the product's feature table as an algebraic expression of the inputs' tables: per fragment "
               "snoc_source(slice(rot(F, -c1 mod n), lo, hi)), shifted to its offset and concatenated along the walk (loop "
               "invariant with the recursive spec catfeats); lemmas on the generic part: an inherited part denotes the same "
               "nucleotides in the product, a feature with a part outside the fragment is dropped whole, nothing else is added")


def obligations(ctx):
    obs = ctx.verify(FUNCTIONS)
    obs = [o for o in obs if "citation" not in o.name]
    return obs + ctx.part(lemmas)


def lemmas(ctx):
    out = []
    s = tm.V("s", STR)
    n = tm.slen(s)
    c1, L, st, ln, t, off = [tm.V(x, INT) for x in ("c1", "L", "st", "ln", "t", "off")]
    X, Y = tm.V("X", STR), tm.V("Y", STR)
    d = tm.concat(s, s)
    fragm = tm.substr(d, c1, L)                      # module fragment: circ(s, c1, L)
    stp = tm.pymod(tm.sub(st, c1), n)                # start of the part after rotation to the cut (contract of __rshift__/<<)
    hyp = [tm.lt(0, n), tm.le(0, c1), tm.lt(c1, n), tm.le(0, L), tm.le(L, n), tm.le(0, st), tm.lt(st, n), tm.le(0, ln),
           tm.le(0, t), tm.lt(t, ln), tm.le(tm.add(stp, ln), L)]
    # L1: an image part inside the fragment denotes, in the product X.frag.Y at offset |X|, the nucleotides it denoted
    prod = tm.concat(X, fragm, Y)
    out.append(Obligation("C08.L1 an inherited part denotes the same nucleotides in the product", hyp,
                          tm.eq(tm.char_at(prod, tm.add(tm.add(tm.slen(X), stp), t)), tm.char_at(s, tm.pymod(tm.add(st, t), n))), kind="B",
                          text="product[off + ((st-c1) mod n) + t] = source[(st+t) mod n] for every letter t of every part"))
    # L1v: vector fragment = circ(s, c2, n-L') kept slice [L', n) of the record rotated to c1: same statement with c2
    # (the kept interval starts at the second cut); identical arithmetic with c1 := c2
    # L2: dropped whole, never truncated: D-REC-SLICE keeps a feature only if min start >= lo and max end <= hi, hence every part
    lo, hi, pst, pen, lmin, lmax = [tm.V(x, INT) for x in ("lo", "hi", "pst", "pen", "lmin", "lmax")]
    out.append(Obligation("C08.L2 a kept feature has every part inside the fragment (no truncation)",
                          [tm.le(lo, lmin), tm.le(lmax, hi), tm.le(lmin, pst), tm.le(pen, lmax), tm.le(pst, pen)],
                          tm.and_(tm.le(lo, pst), tm.le(pen, hi)), kind="B",
                          text="min/max test of the slice => each part within [lo, hi); shifted by -lo it lies in [0, hi-lo)"))
    out.append(Obligation("C08.L2b a feature with a part outside the fragment is not kept",
                          [tm.le(lmin, pst), tm.le(pen, lmax), tm.or_(tm.lt(pst, lo), tm.lt(hi, pen))],
                          tm.not_(tm.and_(tm.le(lo, lmin), tm.le(lmax, hi))), kind="B", text="dropped whole rather than truncated or shifted"))
    # L1c: the rotation to the cut puts a part that lies inside the retained circular interval at [0, L)
    out.append(Obligation("C08.L1c a part inside the retained interval lands inside the slice after rotation to the cut",
                          [tm.lt(0, n), tm.le(0, c1), tm.lt(c1, n), tm.le(0, st), tm.lt(st, n), tm.le(0, ln), tm.le(0, L), tm.le(L, n),
                           # inside the circular interval [c1, c1+L): offset from the cut plus length fits
                           tm.le(tm.add(tm.pymod(tm.sub(st, c1), n), ln), L)],
                          tm.and_(tm.le(0, stp), tm.le(tm.add(stp, ln), L)), kind="B", solvers=["z3new", "cvc5"],
                          text="0 <= (st-c1) mod n and (st-c1) mod n + len <= L"))
    # L3: offsets of consecutive fragments: the right operand is shifted by the length of the left (D-REC-ADD) -- C09.L1
    # must-fail: shifting features by +i instead of -i on the rotation to the cut does not preserve the letters
    wrong = tm.pymod(tm.add(st, c1), n)
    out.append(Obligation("C08.MF1 must-fail: a part shifted the wrong way denotes other nucleotides",
                          hyp[:10] + [tm.le(tm.add(wrong, ln), L), tm.lt(0, c1)],
                          tm.eq(tm.char_at(fragm, tm.add(wrong, t)), tm.char_at(s, tm.pymod(tm.add(st, t), n))), kind="V", expect="sat",
                          text="canned sign error"))
    return out


# ---------------------------------------------------------------------------------------------- bounded
def plasmid_features(text, rng, inside, n_extra=3):
    """features around the retained stretch `inside` = (start, length) of a plasmid (positions mod n): simple, join,
    origin-independent, either strand, nested, abutting, touching the boundaries from inside and outside"""
    n = len(text)
    a, L = inside
    specs = []

    def rel(off, ln):
        return ((a + off) % n, ln)

    cand = [("in-simple", [rel(1, min(3, L - 1))], 1), ("in-rev", [rel(0, min(2, L))], -1), ("in-whole", [rel(0, L)], 1),
            ("in-end", [rel(max(0, L - 2), min(2, L))], 1), ("out-left", [rel(-1, 3)], 1), ("out-right", [rel(L - 1, 3)], -1),
            ("outside", [rel(L + 2, 3)], 1), ("abut-out", [rel(L, 2)], 1)]
    if L >= 5:
        cand.append(("in-join", [rel(0, 2), rel(3, 2)], 1))
        cand.append(("in-join-rev", [rel(3, 2), rel(0, 2)], -1))
        cand.append(("half-join", [rel(1, 2), rel(L + 1, 2)], 1))
        cand.append(("nested", [rel(1, 1)], 1))
    return cand


def mk_feature(n, name, parts, strand):
    """parts as (start mod n, length): written as Biopython locations, splitting at the origin when needed"""
    from Bio.SeqFeature import SeqFeature, FeatureLocation, CompoundLocation
    locs = []
    for (st, ln) in parts:
        if ln <= 0:
            continue
        if st + ln <= n:
            locs.append(FeatureLocation(st, st + ln, strand=strand))
        else:
            pieces = [FeatureLocation(st, n, strand=strand), FeatureLocation(0, st + ln - n, strand=strand)]
            locs.extend(pieces if strand != -1 else pieces[::-1])
    if not locs:
        return None
    loc = locs[0] if len(locs) == 1 else CompoundLocation(locs)
    return SeqFeature(loc, type="misc_feature", qualifiers={"label": [name], "note": ["n1", "n2"]})


def letters_of(feature, text):
    """the nucleotides (as (index mod n) list in reading order of parts) a feature denotes"""
    n = len(text)
    out = []
    for p in feature.location.parts:
        out.append(tuple((int(p.start) + t) % n for t in range(int(p.end) - int(p.start))))
    return out


def bounded(ctx):
    from pyvc import native
    from Bio.Seq import Seq
    from Bio.Restriction import BsaI, BpiI
    ns = native.load(ctx.repo_root)
    core = ns["moclo.core"]
    CircularRecord = ns["moclo.record"].CircularRecord
    rng = random.Random(ctx.seed)
    viol, samples = [], []
    evals = 0
    distinct = set()
    for e in (BsaI, BpiI):
        site, a, k = be.enzyme_geometry(e)
        Mod = type("GModule", (core.Entry,), dict(cutter=e))
        Vec = type("GVector", (core.EntryVector,), dict(cutter=e))
        ov = []
        while len(ov) < 3:
            o = ba.clean(rng, k, e)
            if o in ov or gen.rc(o) in ov or gen.rc(o) == o:
                continue
            ov.append(o)
        targets, mtexts = [], []
        for i in range(2):
            text = None
            while text is None:
                t_ = ba.clean(rng, 7 - i, e)
                text = ba.build_module(e, ov[i], t_, ov[i + 1], rng, backbone=9)
            targets.append(t_)
            mtexts.append(text)
        vtext, vfrag = None, None
        while vtext is None:
            vtext, vfrag = ba.build_vector(e, ov[2], ov[0], rng, placeholder=5, backbone=9)
        plasmids = []
        for i, t_ in enumerate(mtexts):
            st = t_.index(ov[i] + targets[i])
            plasmids.append(("mod%d" % i, t_, (st, k + len(targets[i]))))
        vst = (vtext + vtext).index(vfrag)
        plasmids.append(("vec", vtext, (vst % len(vtext), len(vfrag))))
        # expected product text and, per plasmid, the offset of its fragment in it
        exp = "".join(ov[i] + targets[i] for i in range(2)) + vfrag
        offs = {"mod0": 0, "mod1": k + len(targets[0]), "vec": 2 * k + len(targets[0]) + len(targets[1])}
        for which in range(3):
            name, text, inside = plasmids[which]
            n = len(text)
            rots = range(n) if ctx.tier != "quick" else sorted(set(list(range(0, n, 4)) + [(n - inside[0]) % n, (n - inside[0] - 1) % n, (n - inside[0] - inside[1]) % n, 1]))
            for r in rots:
                evals += 1
                recs = []
                expected_images = []
                for j, (nm, tx, ins) in enumerate(plasmids):
                    nn = len(tx)
                    feats = []
                    for (fname, parts, strand) in plasmid_features(tx, rng, ins):
                        f = mk_feature(nn, nm + ":" + fname, parts, strand)
                        if f is None:
                            continue
                        feats.append(f)
                        # oracle: inside iff every part lies within the retained circular interval
                        ok = all(((p_st - ins[0]) % nn) + p_ln <= ins[1] for (p_st, p_ln) in parts if p_ln > 0)
                        if ok:
                            img = [tuple((offs[nm] + ((p_st - ins[0]) % nn) + t) % len(exp) for t in range(p_ln)) for (p_st, p_ln) in parts if p_ln > 0]
                            expected_images.append((nm + ":" + fname, strand, img))
                    rec = CircularRecord(Seq(tx), id=nm, name=nm, features=feats, annotations={"topology": "circular", "molecule_type": "DNA"})
                    if j == which and r:
                        rec = rec >> r
                    recs.append(rec)
                vec = Vec(recs[2])
                got, prod, _ = ba.run_assembly(vec, [Mod(recs[1]), Mod(recs[0])])
                distinct.add((e.__name__, which, r))
                if got[0] != "product":
                    viol.append(dict(name="outcome_%s" % e.__name__, what="annotated assembly ended with %r" % (got,), case={}))
                    continue
                ptext = str(prod.seq)
                shift = (ptext + ptext).upper().find(exp.upper())
                if shift < 0:
                    viol.append(dict(name="seq_%s" % e.__name__, what="product sequence is not the expected one", case={}))
                    continue
                got_feats = []
                for f in prod.features:
                    if f.type == "source" and "plasmid" in f.qualifiers:
                        continue
                    label = f.qualifiers.get("label", ["?"])[0]
                    # positions relative to the expected text
                    imgs = [tuple((q - shift) % len(exp) for q in part) for part in letters_of(f, ptext)]
                    strand = f.location.parts[0].strand
                    got_feats.append((label, strand, imgs, f.type, repr(sorted(f.qualifiers.items()))))
                pb = []
                exp_by = {x[0]: x for x in expected_images}
                got_by = {}
                for g in got_feats:
                    got_by.setdefault(g[0], []).append(g)
                for lab, (nm_, strand, img) in exp_by.items():
                    gs = got_by.get(lab, [])
                    if len(gs) != 1:
                        pb.append("%s lies inside the retained fragment but appears %d times in the product" % (lab, len(gs)))
                        continue
                    g = gs[0]
                    flat = lambda parts_: sorted(q for part in parts_ for q in part)
                    # (a part written across the origin of its source is two Biopython parts denoting the same letters)
                    if flat(g[2]) != flat(img) or bc.norm_strand(g[1]) != strand:
                        pb.append("%s denotes %r strand %r in the product, expected %r strand %r" % (lab, g[2], g[1], img, strand))
                    if g[3] != "misc_feature" or "n1" not in g[4]:
                        pb.append("%s lost its type or qualifiers" % lab)
                for lab in got_by:
                    if lab not in exp_by:
                        pb.append("%s is in the product although it overlaps a discarded region (or is no input feature)" % lab)
                if pb:
                    viol.append(dict(name="features_%s_%d" % (e.__name__, which), what="%s, plasmid %s rotated right by %d: %s" % (
                        e.__name__, name, r, "; ".join(pb[:3])), case=dict(enzyme=e.__name__, plasmid=name, k=r), observed=pb[:6]))
                    break
                if len(samples) < 2 and r:
                    samples.append(dict(enzyme=e.__name__, plasmid=name, k=r, inherited=sorted(exp_by)[:6]))
    # the shared scenarios: this property's oracle over the cross product of the unusual input dimensions
    from bounded import scenarios as sn
    n_sw, d_sw, v_sw = sn.sweep(ctx, ns, 'features')
    evals += n_sw
    distinct |= {("shared",) + tuple(map(str, k_)) for k_ in d_sw}
    viol.extend(v_sw)
    uniq = {}
    for v_ in viol:
        uniq.setdefault(v_["name"], v_)
    return dict(evaluations=evals, distinct_nontrivial=len(distinct),
                rule="" + sn.SWEEP_RULE + "; BsaI and BpiI vector + 2 modules, each plasmid carrying 8-12 features placed relative to its retained stretch "
                     "(simple, reverse strand, whole fragment, at the end, crossing the left/right boundary, outside, abutting outside, "
                     "2-part joins on either strand, a join with one part outside, nested), written as origin-spanning joins when the "
                     "rotation requires; one plasmid at a time rotated through every rotation (quick: every 4th plus the boundary "
                     "ones); product features compared with the oracle through the nucleotides they denote (positions modulo the "
                     "product length), strand, type, qualifiers; features overlapping a discarded region must be absent",
                bound="2 enzymes x 3 plasmids x all rotations", samples=samples, violations=list(uniq.values())[:20], n_violations=len(uniq))


def replay(ctx, ob, model):
    from contracts.replays import replay as r
    return r(ctx, ob, model)


LEVEL_TEXT = ("Deductive: the product's feature table is derived, function by function, as an algebraic expression over the "
              "inputs' tables (rotation to the cut by the verified part map of __rshift__, slice, source feature, shift, "
              "concatenation along the walk with a loop invariant), and the pointwise lemmas show that an inherited part denotes "
              "the same nucleotides, that features reaching outside a fragment are dropped whole, and that nothing else is added; "
              "slicing/concatenation of feature tables is Biopython code and is assumed.")
LEVEL_NOTE = ("Assumed: D-REC-SLICE / D-REC-ADD / D-LOC, map-loop rule, pointwise reading of the feature algebra. Bounded part (not "
              "proved): 2 enzymes x 3 plasmids x rotations with rich feature tables against a denotation oracle.")
