# coding: utf-8
"""C16 -- DNA pattern search has exact IUPAC, circular and group-extraction semantics."""
from __future__ import annotations

import itertools
import re

from pyvc import term as tm
from pyvc.term import INT, BOOL, STR
from pyvc.solve import Obligation
from pyvc.models import re_at, RE_AT_DEF
from contracts import regex_c
from contracts.replays import replay  # noqa: F401  (used by the runner)

ID = "C16"
LEVEL = "proof"
CROSSCHECK = True   # run the CPython cross-check of the executor encoding (pyvc/crosscheck.py)
FILES = ["moclo/moclo/regex.py"]
F = "moclo/moclo/regex.py"
FUNCTIONS = [(F, "DNARegex._transcribe"), (F, "DNARegex.__init__"), (F, "DNARegex.search"), (F, "SeqMatch.group"),
             (F, "SeqMatch.span"), (F, "SeqMatch.start"), (F, "SeqMatch.end"), (F, "SeqMatch.__init__")]
ASSUMES = ["D-RE", "RE4: under (?i) a class [XYZ] matches exactly the letters X, Y, Z in either case "
                   "(enumerated completely against the real `re` for the 15 codes by the bounded part)"]
TRUSTED = ["CPython re (assumed contract D-RE)", "Bio.Seq / SeqRecord slicing and concatenation (D-SEQ, D-REC-*)"]
EXPLANATION = ("body VCs of _transcribe/__init__/search/group/span/start/end against contracts taken from the "
               "statement; lemma: the postcondition of search establishes the precondition of group; IUPAC "
               "table enumerated completely against the real re; short targets enumerated exhaustively")


def frame_census(ctx):
    """F: nothing in regex.py outlives a call except what the constructors store on the object they build"""
    from pyvc import frames
    mi = ctx.repo.modules.get(F)
    bad = []
    if mi is not None:
        bad = frames.check_frame(mi, F, (), self_rebind_in=lambda q: q.endswith(".__init__")) + frames.memoised(mi, F)
    return [Obligation("C16.F1 search/group/span keep no state: no store reaches the pattern object, its class, a module-level "
                       "name or an argument", [], tm.B(not bad), kind="F", text="stores: %s" % bad,
                       meta=dict(function="census", clause="F1", detail=bad))]


def obligations(ctx):
    obs = ctx.verify(FUNCTIONS)
    obs += ctx.part(lemmas)
    obs += ctx.part(literal)
    obs += ctx.part(frame_census)
    return obs


def literal(ctx):
    """C: the real `_lettermap` literal (read from the AST), looked up as _transcribe does, gives for every
    letter the class of the statement's IUPAC table"""
    from pyvc.values import State, VT
    from pyvc.symex import Frame
    ex = ctx.executor()
    st = State()
    letter = tm.V("letter", STR)
    mod = ctx.repo.module(F)
    outs = ex.class_attr("DNARegex", "_lettermap", st, Frame(mod))
    (s1, tag, d) = outs[0]
    got = ex.call(ex.models.value_method(ex, s1, d, "get"), [VT(letter), VT(letter)], {}, s1, Frame(mod))
    (s2, tag2, v) = got[0]
    ob = Obligation("C16.C1 _lettermap agrees with the IUPAC table for every letter", [tm.eq(tm.slen(letter), 1)],
                    tm.eq(v.t, regex_c.tr1_term(letter)), kind="C", model_terms=dict(letter=letter),
                    text="cls._lettermap.get(letter, letter) == table(letter) for all one-letter strings",
                    meta=dict(function="DNARegex._lettermap", file=F, clause="lettermap"))
    return [ob]


def lemmas(ctx):
    """B: what search returns satisfies INV_SeqMatch, the precondition of group (so every group of a
    *reported* match is exactly the text it matched, also across the origin)."""
    out = []
    text, pos, endpos = tm.V("text", STR), tm.V("pos", INT), tm.V("endpos", INT)
    doubled = tm.V("doubled", BOOL)
    start, ln = tm.V("start", INT), tm.V("len", INT)
    n = tm.slen(text)
    H = tm.imin(n, endpos)
    # the clauses of Search.ensures for a non-None result, over plain symbols
    post = [tm.le(0, pos), tm.le(pos, start), tm.lt(start, H), tm.le(0, ln), tm.le(ln, n),
            tm.implies(tm.not_(doubled), tm.le(tm.add(start, ln), n))]
    inv = tm.and_(tm.le(0, start), tm.lt(start, n), tm.le(0, ln), tm.le(ln, n))
    out.append(Obligation("C16.L3a search-post establishes inv_seqmatch (group precondition)", post, inv, kind="B",
                          text="search ensures => SeqMatch.group requires"))
    # group text, read on the circle: for a span inside one turn the doubled-text slice is the circular reading
    s0, s1 = tm.V("s0", INT), tm.V("s1", INT)
    hyp = [tm.lt(0, n), tm.le(0, s0), tm.lt(s0, n), tm.le(s0, s1), tm.le(tm.sub(s1, s0), n)]
    out.append(Obligation("C16.L3b doubled-text slice is the circular reading", hyp,
                          tm.eq(tm.substr(tm.concat(text, text), s0, tm.sub(s1, s0)), tm.circ(text, s0, tm.sub(s1, s0))),
                          kind="B", text="data'[s0:s1] = circ(text, s0, s1-s0)"))
    # must-fail (vacuity guard): the swapped concatenation is NOT the matched text
    rec = tm.V("rec", STR)
    nn = tm.slen(rec)
    bad = tm.concat(tm.pyslice(rec, None, tm.pymod(s1, nn)), tm.pyslice(rec, s0, None))
    hyp2 = [tm.lt(0, nn), tm.le(0, s0), tm.lt(s0, nn), tm.le(nn, s1), tm.le(tm.sub(s1, s0), nn)]
    out.append(Obligation("C16.MF1 must-fail: head/tail swapped group is refuted", hyp2,
                          tm.eq(bad, tm.substr(tm.concat(rec, rec), s0, tm.sub(s1, s0))), kind="V", expect="sat",
                          text="canned wrong body must be refuted"))
    return out


# ---------------------------------------------------------------------------------------------- bounded
def bounded(ctx):
    from pyvc import native
    from bounded import gen as gen_
    from Bio.Seq import Seq
    from Bio.SeqRecord import SeqRecord
    ns = native.load(ctx.repo_root)
    DNARegex = ns["moclo.regex"].DNARegex
    CircularRecord = ns["moclo.record"].CircularRecord
    viol = []
    evals = 0
    distinct = set()
    samples = []
    # (1) exhaustive: 15 codes x {A,C,G,T and all other IUPAC letters} x 2 cases, against the statement's table
    letters = "ACGTRYSWKMBDHVN"
    for code in letters:
        rx = DNARegex(code)
        for nt in letters:
            for cased in (nt, nt.lower()):
                evals += 1
                got = rx.search(Seq(cased)) is not None
                if nt in "ACGT":
                    want = nt in regex_c.IUPAC[code]
                    distinct.add(("iupac", code, cased))
                    if got != want:
                        viol.append(dict(name="iupac_%s_%s" % (code, cased), what="IUPAC code %s vs letter %s: matches=%s, table says %s" % (code, cased, got, want),
                                         case=dict(pattern=code, target=cased), expected=want, observed=got))
        # either letter case, for every letter a sequence may contain (the ambiguity letters too: a plasmid with an unknown
        # base spelled `n` is the plasmid with that base spelled `N`)
        for nt in letters:
            evals += 1
            up_, lo_ = rx.search(Seq(nt)) is not None, rx.search(Seq(nt.lower())) is not None
            if up_ != lo_:
                viol.append(dict(name="case_%s_%s" % (code, nt), what="IUPAC code %s: text letter %s matches=%s but %s matches=%s" % (
                    code, nt, up_, nt.lower(), lo_), case=dict(pattern=code, target=nt), expected=up_, observed=lo_))
    samples.append(dict(kind="iupac-table", pattern="R", target="g", matches=DNARegex("R").search(Seq("g")) is not None))
    # (2) all targets up to length L over ACGT x pattern family x ranges x 4 target kinds
    L = 5 if ctx.tier == "quick" else 6
    patterns = ["(A)", "(AC)", "A(N*)T", "(N)(N*?)(G)", "C(NN)", "(R)(Y)", "(N*)", "G(N*?)G(N)", "(NNN)",
                # the other regex operators pass through unchanged, each letter still standing for its own set: runs of one
                # code followed by an optional marker, a one-or-more marker, a counted repeat
                "(A)NN?(T)", "(R)(N+)", "A(NN{1,2})", "(YY{2})", "(A|CC)(N)"]
    if ctx.tier != "quick":
        patterns += ["(A)(N*)(C)(N*?)(T)", "(W)(S)(N*)", "(N)(N)(N)(N)", "(S)(WW?)(N*?)(S)", "(NNN+?)(G)"]
    for pat in patterns:
        try:
            rx = DNARegex(pat)
        except Exception as e:
            viol.append(dict(name="pattern_refused", what="DNARegex(%r) raised %r" % (pat, e), case=dict(pattern=pat)))
            continue
        # independent reference: every IUPAC letter replaced by the class of the nucleotides it stands for, nothing else touched
        cre = re.compile("(?i)" + "".join("[%s]" % gen_.IUPAC[c_.upper()] if c_.upper() in gen_.IUPAC else c_ for c_ in pat))
        ngroups = cre.groups
        for n in range(1, L + 1):
            for tup in itertools.product("ACGT", repeat=n):
                s = "".join(tup)
                for kind in ("seq-linear", "seq-circular", "record", "circular-record"):
                    circ = kind in ("seq-circular", "circular-record")
                    if kind.startswith("seq"):
                        tgt = Seq(s)
                    elif kind == "record":
                        tgt = SeqRecord(Seq(s), id="x")
                    else:
                        tgt = CircularRecord(Seq(s), id="x")
                    ranges = [(0, None)] if ctx.tier == "quick" and n > 3 else [(0, None), (1, None), (0, n - 1), (n - 1, n + 3)]
                    for (pos, endpos) in ranges:
                        evals += 1
                        kw = dict(pos=pos)
                        if endpos is not None:
                            kw["endpos"] = endpos
                        if kind == "seq-circular":
                            kw["linear"] = False
                        try:
                            m = rx.search(tgt, **kw)
                        except Exception as e:
                            viol.append(dict(name="search_raises", what="search raised %r on %r %r %r" % (e, pat, s, kw),
                                             case=dict(pattern=pat, target=s, kind=kind, kw=kw)))
                            continue
                        # oracle: leftmost start whose one-turn window matches; group text from re on the window
                        data = s + s if circ else s
                        H = min(n, endpos if endpos is not None else n)
                        want = None
                        for j in range(pos, H):
                            w = data[j:j + n]
                            mm = cre.match(w)
                            if mm is not None:
                                want = (j, mm)
                                break
                        if (m is None) != (want is None):
                            viol.append(dict(name="search_none", what="search None-ness differs: %r on %s %r %r" % (pat, kind, s, kw),
                                             case=dict(pattern=pat, target=s, kind=kind, kw=kw),
                                             expected=None if want is None else want[0], observed=None if m is None else m.start()))
                            continue
                        if m is None:
                            continue
                        j, mm = want
                        distinct.add((pat, s, kind, pos, endpos))
                        ok = m.start() == j and m.end() == j + mm.end() and m.end() - m.start() <= n and (circ or m.end() <= n)
                        texts_ok = True
                        got_texts = []
                        for g in range(0, ngroups + 1):
                            gt = str(getattr(m.group(g), "seq", m.group(g)))
                            got_texts.append(gt)
                            if gt != mm.group(g) or m.span(g) != (j + mm.start(g), j + mm.end(g)):
                                texts_ok = False
                        if len(samples) < 4 and circ and m.end() > n:
                            samples.append(dict(kind="wrapping-match", pattern=pat, target=s, target_kind=kind, kw=kw,
                                                start=m.start(), end=m.end(), groups=got_texts))
                        if not (ok and texts_ok):
                            viol.append(dict(
                                name="search_%s_%s_%s" % (re.sub(r"\W", "_", pat), s, kind),
                                what="DNARegex(%r).search(%s %r, %r): start/end/groups differ from the matched text" % (pat, kind, s, kw),
                                case=dict(pattern=pat, target=s, kind=kind, kw=kw),
                                expected=dict(start=j, end=j + mm.end(), groups=[mm.group(g) for g in range(ngroups + 1)]),
                                observed=dict(start=m.start(), end=m.end(), groups=got_texts)))
    # (4) patterns that begin with a literal word (every structure of a module begins with its recognition site):
    # one and two occurrences of the word, every rotation (the word across the origin), upper / lower / partly lower
    # / per-letter mixed spellings; oracle = leftmost start whose one-turn window matches, as in (2)
    import random as _random
    rng4 = _random.Random(ctx.seed)
    anchored_n = 0
    for word in ("ACGT", "GGTCTC", "GAAGAC", "CACCTGC"):
        pat = word + "N(NN)(N*?)(R)"
        rx = DNARegex(pat)
        cre = re.compile(DNARegex._transcribe(pat)) if hasattr(DNARegex, "_transcribe") else rx.regex
        fill = lambda k: "".join(rng4.choice("ACGT") for _ in range(k))
        texts = [word + "TAC" + fill(5) + "A", word + "TAC" + fill(3) + "G" + word + "CTT" + fill(2) + "A"]
        for base in texts:
            n = len(base)
            first = base.upper().find(word)
            for k in range(n):
                rot = base[k:] + base[:k]
                spellings = {rot, rot.lower(), "".join(c.lower() if rng4.random() < 0.5 else c for c in rot)}
                # only the first occurrence of the word in lower case, the rest upper (and the converse)
                j0 = (first - k) % n
                idx = {(j0 + t) % n for t in range(len(word))}
                spellings.add("".join(c.lower() if i in idx else c for i, c in enumerate(rot)))
                spellings.add("".join(c if i in idx else c.lower() for i, c in enumerate(rot)))
                for sp in sorted(spellings):
                    for kind in ("seq-linear", "seq-circular", "circular-record"):
                        circ = kind != "seq-linear"
                        for pos in (0, 1):
                            tgt = CircularRecord(Seq(sp), id="x") if kind == "circular-record" else Seq(sp)
                            kw = dict(pos=pos)
                            if kind == "seq-circular":
                                kw["linear"] = False
                            evals += 1
                            anchored_n += 1
                            data = sp + sp if circ else sp
                            want = None
                            for j in range(pos, n):
                                mm = cre.match(data[j:j + n])
                                if mm is not None:
                                    want = (j, j + mm.end(), [mm.group(g) for g in range(cre.groups + 1)])
                                    break
                            try:
                                m = rx.search(tgt, **kw)
                                got = None if m is None else (m.start(), m.end(), [str(getattr(m.group(g), "seq", m.group(g)))
                                                                                    for g in range(cre.groups + 1)])
                            except Exception as e:
                                got = "raised %r" % (e,)
                            if want is not None:
                                distinct.add((pat, sp, kind, pos))
                            if got != want and len(viol) < 60:
                                viol.append(dict(name="anchored_%s_%s" % (word, kind),
                                                 what="DNARegex(%r).search(%s %r, %r) gives %r, the leftmost one-turn match is %r" % (
                                                     pat, kind, sp, kw, got, want),
                                                 case=dict(pattern=pat, target=sp, kind=kind, kw=kw), expected=want, observed=got))
    # (3) re-use: the same pattern object asked about the same target object with different arguments, every ordered
    # pair of argument sets; each answer must be the one a fresh pattern gives for a fresh target
    def outcome(m):
        if m is None:
            return None
        return (m.start(), m.end(), [str(getattr(m.group(g), "seq", m.group(g))) for g in range(0, m.match.re.groups + 1)]
                if hasattr(m, "match") else None)

    reuse_n = 0
    for pat in ("A(N)", "(N)C", "AN*C", "(C)(A)"):
        for n in (2, 3):
            for tup in itertools.product("AC", repeat=n):
                s = "".join(tup)
                kws = [dict(pos=p_, linear=l_, **({} if e_ is None else dict(endpos=e_)))
                       for p_ in (0, 1) for l_ in (True, False) for e_ in (None, n - 1)]
                for kind in ("seq", "record", "circular-record"):
                    mk = {"seq": lambda: Seq(s), "record": lambda: SeqRecord(Seq(s), id="x"),
                          "circular-record": lambda: CircularRecord(Seq(s), id="x")}[kind]
                    for k1 in kws:
                        for k2 in kws:
                            rx, tgt = DNARegex(pat), mk()
                            try:
                                rx.search(tgt, **k1)
                                got = outcome(rx.search(tgt, **k2))
                                want = outcome(DNARegex(pat).search(mk(), **k2))
                            except Exception as e:
                                got, want = "raised %r" % (e,), "no exception"
                            evals += 1
                            reuse_n += 1
                            if got != want and len(viol) < 40:
                                viol.append(dict(name="reuse_%s_%s_%s" % (re.sub(r"\W", "_", pat), s, kind),
                                                 what="the same DNARegex(%r) on the same %s %r: search(%r) after search(%r) gives %r, a fresh "
                                                      "pattern on a fresh target gives %r" % (pat, kind, s, k2, k1, got, want),
                                                 case=dict(pattern=pat, target=s, kind=kind, first=k1, second=k2),
                                                 expected=want, observed=got))
    return dict(evaluations=evals, distinct_nontrivial=len(distinct), reuse_pairs=reuse_n, anchored=anchored_n,
                rule="(4) patterns beginning with a literal word of 4-7 letters on texts with one and two occurrences of it, every "
                     "rotation, five spellings (upper, lower, per-letter mixed, only the first occurrence lower, all but it lower); (1) every (code, letter, case) triple of the IUPAC table, exhaustively; (3) the same pattern object "
                     "on the same target object, every ordered pair of argument sets (pos, endpos, linear) on targets over AC "
                     "of length 2-3, against a fresh pattern on a fresh target; (2) every target over "
                     "ACGT up to length %d x %d patterns x start ranges x {Seq linear, Seq circular, SeqRecord, "
                     "CircularRecord}; non-trivial = the search reports a match (distinct by pattern, target, kind, range)" % (L, len(patterns)),
                bound="targets <= %d letters; %d patterns with 1-5 groups and greedy/lazy runs" % (L, len(patterns)),
                exhaustive="IUPAC table 15 codes x 15 letters x 2 cases: complete", samples=samples, violations=viol[:20],
                n_violations=len(viol))

LEVEL_TEXT = ("Deductive: every path of _transcribe, DNARegex.__init__, search, group, span/start/end is checked against "
              "contracts taken from the statement (leftmost start, one-turn window, group text = matched text incl. "
              "origin-crossing), for all lengths/spans/ranges; the letter semantics of `re` is assumed (D-RE) and the "
              "statement's finite IUPAC table is enumerated completely against the real re on every run.")
LEVEL_NOTE = ("Assumed: CPython re (RE1 spans inside the match, RE2 locality, RE4 class/case semantics), Bio.Seq/SeqRecord "
              "slicing and concatenation (D-SEQ, D-REC-SLICE/ADD), executor encoding of the Python subset, map/loop rules, "
              "solvers. Bounded part (labelled bounded, not counted as proved): all targets <= 5 (6 thorough) letters.")
