# coding: utf-8
"""C17 -- Validation is total and failures are always reported as MoClo errors."""
from __future__ import annotations

import itertools
import random
import re

from pyvc import term as tm
from pyvc.term import INT, BOOL, STR
from pyvc.solve import Obligation
from bounded import gen, assembly as ba, entities as be

ID = "C17"
LEVEL = "proof"
S, MOD, VEC, ASM, RX = ("moclo/moclo/core/_structured.py", "moclo/moclo/core/modules.py", "moclo/moclo/core/vectors.py",
                        "moclo/moclo/core/_assembly.py", "moclo/moclo/regex.py")
FILES = [S, MOD, VEC, ASM, "moclo/moclo/errors.py"]
FUNCTIONS = [(S, "StructuredRecord.is_valid"), (S, "StructuredRecord._match"), (S, "StructuredRecord._get_regex"),
             (MOD, "AbstractModule._match"), (VEC, "AbstractVector._match"),
             (MOD, "AbstractModule.overhang_start"), (MOD, "AbstractModule.overhang_end"), (MOD, "AbstractModule.target_sequence"),
             (VEC, "AbstractVector.overhang_start"), (VEC, "AbstractVector.overhang_end"), (VEC, "AbstractVector.target_sequence"),
             (VEC, "AbstractVector.placeholder_sequence"), (RX, "DNARegex.search"), (RX, "SeqMatch.group"),
             (ASM, "AssemblyManager.__init__"), (ASM, "AssemblyManager._generate_modules_map"),
             (ASM, "AssemblyManager._generate_assembly"), (ASM, "AssemblyManager.assemble"), (VEC, "AbstractVector.assemble")] + [
             ("moclo/moclo/errors.py", q_) for q_ in (
                 "InvalidSequence.__init__", "InvalidSequence.__str__", "DuplicateModules.__init__", "DuplicateModules.__str__",
                 "MissingModule.__init__", "MissingModule.__str__", "UnusedModules.__init__", "UnusedModules.__str__")] + [
             ("moclo/moclo/core/_utils.py", "cutter_check"), (MOD, "AbstractModule.__new__"), (VEC, "AbstractVector.__new__"),
             ("moclo/moclo/core/parts.py", "AbstractPart.__new__")]
ASSUMES = ["D-RE (re.match raises nothing on str input)", "D-RESTR (catalyse raises nothing on IUPAC text)", "D-SEQ", "D-CACHE",
           "D-REC-SLICE", "D-REC-ADD", "exceptions a dependency contract does not list are not possible by assumption",
           "citation passes assumed not to raise on well-formed citations (C10)"]
TRUSTED = ["exception behaviour of Biopython / re / property_cached on the inputs moclo passes them"]
EXPLANATION = ("every exceptional exit the executor enumerates along the typing and assembly call graph is checked against the "
               "`raises` clauses: is_valid raises nothing and returns the verdict; overhang/target/placeholder raise only "
               "InvalidSequence (incl. IllegalSite) and exactly when not valid; assemble raises only InvalidSequence / "
               "DuplicateModules / MissingModule; every potential AttributeError/KeyError/IndexError/TypeError/ZeroDivisionError "
               "site is a path that must be infeasible (`raises:unlisted`)")


def obligations(ctx):
    obs = ctx.verify(FUNCTIONS)
    keep = [o for o in obs if "errors.py" in o.name or "__new__" in o.name or "cutter_check" in o.name or any(k in o.name for k in ("raises", "cover", "call-pre", "divisor", "true-iff", "inv_cache"))]
    errors_ok = ctx.part(error_taxonomy)
    from props._shared import typing_state_census
    return list(keep + errors_ok) + ctx.part(lambda c_: [typing_state_census(c_, 'C17')], 'typing-state census')


def error_taxonomy(ctx):
    """C: the documented taxonomy -- IllegalSite < InvalidSequence < MocloError; DuplicateModules, MissingModule < AssemblyError"""
    ex = ctx.executor()
    out = []
    for cls, base in (("IllegalSite", "InvalidSequence"), ("InvalidSequence", "MocloError"), ("InvalidSequence", "ValueError"),
                      ("DuplicateModules", "AssemblyError"), ("MissingModule", "AssemblyError"), ("AssemblyError", "MocloError"),
                      ("UnusedModules", "AssemblyWarning"), ("AssemblyWarning", "Warning")):
        ok = ex.is_subkind(cls, base)
        out.append(Obligation("C17.C1[%s < %s] documented error taxonomy" % (cls, base), [], tm.B(ok), kind="C",
                              text="errors.%s derives from %s" % (cls, base), meta=dict(function="errors", clause="taxonomy")))
    return out


# ---------------------------------------------------------------------------------------------- bounded
IUPAC30 = "ACGTRYSWKMBDHVN" + "acgtryswkmbdhvn"


def bounded(ctx):
    from pyvc import native
    from Bio.Seq import Seq
    ns = native.load(ctx.repo_root)
    kits = native.kits(ctx.repo_root)
    errors = ns["moclo.errors"]
    core = ns["moclo.core"]
    CircularRecord = ns["moclo.record"].CircularRecord
    rng = random.Random(ctx.seed)
    classes = [(c.__module__.split(".")[-1] + "." + c.__name__, c) for c in gen.concrete_classes(kits)]
    enz = gen.qualifying_enzymes()
    gens = be.generic_classes(core, enz if ctx.tier != "quick" else enz[::4])
    for (name, e, m, v) in gens:
        classes.append(("generic-module[%s]" % name, m))
        classes.append(("generic-vector[%s]" % name, v))
    viol, samples = [], []
    evals = 0
    distinct = set()
    # record pool: all words <= 2 over the cased IUPAC alphabet (3 in thorough), seeded long words, structure near-misses
    pool = ["".join(t) for n in (1, 2) for t in itertools.product(IUPAC30, repeat=n)]
    if ctx.tier != "quick":
        pool += ["".join(t) for t in itertools.product("ACGTNacgtn", repeat=3)]
    else:
        pool = pool[::7] + pool[:30]
    for L in (5, 17, 60, 200):
        for _ in range(3 if ctx.tier == "quick" else 8):
            pool.append("".join(rng.choice(IUPAC30) for _ in range(L)))
            pool.append("".join(rng.choice("ACGT") for _ in range(L)))

    # every enzyme of Bio.Restriction ("generic classes over all enzymes"), not only the family the assembly properties speak of:
    # asking a generic module / vector class whether a record is valid answers True or False.  (A blunt or unknown cutter is
    # refused when the wrapper is constructed, with the ValueError the constructor documents: there is no object to ask.)
    import Bio.Restriction as R_
    groups = {}
    long_text = "".join(random.Random(ctx.seed + 5).choice("ACGT") for _ in range(64))
    for ename in sorted(R_.AllEnzymes.elements()):
        e_ = getattr(R_, ename)
        kind = "5'" if e_.is_5overhang() else "3'" if e_.is_3overhang() else "blunt" if e_.is_blunt() else "unknown"
        for base_, role in ((core.Entry, "module"), (core.EntryVector, "vector")):
            C_ = type("Generic", (base_,), dict(cutter=e_))
            for text in ("ACGTACGTTTGACCAGT", long_text):
                evals += 1
                try:
                    ent = C_(CircularRecord(Seq(text), id="r"))
                except (ValueError, NotImplementedError):
                    break
                try:
                    v = ent.is_valid()
                    bad = None if v is True or v is False else "returned %r" % (v,)
                except Exception as ex:
                    bad = "raised %s.%s (%s)" % (type(ex).__module__, type(ex).__name__, re.sub(r"\d+", "#", str(ex))[:60])
                if bad:
                    groups.setdefault((kind, bad), []).append((ename, role))
                    break
        distinct.add(("all-enzymes", kind))
    for (kind, bad), where in sorted(groups.items()):
        names = sorted({n_ for n_, _ in where})
        viol.append(dict(name="all_enzymes_%s_%s" % (kind.strip("'"), re.sub(r"\W+", "_", bad)[:40]),
                         what="is_valid() of a generic %s class over a %s-overhang enzyme %s: %d enzymes, e.g. %s" % (
                             "/".join(sorted({r_ for _, r_ in where})), kind, bad, len(names), ", ".join(names[:3])),
                         case=dict(enzymes=names[:20], kind=kind, record="ACGTACGTTTGACCAGT")))

    def probe(label, cls, text):
        nonlocal evals
        evals += 1
        ent = cls(CircularRecord(Seq(text), id="r"))
        try:
            v = ent.is_valid()
        except Exception as ex:
            viol.append(dict(name="is_valid_%s" % label, what="%s.is_valid() raised %r on %r" % (label, ex, text[:60]), case=dict(cls=label, record=text)))
            return None
        if v not in (True, False):
            viol.append(dict(name="is_valid_%s" % label, what="%s.is_valid() returned %r" % (label, v), case=dict(cls=label, record=text)))
        names = ["overhang_start", "overhang_end", "target_sequence"] + (["placeholder_sequence"] if hasattr(ent, "placeholder_sequence") else [])
        for nm in names:
            try:
                getattr(ent, nm)()
                raised = None
            except errors.InvalidSequence:
                raised = "InvalidSequence"
            except Exception as ex:
                raised = repr(ex)
            if v is False and raised != "InvalidSequence":
                viol.append(dict(name="invalid_%s_%s" % (nm, label), what="%s on a record it does not accept: %s() %s" % (
                    label, nm, "returned a value" if raised is None else "raised " + raised), case=dict(cls=label, record=text)))
            if v is True and raised is not None:
                viol.append(dict(name="valid_%s_%s" % (nm, label), what="%s accepts %r but %s() raised %s" % (label, text[:60], nm, raised),
                                 case=dict(cls=label, record=text)))
        return v

    for (label, cls) in classes:
        for text in pool if ctx.tier != "quick" else rng.sample(pool, min(len(pool), 40)):
            probe(label, cls, text)
        # instances and all one-letter corruptions of one instance (thorough) / a sample (quick)
        for s in be.class_records(cls, rng, count=1):
            if probe(label, cls, s):
                distinct.add((label, "instance"))
            positions = range(len(s)) if ctx.tier != "quick" else rng.sample(range(len(s)), min(len(s), 12))
            for j in positions:
                for ch in ("N", "a") if ctx.tier == "quick" else "ACGTN":
                    if ch != s[j]:
                        probe(label, cls, s[:j] + ch + s[j + 1:])
                        distinct.add((label, j, ch))
            probe(label, cls, s[: len(s) // 2])
            # degenerate instances: the two overhang groups spell the same word (an entity assemble() would refuse, or one
            # that closes on itself), the target is as short as the structure allows, the overhangs are palindromes
            try:
                inst_, spans_ = gen.instance(cls.structure(), rng, run=rng.randint(2, 6), avoid=(be.enzyme_geometry(cls.cutter)[0], gen.rc(be.enzyme_geometry(cls.cutter)[0])))
                if 1 in spans_ and 3 in spans_ and spans_[1][1] - spans_[1][0] == spans_[3][1] - spans_[3][0]:
                    w1_ = inst_[spans_[1][0]:spans_[1][1]]
                    same_ = inst_[:spans_[3][0]] + w1_ + inst_[spans_[3][1]:]
                    half_ = w1_[: len(w1_) // 2]
                    pal_ = (half_ + gen.rc(half_)) if len(w1_) % 2 == 0 else w1_
                    pal2_ = inst_[:spans_[1][0]] + pal_ + inst_[spans_[1][1]:spans_[3][0]] + pal_ + inst_[spans_[3][1]:]
                    for d_ in (same_, same_.lower(), same_[5:] + same_[:5], pal2_):
                        probe(label, cls, d_)
                        distinct.add((label, "degenerate", d_[:6]))
            except Exception:
                pass
            # near-misses with a further recognition site of the class's cutter inside the matched region (either strand),
            # in upper, lower and mixed spelling, at the rotation given and with the origin inside the extra site
            site, a_, k_ = be.enzyme_geometry(cls.cutter)
            mid = len(s) // 2
            for ins in (site + "A" * (a_ + k_ + 2), "T" * (a_ + k_ + 2) + gen.rc(site)):
                t_ = s[:mid] + ins + s[mid:]
                r_ = mid + 2
                for sp in (t_, t_.lower(), s[:mid] + ins.lower() + s[mid:], t_[r_:] + t_[:r_], (t_[r_:] + t_[:r_]).lower()):
                    probe(label, cls, sp)
                    distinct.add((label, "extra-site", sp[:6]))
    # assemblies mixing valid and invalid records
    from Bio.Restriction import BsaI
    Mod = type("BModule", (core.Entry,), dict(cutter=BsaI))
    Vec = type("BVector", (core.EntryVector,), dict(cutter=BsaI))
    good = [ba.build_module(BsaI, "AACC", "ACGTAC", "GGAT", rng), ba.build_module(BsaI, "GGAT", "TTTGGG", "CTAA", rng)]
    vgood, _ = ba.build_vector(BsaI, "CTAA", "AACC", rng)
    junk = ["A", "n", "ACGTNNRYacgt", good[0][:20], vgood, "GGTCTC", "".join(rng.choice(IUPAC30) for _ in range(80))]
    # valid modules whose overhangs are their own reverse complement (AATT, ACGT), alone and next to their mirror image
    pal = [ba.build_module(BsaI, "AATT", "ACGTAC", "GGAT", rng), ba.build_module(BsaI, "AACC", "TTGACA", "ACGT", rng),
           ba.build_module(BsaI, "AATT", "CCATGC", "AATT", rng), ba.build_module(BsaI, "ACGT", "CATCAT", "CTAA", rng)]
    pal = [x_ for x_ in pal if x_ is not None]
    vpal, _ = ba.build_vector(BsaI, "GGAT", "AATT", rng)
    good_ = list(good)
    for vt in [v_ for v_ in (vgood, vpal) if v_ is not None]:
        for combo in itertools.product(pal + good_[:1], repeat=2):
            evals += 1
            vec = Vec(CircularRecord(Seq(vt), id="v"))
            ms = [Mod(CircularRecord(Seq(t), id="m%d" % i)) for i, t in enumerate(combo)]
            got, prod, w = ba.run_assembly(vec, ms)
            distinct.add(("palindromic", vt[:8], combo[0][:8], combo[1][:8]))
            if got[0] not in ("product", "InvalidSequence", "DuplicateModules", "MissingModule"):
                viol.append(dict(name="assembly_palindromic_%s" % got[0], what="assembly of vector %r with modules %r (palindromic overhangs) ended with %r" % (
                    vt[:30], [c[:30] for c in combo], got), case=dict(vector=vt, modules=list(combo))))
    for vt in [vgood] + junk[:4]:
        for combo in itertools.product(good + junk, repeat=2):
            evals += 1
            vec = Vec(CircularRecord(Seq(vt), id="v"))
            ms = [Mod(CircularRecord(Seq(t), id="m%d" % i)) for i, t in enumerate(combo)]
            got, prod, w = ba.run_assembly(vec, ms)
            distinct.add(("assembly", vt[:8], combo[0][:8], combo[1][:8]))
            if got[0] not in ("product", "InvalidSequence", "DuplicateModules", "MissingModule"):
                viol.append(dict(name="assembly_%s" % got[0], what="assembly of vector %r with modules %r ended with %r" % (
                    vt[:30], [c[:30] for c in combo], got), case=dict(vector=vt, modules=list(combo))))
    # complete assemblies with one more, unused module: an unrelated one, the reverse complement of a used one, a used
    # one's twin with another end; and the shared scenarios (any outcome but an internal error)
    extra = [ba.build_module(BsaI, "TTGA", "ACGTAC", "TTGA", rng), gen.rc(good[0]), gen.rc(good[1]),
             ba.build_module(BsaI, "TTGA", "CCCAAA", gen.rc("AACC"), rng)]
    vchain1, _ = ba.build_vector(BsaI, "GGAT", "AACC", rng)
    for vt, used in ((vgood, good), (vchain1, good[:1])):
        for x_ in extra:
            if x_ is None:
                continue
            evals += 1
            vec = Vec(CircularRecord(Seq(vt), id="v"))
            ms = [Mod(CircularRecord(Seq(t), id="m%d" % i)) for i, t in enumerate(list(used) + [x_])]
            got, prod, w = ba.run_assembly(vec, ms)
            distinct.add(("unused", vt[:6], x_[:8]))
            if got[0] not in ("product", "InvalidSequence", "DuplicateModules", "MissingModule"):
                viol.append(dict(name="assembly_unused_%s" % got[0], what="a complete chain plus the unused module %r ended with %r" % (x_[:40], got),
                                 case=dict(vector=vt, modules=list(used) + [x_])))
    from bounded import scenarios as sn
    for t_, spec in enumerate(sn.scenarios(ns, ctx.seed + 5, 40 if ctx.tier == "quick" else 250, ctx.tier)):
        sc = sn.build(ns, spec)
        evals += 1
        got, prod, w = sc.run()
        distinct.add(("shared", t_))
        if got[0] not in ("product", "InvalidSequence", "DuplicateModules", "MissingModule"):
            viol.append(dict(name="assembly_scenario_%s" % got[0], what="shared scenario %s ended with %r" % (
                {k_: v_ for k_, v_ in sc.describe().items() if k_ not in ("records", "supplied")}, got), case=sc.describe()))
    samples.append(dict(cls=classes[0][0], record=pool[0], valid=False))
    uniq = {}
    for v_ in viol:
        uniq.setdefault(v_["name"], v_)
    return dict(evaluations=evals, distinct_nontrivial=len(distinct),
                rule="every concrete kit class and generic classes over the qualifying enzymes (quick: every 4th) x {words over the "
                     "30-letter cased IUPAC alphabet up to length 2 (sampled in quick), seeded words of length 5/17/60/200, an instance "
                     "of the class's structure with one-letter corruptions, its first half}: is_valid returns a bool and never "
                     "raises; on rejected records overhang/target/placeholder raise InvalidSequence, on accepted ones nothing; "
                     "assemblies over all pairs from {2 good modules, 7 junk records} x {good vector, 4 junk vectors} end with a "
                     "product or a documented MoClo exception",
                bound="words <= 2 (3 thorough) exhaustively, 24-64 seeded longer words, corruptions at 12 positions (all in thorough)",
                samples=samples, violations=list(uniq.values())[:20], n_violations=len(uniq))


def replay(ctx, ob, model):
    from contracts.replays import replay as r
    return r(ctx, ob, model)


LEVEL_TEXT = ("Deductive: the exception clauses of the whole typing and assembly call graph: every exceptional exit the "
              "symbolic executor finds must be a listed MoClo error under its stated condition, every other potential internal "
              "error (AttributeError, KeyError, IndexError, TypeError, ZeroDivisionError) is a path proved infeasible; is_valid "
              "is shown to convert InvalidSequence into False on every path.")
LEVEL_NOTE = ("Assumed: the `raises` behaviour of dependencies (re, Bio.Restriction, Biopython records), citation passes on "
              "well-formed citations; the structure contracts are stated for the supported 5' family (D-RESTR), so the deductive part is "
              "silent on other enzymes. One recorded finding (known_findings.json): is_valid() of a generic class over a 3'-overhang "
              "enzyme raises re.error (unbalanced structure pattern), found by the bounded sweep over every enzyme of Bio.Restriction. "
              "Bounded part (not proved): fuzzing of all kit classes with cased IUPAC words, corruptions and mixed assemblies; generic "
              "module / vector classes over all enzymes on two records.")
