# coding: utf-8
"""C12 -- Strand symmetry: reverse-complemented inputs give the reverse complement."""
from __future__ import annotations

import random

from pyvc import term as tm
from pyvc.term import INT, BOOL, STR
from pyvc.solve import Obligation
from contracts import assembly_c as ac
from contracts.assembly_c import frag, SEQI
from bounded import gen, assembly as ba, entities as be
from props.C04 import shape_of

ID = "C12"
LEVEL = "proof"
MOD, VEC, REC, ASM = ("moclo/moclo/core/modules.py", "moclo/moclo/core/vectors.py", "moclo/moclo/record.py",
                      "moclo/moclo/core/_assembly.py")
FILES = [MOD, VEC, REC, ASM]
FUNCTIONS = [(REC, "CircularRecord.reverse_complement"), (MOD, "AbstractModule.target_sequence"),
             (VEC, "AbstractVector.target_sequence"), (MOD, "AbstractModule.overhang_start"), (MOD, "AbstractModule.overhang_end"),
             ("moclo/moclo/core/_structured.py", "StructuredRecord._get_regex"), ("moclo/moclo/core/_structured.py", "StructuredRecord._match"),
             (MOD, "AbstractModule.structure"), (VEC, "AbstractVector.structure")]
ASSUMES = ["rc axioms (definitions.rst): involutive, length-preserving, rc(x.y) = rc(y).rc(x)", "D-RE", "D-RESTR", "D-REC-RC",
           "RE5 mirror: a pattern whose class word is its own reverse complement matches rc(w) exactly when it matches w, with the "
           "groups mirrored (semantics of re; the mirror property of every derived structure is checked literally)",
           "hypothesis of the statement: exactly the two recognition sites of the definition"]
TRUSTED = ["CPython re", "Bio.Restriction.elucidate"]
EXPLANATION = ("literal obligations: for every qualifying enzyme the derived module and vector structures are their own mirror "
               "image (F4 = rc(F0), |F1| = |F3|, F2b = rc(F2a) as IUPAC class words); lemmas over the rc axioms: overhangs "
               "exchanged and reverse-complemented, body reverse-complemented, and the product of the reverse-complemented inputs "
               "(reversed chain of reverse-complemented fragments) is the reverse complement of the product (base/step)")


def obligations(ctx):
    from props._shared import typing_state_census
    return list(ctx.verify(FUNCTIONS) + ctx.part(literal) + ctx.part(lemmas)) + ctx.part(lambda c_: [typing_state_census(c_, 'C12')], 'typing-state census')


def rc(x):
    return tm.app("rc", STR, x)


def rc_word(w):
    return "".join(gen.COMP[c] for c in reversed(w))


def literal(ctx):
    from pyvc import native
    ns = native.load(ctx.repo_root)
    out = []
    for (name, e, m, v) in be.generic_classes(ns["moclo.core"], gen.qualifying_enzymes()):
        for role, cls in (("module", m), ("vector", v)):
            try:
                sh = shape_of(cls.structure())
                ok = (sh["F4"] == rc_word(sh["F0"]) and len(sh["F1"]) == len(sh["F3"]) and sh["F2b"] == rc_word(sh["F2a"])
                      and sh["F3"] == rc_word(sh["F1"]))
                detail = sh
            except Exception as ex:
                ok, detail = False, repr(ex)
            out.append(Obligation("C12.C1[%s %s] the derived structure is its own mirror image" % (name, role), [], tm.B(ok), kind="C",
                                  text=str(detail), meta=dict(function="structure[%s %s]" % (name, role), clause="mirror")))
    return out


def lemmas(ctx):
    out = []
    x, y = tm.V("x", STR), tm.V("y", STR)
    anti = tm.forall([x, y], tm.eq(rc(tm.concat(x, y)), tm.concat(rc(y), rc(x))))
    invol = tm.forall([x], tm.eq(rc(rc(x)), x))
    lenp = tm.forall([x], tm.eq(tm.slen(rc(x)), tm.slen(x)))
    # L2: W = site.fx.o5.t.o3.fy.rsite.b  =>  rc(W) = rc(b).rc(rsite).rc(fy).rc(o3).rc(t).rc(o5).rc(fx).rc(site):
    # reading rc(W) from its own forward site rc(rsite) = site: overhangs exchanged and rc'd, body rc'd
    names = ("site", "fx", "o5", "t", "o3", "fy", "rsite", "b")
    pieces = [tm.V(nm, STR) for nm in names]
    W = tm.concat(*pieces)
    want = tm.concat(*[rc(p) for p in reversed(pieces)])
    h = [anti]
    # explicit instances of the anti-homomorphism along the concatenation (hints: instances of the axiom)
    acc = pieces[0]
    for p in pieces[1:]:
        h.append(tm.eq(rc(tm.concat(acc, p)), tm.concat(rc(p), rc(acc))))
        acc = tm.concat(acc, p)
    out.append(Obligation("C12.L2 the reverse complement of a module reads: rc(o3) then rc(t) then rc(o5) between mirrored sites", h,
                          tm.eq(rc(W), want), kind="B",
                          text="upstream/downstream overhangs exchanged and reverse-complemented, target body reverse-complemented"))
    # L3: cat over the reversed chain of rc'd fragments.  With F = f1...fq and V = frag(v):  rc(F.V) = rc(V).rc(fq)...rc(f1)
    f, F, Vv = tm.V("f", STR), tm.V("F", STR), tm.V("V", STR)
    out.append(Obligation("C12.L3a product symmetry, step: one more fragment", [anti],
                          tm.eq(rc(tm.concat(F, f)), tm.concat(rc(f), rc(F))), kind="B",
                          text="rc(F.f) = rc(f).rc(F): the reversed chain of reverse-complemented fragments"))
    out.append(Obligation("C12.L3b product symmetry: rc(cat.frag(v)) is a rotation of rc(frag(v)) placed last",
                          [anti, lenp], tm.and_(tm.eq(rc(tm.concat(F, Vv)), tm.concat(rc(Vv), rc(F))),
                                                tm.eq(tm.slen(rc(tm.concat(F, Vv))), tm.add(tm.slen(F), tm.slen(Vv)))), kind="B",
                          text="rc(product) = rc(frag(v)).rc(cat) ~ rc(cat).rc(frag(v)) up to rotation"))
    out.append(Obligation("C12.L1 validity is symmetric: rc is an involution on records", [invol], tm.eq(rc(rc(W)), W), kind="B",
                          text="rc(rc(W)) = W: `iff` follows from `if` applied to rc(W)"))
    return out


# ---------------------------------------------------------------------------------------------- bounded
def bounded(ctx):
    from pyvc import native
    from Bio.Seq import Seq
    ns = native.load(ctx.repo_root)
    core = ns["moclo.core"]
    CircularRecord = ns["moclo.record"].CircularRecord
    rng = random.Random(ctx.seed)
    enz = gen.qualifying_enzymes()
    if ctx.tier == "quick":
        seen, keep = set(), []
        for x_ in enz:
            g = (len(x_[2]), x_[3], x_[4])
            if g not in seen:
                seen.add(g)
                keep.append(x_)
        enz = keep
    viol, samples = [], []
    evals = 0
    distinct = set()
    from props.C01 import scenario
    sweep = {x_[0] for x_ in enz[:2]} | {"BsaI"}
    for (name, e, site, a, k) in enz:
        for chain_len in (1, 2) if ctx.tier == "quick" else (1, 2, 3):
            if k == 1 and chain_len > 1:
                continue
            sc = scenario(ns, e, rng, chain_len)
            if sc is None:
                continue
            Mod, Vec, vtext, mods, expected = sc
            rotsets = [(ba.rotate(vtext, rng.randrange(len(vtext))), [ba.rotate(t_, rng.randrange(len(t_))) for t_ in mods])
                       for _ in range(2 if ctx.tier == "quick" else 5)]
            if chain_len == 1 and (name in sweep or ctx.tier != "quick"):
                # every rotation of the vector plasmid, then of the module plasmid (the origin on every boundary)
                rotsets += [(ba.rotate(vtext, r_), list(mods)) for r_ in range(len(vtext))]
                rotsets += [(vtext, [ba.rotate(mods[0], r_)] + list(mods[1:])) for r_ in range(len(mods[0]))]
                # letter case: all lower, random mixture, and a soft-masked window at every position of the module and of
                # the vector (a case boundary inside the site, inside an overhang, across the origin)
                def mask(t_, a_, ln_):
                    idx = {(a_ + j_) % len(t_) for j_ in range(ln_)}
                    return "".join(c_.lower() if i_ in idx else c_.upper() for i_, c_ in enumerate(t_))
                rotsets += [(vtext.lower(), [t_.lower() for t_ in mods]), (vtext, [t_.lower() for t_ in mods]),
                            ("".join(c_.lower() if rng.random() < 0.5 else c_ for c_ in vtext),
                             ["".join(c_.lower() if rng.random() < 0.5 else c_ for c_ in t_) for t_ in mods])]
                wl = 1 + len(site) // 2
                rotsets += [(vtext, [mask(mods[0], a_, wl)] + list(mods[1:])) for a_ in range(len(mods[0]))]
                rotsets += [(mask(vtext, a_, wl), list(mods)) for a_ in range(len(vtext))]
            for trial, (vt, mts) in enumerate(rotsets):
                evals += 1
                # typing symmetry of each module
                for t_ in mts:
                    m = Mod(CircularRecord(Seq(t_), id="m"))
                    mr = Mod(CircularRecord(Seq(gen.rc(t_)), id="m"))
                    o, orc = be.observe_entity(m), be.observe_entity(mr)
                    if o["valid"] is not True or orc["valid"] is not True:
                        viol.append(dict(name="valid_%s" % name, what="%s module valid=%r but its reverse complement valid=%r" % (name, o["valid"], orc["valid"]),
                                         case=dict(enzyme=name, record=t_)))
                        continue
                    body = o["target"][k:]
                    pb = []
                    if orc["overhang_start"].upper() != gen.rc(o["overhang_end"]).upper():
                        pb.append("overhang_start(rc) = %r, expected rc(overhang_end) = %r" % (orc["overhang_start"], gen.rc(o["overhang_end"])))
                    if orc["overhang_end"].upper() != gen.rc(o["overhang_start"]).upper():
                        pb.append("overhang_end(rc) = %r, expected %r" % (orc["overhang_end"], gen.rc(o["overhang_start"])))
                    if orc["target"][k:].upper() != gen.rc(body).upper():
                        pb.append("target body of rc is not the rc of the body")
                    if pb:
                        viol.append(dict(name="module_%s" % name, what="%s module %r: %s" % (name, t_[:50], "; ".join(pb)), case=dict(enzyme=name, record=t_)))
                v = Vec(CircularRecord(Seq(vt), id="v"))
                vr = Vec(CircularRecord(Seq(gen.rc(vt)), id="v"))
                ov, ovr = be.observe_entity(v), be.observe_entity(vr)
                if ov["valid"] is True and ovr["valid"] is True:
                    if ovr["overhang_start"].upper() != gen.rc(ov["overhang_end"]).upper() or ovr["overhang_end"].upper() != gen.rc(ov["overhang_start"]).upper():
                        viol.append(dict(name="vector_%s" % name, what="%s vector: overhangs of the reverse complement are not the exchanged reverse complements" % name,
                                         case=dict(enzyme=name, record=vt)))
                elif ov["valid"] != ovr["valid"]:
                    viol.append(dict(name="vvalid_%s" % name, what="%s vector valid=%r, reverse complement valid=%r" % (name, ov["valid"], ovr["valid"]), case=dict(record=vt)))
                got, prod, _ = ba.run_assembly(v, [Mod(CircularRecord(Seq(t_), id="m%d" % i)) for i, t_ in enumerate(mts)])
                gotr, prodr, _ = ba.run_assembly(vr, [Mod(CircularRecord(Seq(gen.rc(t_)), id="m%d" % i)) for i, t_ in enumerate(mts)])
                distinct.add((name, chain_len, trial))
                if trial == 0 and ov.get("valid") is True:
                    # the same assembly with one more, unused module that starts with the vector's upstream overhang (where the
                    # chain ends) or ends with its downstream one (where it starts): left out on both strands alike
                    for which_ in ("starts-at-the-chain-end", "ends-at-the-chain-start"):
                        x_ = None
                        for _t in range(40):
                            o_ = ba.clean(rng, k, e)
                            used_ = {str(ov["overhang_start"]).upper(), str(ov["overhang_end"]).upper()} | {
                                str(be.observe_entity(Mod(CircularRecord(Seq(t_), id="m"))).get(f_) or "").upper() for t_ in mts for f_ in ("overhang_start", "overhang_end")}
                            if o_ in used_ or gen.rc(o_) in used_ or gen.rc(o_) == o_:
                                continue
                            if which_ == "starts-at-the-chain-end":
                                x_ = ba.build_module(e, str(ov["overhang_start"]).upper(), ba.clean(rng, 4, e), o_, rng)
                            else:
                                x_ = ba.build_module(e, o_, ba.clean(rng, 4, e), str(ov["overhang_end"]).upper(), rng)
                            if x_ is not None:
                                break
                        if x_ is None:
                            continue
                        evals += 1
                        ga_, pa_, _ = ba.run_assembly(v, [Mod(CircularRecord(Seq(t_), id="m%d" % i)) for i, t_ in enumerate(list(mts) + [x_])])
                        gb_, pb_, _ = ba.run_assembly(vr, [Mod(CircularRecord(Seq(gen.rc(t_)), id="m%d" % i)) for i, t_ in enumerate(list(mts) + [x_])])
                        distinct.add((name, chain_len, which_))
                        ends2_ = [str(be.observe_entity(Mod(CircularRecord(Seq(t_), id="m"))).get("overhang_end") or "").upper() for t_ in list(mts) + [x_]]
                        rc2_ = [(a_, b_) for i_, a_ in enumerate(ends2_) for b_ in ends2_[i_ + 1:] if a_ and gen.rc(a_) == b_]
                        if ga_[0] == "product" and gb_[0] == "DuplicateModules" and rc2_:
                            viol.insert(0, dict(name="mirror_rc_ends", what="%s chain of %d: the assembly succeeds, its mirror image is refused with DuplicateModules: "
                                                "two modules' downstream overhangs are reverse complements of each other (%s / %s)" % ((name, chain_len) + rc2_[0]),
                                                case=dict(enzyme=name, vector=vt, modules=list(mts) + [x_])))
                            continue
                        else:
                            starts2_ = [str(be.observe_entity(Mod(CircularRecord(Seq(t_), id="m"))).get("overhang_start") or "").upper() for t_ in list(mts) + [x_]]
                            if any(a_ == b_ or gen.rc(a_) == b_ for i_, a_ in enumerate(starts2_) for b_ in starts2_[i_ + 1:]) or any(gen.rc(a_) == a_ for a_ in starts2_):
                                continue      # the original is (rightly) refused: the statement speaks of assemblies that give a product
                        if ga_[0] != gb_[0] or (pa_ is not None and not ba.is_rotation(str(pb_.seq), gen.rc(str(pa_.seq)))):
                            viol.append(dict(name="unused_%s_%s" % (which_, name), what="%s chain of %d plus an unused module that %s: %r, the mirror image %r" % (
                                name, chain_len, which_.replace("-", " "), ga_[:2] if ga_[0] != "product" else ga_[:1], gb_[:2] if gb_[0] != "product" else gb_[:1]),
                                             case=dict(enzyme=name, vector=vt, modules=list(mts) + [x_])))
                ends_ = [str(be.observe_entity(Mod(CircularRecord(Seq(t_), id="m"))).get("overhang_end") or "").upper() for t_ in mts]
                rc_ends = [(x_, y_) for i_, x_ in enumerate(ends_) for y_ in ends_[i_ + 1:] if x_ and gen.rc(x_) == y_]
                if got[0] == "product" and gotr[0] == "DuplicateModules" and rc_ends:
                    # the recorded finding (known_findings.json): the reverse-complement test of the module map looks at
                    # start overhangs only, so the mirror image of such an assembly is refused
                    viol.insert(0, dict(name="mirror_rc_ends", what="%s chain of %d: the assembly succeeds, its mirror image is refused with DuplicateModules: "
                                        "two modules' downstream overhangs are reverse complements of each other (%s / %s)" % ((name, chain_len) + rc_ends[0]),
                                        case=dict(enzyme=name, vector=vt, modules=mts)))
                elif got[0] != "product" or gotr[0] != "product" or not ba.is_rotation(str(prodr.seq), gen.rc(str(prod.seq))):
                    viol.append(dict(name="product_%s_%d" % (name, chain_len), what="%s chain of %d: assembling the reverse complements gives %s" % (
                        name, chain_len, "%r / %r" % (got[:1], gotr[:1]) if "product" not in (got[0], gotr[0]) or got[0] != gotr[0] else "a product that is not the reverse complement of the original product"),
                                     case=dict(enzyme=name, vector=vt, modules=mts)))
            if chain_len == 1 and (name in sweep or ctx.tier != "quick"):
                # records carrying an ambiguity letter (B becomes V on the other strand, R becomes Y ...): whatever the
                # class says about one strand it says about the other
                for role_, Cls_, text_ in (("module", Mod, mods[0]), ("vector", Vec, vtext)):
                    ref_ = be.observe_entity(Cls_(CircularRecord(Seq(text_), id="x")))
                    if ref_.get("valid") is not True:
                        continue
                    body_ = ref_["target"]
                    at_ = (text_ + text_).upper().find(body_.upper())
                    for off_ in (k + 1, len(body_) // 2, 0):           # inside the body, and the first overhang letter
                        q_ = (at_ + off_) % len(text_)
                        for code_ in "RYSWKMBDHVNrbn":
                            evals += 1
                            t2_ = text_[:q_] + code_ + text_[q_ + 1:]
                            a_ = be.observe_entity(Cls_(CircularRecord(Seq(t2_), id="x")))
                            b_ = be.observe_entity(Cls_(CircularRecord(Seq(gen.rc(t2_)), id="x")))
                            distinct.add((name, role_, off_, code_))
                            if a_.get("valid") != b_.get("valid"):
                                viol.append(dict(name="ambiguity_%s_%s" % (role_, name), what="%s %s with the letter %r at offset %d of its target: valid=%r, its reverse complement valid=%r" % (
                                    name, role_, code_, off_, a_.get("valid"), b_.get("valid")), case=dict(enzyme=name, record=t2_)))
                            elif a_.get("valid") is True and (str(b_["overhang_start"]).upper() != gen.rc(str(a_["overhang_end"])).upper()
                                                             or str(b_["overhang_end"]).upper() != gen.rc(str(a_["overhang_start"])).upper()):
                                viol.append(dict(name="ambiguity_overhangs_%s_%s" % (role_, name), what="%s %s with the letter %r: overhangs of the reverse complement are not the exchanged reverse complements" % (
                                    name, role_, code_), case=dict(enzyme=name, record=t2_)))
            if len(samples) < 2:
                samples.append(dict(enzyme=name, chain=chain_len))
    # junctions between the VECTOR and the first / last module that spell the recognition site (or its mirror image) in
    # the product, across the ligation scar -- where the product's own origin may fall: both strands assemble alike
    for (name, e, site, a, k) in enz:
        if len(site) != k + 2 or not (name in sweep or ctx.tier != "quick"):
            continue
        Mod = type("GModule", (core.Entry,), dict(cutter=e))
        Vec = type("GVector", (core.EntryVector,), dict(cutter=e))
        for word in (site, gen.rc(site)):
            for where in ("vector-to-first-module", "last-module-to-vector"):
                inner = word[1:-1]
                other = None
                for _t in range(60):
                    o_ = ba.clean(rng, k, e)
                    if o_ != inner and gen.rc(o_) not in (inner, o_) and gen.rc(inner) != o_:
                        other = o_
                        break
                if other is None or gen.rc(inner) == inner:
                    continue
                if where == "vector-to-first-module":
                    mt = ba.build_module(e, inner, word[-1] + ba.clean(rng, 5, e), other, rng)
                    vt, _vf = ba.build_vector(e, other, inner, rng, last=word[0])
                else:
                    mt = ba.build_module(e, other, ba.clean(rng, 5, e) + word[0], inner, rng)
                    vt, _vf = ba.build_vector(e, inner, other, rng, first=word[-1])
                if mt is None or vt is None:
                    continue
                evals += 1
                mk = lambda t_, i_, C=Mod: C(CircularRecord(Seq(t_), id=i_))
                got, prod, _ = ba.run_assembly(Vec(CircularRecord(Seq(vt), id="v")), [mk(mt, "m0")])
                gotr, prodr, _ = ba.run_assembly(Vec(CircularRecord(Seq(gen.rc(vt)), id="v")), [mk(gen.rc(mt), "m0")])
                distinct.add((name, "vector-scar", word, where))
                if got[0] != gotr[0] or (prod is not None and not ba.is_rotation(str(prodr.seq), gen.rc(str(prod.seq)))):
                    viol.append(dict(name="vector_scar_%s" % name, what="%s: the junction %s spells %s across the scar: %r, the mirror image %r" % (
                        name, where.replace("-", " "), word, got[:2] if got[0] != "product" else got[:1], gotr[:2] if gotr[0] != "product" else gotr[:1]),
                                     case=dict(enzyme=name, vector=vt, modules=[mt])))
    # the recorded finding, deterministically (a fixed BsaI chain of two whose downstream overhangs are AACG / CGTT)
    try:
        from Bio.Restriction import BsaI
        frng = random.Random(20240612)
        Mod = type("GModule", (core.Entry,), dict(cutter=BsaI))
        Vec = type("GVector", (core.EntryVector,), dict(cutter=BsaI))
        m0 = ba.build_module(BsaI, "GGAG", "ATGGCATCA", "AACG", frng, backbone=8)
        m1 = ba.build_module(BsaI, "AACG", "TTCAGGCAT", "CGTT", frng, backbone=8)
        vt, _ = ba.build_vector(BsaI, "CGTT", "GGAG", frng)
        if None not in (m0, m1, vt):
            evals += 1
            mk = lambda t_, i_, C=Mod: C(CircularRecord(Seq(t_), id=i_))
            got, prod, _ = ba.run_assembly(Vec(CircularRecord(Seq(vt), id="v")), [mk(m0, "m0"), mk(m1, "m1")])
            gotr, prodr, _ = ba.run_assembly(Vec(CircularRecord(Seq(gen.rc(vt)), id="v")), [mk(gen.rc(m0), "m0"), mk(gen.rc(m1), "m1")])
            distinct.add(("finding", "rc-ends"))
            if got[0] == "product" and gotr[0] == "DuplicateModules":
                viol.insert(0, dict(name="mirror_rc_ends", what="BsaI chain of 2: the assembly succeeds, its mirror image is refused with DuplicateModules: "
                                    "two modules' downstream overhangs are reverse complements of each other (AACG / CGTT)",
                                    case=dict(enzyme="BsaI", vector=vt, modules=[m0, m1])))
            elif not (got[0] == "product" and gotr[0] == "product" and ba.is_rotation(str(prodr.seq), gen.rc(str(prod.seq)))):
                viol.append(dict(name="mirror_rc_ends_other", what="BsaI chain of 2 with reverse-complementary downstream overhangs: %r / mirror image %r" % (got[:2], gotr[:2]),
                                 case=dict(enzyme="BsaI", vector=vt, modules=[m0, m1])))
    except Exception as ex_:
        viol.append(dict(name="mirror_rc_ends_setup", what="the fixed scenario of the recorded finding could not be run: %r" % (ex_,), case={}))
    uniq = {}
    for v_ in viol:
        uniq.setdefault(v_["name"], v_)
    return dict(evaluations=evals, distinct_nontrivial=len(distinct),
                rule="every rotation of the vector and of the module, all-lower / mixed case and a soft-masked window at every position, for two geometries (all in thorough); C01's input space (every enzyme / one per geometry in quick, chains of 1-2 (3), random rotations): each module "
                     "and vector versus its reverse complement (valid iff valid, overhangs exchanged and reverse-complemented, body "
                     "reverse-complemented) and the assembly of all reverse complements versus the reverse complement of the product "
                     "(up to rotation)", bound="2 (5) rotations per scenario", samples=samples,
                violations=list(uniq.values())[:20], n_violations=len(uniq))


def replay(ctx, ob, model):
    from contracts.replays import replay as r
    return r(ctx, ob, model)


LEVEL_TEXT = ("Deductive: the mirror symmetry of every derived structure (58 enzymes x 2 roles) is a literal obligation on the real "
              "structure() values; over the documented rc axioms, lemmas give the exchanged/reverse-complemented overhangs and body "
              "and, by base/step over the chain, that the reversed chain of reverse-complemented fragments is the reverse "
              "complement of the product; reverse_complement and the fragment extractors are verified bodies.")
LEVEL_NOTE = ("Assumed: rc axioms, re mirror semantics for self-mirror patterns (RE5 mirror), Bio.Restriction.elucidate, feature flip. "
              "The lemma about the product presupposes that both assemblies give a product: one recorded finding (known_findings.json) -- "
              "two modules whose downstream overhangs are reverse complements of each other assemble, their mirror image is refused "
              "(the reverse-complement test looks at start overhangs only, as C03 prescribes). Bounded part (not proved): one scenario per "
              "geometry and chain length at random rotations, spellings, ambiguity letters, unused modules and scars at the chain ends.")
