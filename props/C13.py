# coding: utf-8
"""C13 -- Rotation of a circular record is a lossless group action."""
from __future__ import annotations

import itertools

from pyvc import term as tm
from pyvc.term import INT, BOOL, STR
from pyvc.solve import Obligation
from contracts.replays import replay  # noqa: F401
from bounded import common as bc

ID = "C13"
LEVEL = "proof"
CROSSCHECK = True   # run the CPython cross-check of the executor encoding (pyvc/crosscheck.py)
F = "moclo/moclo/record.py"
FILES = [F]
FUNCTIONS = [(F, "CircularRecord.__rshift__"), (F, "CircularRecord.__lshift__"), (F, "CircularRecord.__init__")]
ASSUMES = ["D-SEQ", "D-LOC", "D-REC-INIT",
           "parametricity: a per-letter annotation track is only sliced and concatenated, so a String of code "
           "points stands for a sequence of arbitrary values"]
TRUSTED = ["Bio.Seq slicing/concatenation (D-SEQ)", "Bio.SeqFeature locations (D-LOC)"]
EXPLANATION = ("body VCs of __rshift__/__lshift__/__init__ (sequence, every letter-annotation track, the generic "
               "feature and its generic part) + lemmas L2-L6 over the postconditions (composition, multiples of n, "
               "inverse, denotation of parts, letter annotations position-wise)")


def obligations(ctx):
    obs = ctx.verify(FUNCTIONS)
    # `part-start-normalised` is what C08 needs of a rotation (slicing goes by literal coordinates); C13 reads
    # coordinates modulo the length, so it is not part of this property
    obs = [o for o in obs if "part-start-normalised" not in o.name]
    return obs + ctx.part(lemmas)


def lemmas(ctx):
    out = []
    s = tm.V("s", STR)
    n = tm.slen(s)
    a, b, m, k = tm.V("a", INT), tm.V("b", INT), tm.V("m", INT), tm.V("k", INT)
    pos = [tm.lt(0, n)]
    # L2a: rotations by reduced amounts compose additively
    ra, rb = tm.V("ra", INT), tm.V("rb", INT)
    red = [tm.le(0, ra), tm.lt(ra, n), tm.le(0, rb), tm.lt(rb, n)]
    out.append(Obligation("C13.L2a compose (reduced amounts): rot(rot(s,a),b) = rot(s,(a+b) mod n)", pos + red,
                          tm.eq(tm.rot_i(tm.rot_i(s, ra), rb), tm.rot_i(s, tm.pymod(tm.add(ra, rb), n))), kind="B",
                          text="rot_i(rot_i(s,a),b) = rot_i(s,(a+b) mod n), 0<=a,b<n"))
    # L2b: congruence -- (a mod n + b mod n) mod n = (a + b) mod n for all integers (pure arithmetic)
    nn = tm.V("n", INT)
    out.append(Obligation("C13.L2b mod is additive: ((a mod n)+(b mod n)) mod n = (a+b) mod n", [tm.lt(0, nn)],
                          tm.eq(tm.pymod(tm.add(tm.pymod(a, nn), tm.pymod(b, nn)), nn), tm.pymod(tm.add(a, b), nn)),
                          kind="B", text="all integers a, b; n > 0", solvers=["z3new", "cvc5", "z3"]))
    # L3: any multiple of the length is the identity
    out.append(Obligation("C13.L3 rotation by a multiple of n is the identity", pos + [tm.eq(k, tm.mul(m, n))],
                          tm.eq(tm.rot(s, k), s), kind="B", text="k = m*n => rot(s,k) = s"))
    # L0: rotation keeps the length (so the outer rotation of a composition reduces modulo the same n)
    out.append(Obligation("C13.L0 rotation keeps the length", pos + red[:2], tm.eq(tm.slen(tm.rot_i(s, ra)), n), kind="B",
                          text="|rot_i(s,a)| = |s|"))
    # L4: left rotation is the inverse of right rotation.  By the contracts (r << k) = r >> (-k mod n) and
    # r >> k rotates by k mod n; the two reduced amounts add up to 0 or n (arithmetic, z3), and two rotations
    # whose amounts add up to 0 or n cancel (strings, cvc5).
    am, bm = tm.pymod(tm.sub(0, k), nn), tm.pymod(k, nn)
    arith = Obligation("C13.L4a (-k mod n) + (k mod n) is 0 or n", [tm.lt(0, nn)],
                       tm.or_(tm.eq(tm.add(am, bm), 0), tm.eq(tm.add(am, bm), nn)), kind="B",
                       text="pure arithmetic, all integers k", solvers=["z3new", "cvc5", "z3"])
    out.append(arith)
    cancel = tm.or_(tm.eq(tm.add(ra, rb), 0), tm.eq(tm.add(ra, rb), n))
    out.append(Obligation("C13.L4 (s << k) >> k = s and (s >> k) << k = s (reduced amounts cancelling)", pos + red + [cancel],
                          tm.eq(tm.rot_i(tm.rot_i(s, ra), rb), s), kind="B",
                          text="rot_i(rot_i(s,a),b) = s when a+b in {0,n}; with L4a and L0 this is the inverse law for every k"))
    # L5: a part mapped as the contract of __rshift__ says is attached to the same nucleotides
    i, st0, t = tm.V("i", INT), tm.V("pstart", INT), tm.V("t", INT)
    st1 = tm.pymod(tm.add(st0, i), n)
    hyp = pos + [tm.le(0, i), tm.lt(i, n), tm.le(0, st0), tm.le(st0, n), tm.le(0, t), tm.lt(t, n)]
    out.append(Obligation("C13.L5 part denotes the same nucleotides after rotation", hyp,
                          tm.eq(tm.char_at(tm.rot_i(s, i), tm.pymod(tm.add(st1, t), n)),
                                tm.char_at(s, tm.pymod(tm.add(st0, t), n))), kind="B",
                          text="letter t of the image part read (mod n) on rot(s,i) = letter t of the part on s"))
    # L6: per-letter annotation values follow their letters, position-wise
    la, j = tm.V("la", STR), tm.V("j", INT)
    hyp6 = pos + [tm.eq(tm.slen(la), n), tm.le(0, i), tm.lt(i, n), tm.le(0, j), tm.lt(j, n)]
    out.append(Obligation("C13.L6 letter annotation value j ends at position (j+i) mod n", hyp6,
                          tm.eq(tm.char_at(tm.rot_i(la, i), tm.pymod(tm.add(j, i), n)), tm.char_at(la, j)), kind="B",
                          text="rot_i(la,i)[(j+i) mod n] = la[j]"))
    out.append(Obligation("C13.L6b the same shift moves letter j of the sequence", pos + [tm.le(0, i), tm.lt(i, n), tm.le(0, j), tm.lt(j, n)],
                          tm.eq(tm.char_at(tm.rot_i(s, i), tm.pymod(tm.add(j, i), n)), tm.char_at(s, j)), kind="B",
                          text="rot_i(s,i)[(j+i) mod n] = s[j]"))
    # must-fail: the opposite direction for letter annotations is refuted
    wrong = tm.concat(tm.pyslice(la, i, None), tm.pyslice(la, None, i))
    out.append(Obligation("C13.MF1 must-fail: v[i:]+v[:i] is not the right rotation", hyp6[:4] + [tm.lt(0, i)],
                          tm.eq(wrong, tm.rot_i(la, i)), kind="V", expect="sat", text="canned wrong body"))
    return out


# ---------------------------------------------------------------------------------------------- bounded
def bounded(ctx):
    from pyvc import native
    from Bio.Seq import Seq
    ns = native.load(ctx.repo_root)
    CircularRecord = ns["moclo.record"].CircularRecord
    viol, samples = [], []
    evals = 0
    distinct = set()
    maxn = 5 if ctx.tier == "quick" else 8
    letters = "ACGTRYKM"
    for n in range(1, maxn + 1):
        s = letters[:n]
        tables = bc.feature_tables(n, small=(ctx.tier == "quick"))
        for ti, feats in enumerate(tables):
            la = {"phred": list(range(10, 10 + n)), "tag": [chr(97 + x) for x in range(n)]}
            rec = CircularRecord(Seq(s), id="rid", name="rname", description="d", features=bc.build_features(feats),
                                 annotations={"topology": "circular", "molecule_type": "DNA", "k": [1]},
                                 letter_annotations=la)
            if ti % 2:
                bc.preuse(rec, ns)       # every other record has been searched / sliced / rotated before
            base = bc.observe(rec)
            for k in range(-2 * n, 3 * n + 1):
                evals += 1
                try:
                    r = rec >> k
                    l = rec << k
                    back = (rec << k) >> k
                    r2 = (rec >> k) >> 1
                except Exception as e:
                    viol.append(dict(name="raise_n%d_t%d_k%d" % (n, ti, k), what="rotation raised %r (n=%d, k=%d, table %r)" % (e, n, k, feats),
                                     case=dict(seq=s, k=k, features=feats)))
                    continue
                i = k % n
                if i:
                    distinct.add((n, ti, i))
                problems = []
                problems += bc.compare_rotation(base, bc.observe(r), i, n, "r>>k")
                problems += bc.compare_rotation(base, bc.observe(l), (-k) % n, n, "r<<k")
                problems += bc.compare_rotation(base, bc.observe(back), 0, n, "(r<<k)>>k")
                problems += bc.compare_rotation(base, bc.observe(r2), (k + 1) % n, n, "(r>>k)>>1")
                if type(r) is not CircularRecord:
                    problems.append("result is not a CircularRecord")
                if problems:
                    viol.append(dict(name="rot_n%d_t%d_k%d" % (n, ti, k),
                                     what="rotation of %r by %d with features %r: %s" % (s, k, feats, "; ".join(problems[:3])),
                                     case=dict(seq=s, k=k, features=feats), observed=problems[:6]))
                elif len(samples) < 3 and i and feats:
                    samples.append(dict(seq=s, k=k, features=feats, rotated=str(r.seq),
                                        rotated_features=[str(f.location) for f in r.features]))
    # edit between two rotations of the same object: the record is rotated, then edited in place (same Seq object, same
    # number of features: a feature moved and relabelled, a per-letter value changed, identifiers changed), then rotated
    # again by the same amount -- the second result is the rotation of the record as it is *now*
    from Bio.SeqFeature import FeatureLocation
    for n in range(2, maxn + 1):
        s = letters[:n]
        for ti, feats in enumerate(bc.feature_tables(n, small=True)):
            if not feats:
                continue
            for k in (1, n - 1, -1):
                evals += 1
                rec = CircularRecord(Seq(s), id="rid", name="rname", description="d", features=bc.build_features(feats),
                                     annotations={"topology": "circular", "molecule_type": "DNA"},
                                     letter_annotations={"phred": list(range(10, 10 + n))})
                try:
                    rec << k, rec >> k
                    rec.features[0].location = FeatureLocation(0, 1, strand=-1)
                    rec.features[0].qualifiers["label"] = ["edited"]
                    rec.letter_annotations["phred"][0] = 99
                    rec.id, rec.annotations["note"] = "edited", "edited"
                    base2 = bc.observe(rec)
                    pb = bc.compare_rotation(base2, bc.observe(rec << k), (-k) % n, n, "edited r<<k") + \
                        bc.compare_rotation(base2, bc.observe(rec >> k), k % n, n, "edited r>>k")
                except Exception as e:
                    pb = ["raised %r" % (e,)]
                distinct.add(("edit", n, ti, k))
                if pb:
                    viol.append(dict(name="edit_between_n%d_t%d_k%d" % (n, ti, k), what="%r rotated by %d, edited in place, rotated again: %s" % (
                        s, k, "; ".join(pb[:2])), case=dict(seq=s, k=k, features=feats), observed=pb[:4]))
    return dict(evaluations=evals, distinct_nontrivial=len(distinct),
                rule="a record rotated, edited in place and rotated again; words of pairwise distinct letters of length 1..%d x feature tables (simple, 2-part join, "
                     "origin-spanning in both representations, either strand, whole-length, whole-length source, no "
                     "location-less) x two letter-annotation tracks x every k in [-2n,3n]; compared: sequence, every "
                     "track position-wise, nucleotides denoted by every part (mod n), ids/qualifiers/annotations; "
                     "also r<<k, (r<<k)>>k, (r>>k)>>1; non-trivial = k mod n != 0 (distinct by n, table, k mod n)" % maxn,
                bound="n <= %d, k in [-2n, 3n]" % maxn, samples=samples, violations=viol[:20], n_violations=len(viol))


LEVEL_TEXT = ("Deductive: __rshift__/__lshift__/__init__ are checked path by path against contracts from the statement "
              "(sequence = last k letters to the front for every integer k; every letter-annotation track rotated with "
              "the letters; for the generic feature and generic part: type/id/qualifiers carried, same length/strand, "
              "start = (start+i) mod n); composition, multiples of n, inverse and position-wise denotation are lemmas "
              "over those postconditions, for all lengths and all k.")
LEVEL_NOTE = ("Assumed: Bio.Seq slicing/concatenation, FeatureLocation/CompoundLocation arithmetic (D-LOC), SeqRecord "
              "constructor, map-loop rule for the feature and part loops, parametricity for annotation tracks, executor "
              "encoding, solvers. Bounded part (not counted as proved): n <= 5 (8 thorough), k in [-2n,3n].")
