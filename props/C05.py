# coding: utf-8
"""C05 -- A part type accepts exactly the records with its signature overhangs."""
from __future__ import annotations

import ast
import os
import random

from pyvc import term as tm
from pyvc.term import INT, BOOL, STR
from pyvc.solve import Obligation
from pyvc.models import re_at
from bounded import gen, assembly as ba, entities as be
from contracts.parts_c import generic_structure, enzyme_table

ID = "C05"
LEVEL = "proof"
P = "moclo/moclo/core/parts.py"
FILES = [P, "moclo/moclo/core/modules.py", "moclo/moclo/core/vectors.py", "moclo/moclo/_utils.py"]
FUNCTIONS = [(P, "AbstractPart.structure"), (P, "AbstractPart.characterize"), ("moclo/moclo/core/_structured.py", "StructuredRecord.is_valid"),
             ("moclo/moclo/core/_structured.py", "StructuredRecord._get_regex"),
             ("moclo/moclo/_utils.py", "isabstract")]
ASSUMES = ["D-RESTR (elucidate / ovhgseq constants of the enzymes, read from Bio.Restriction on every run)", "D-SEQ",
           "RE4/RE5: for two patterns of the same shape that differ only in the class words of groups 1 and 3, a window matches "
           "the narrower one iff it matches the wider one with the same spans and the two group texts match the narrower class "
           "words (semantics of re)", "IUPAC class semantics (C16)",
           "D-REFLECT (inspect.isabstract, dir, getattr are functions of the class): isabstract's body is verified against that",
           "hypothesis of the statement: unique generic match"]
TRUSTED = ["CPython re", "Bio.Restriction"]
EXPLANATION = ("body VC of AbstractPart.structure for every enzyme geometry and both roles with a *symbolic* signature: the part "
               "structure is the generic one with groups 1/3 replaced by the signature halves; literal obligations for every "
               "signature-typed kit class; characterize loop VC (first accepting candidate, RuntimeError iff none); lemma L1 "
               "lifts the pattern relation to `accepted iff generic accepts and the overhangs match the signature`")


FIRST_CALL = r'''
import sys, json
sys.path.insert(0, %(verif)r)
from pyvc import native
kits = native.kits(%(repo)r)
import importlib
from Bio.Seq import Seq
from moclo.record import CircularRecord
cls = getattr(importlib.import_module(%(mod)r), %(cname)r)
def ask():
    try:
        return type(cls.characterize(CircularRecord(Seq(%(text)r), id="r"))).__name__
    except Exception as e:
        return "raised " + type(e).__name__
first = ask()
valid = cls(CircularRecord(Seq(%(text)r), id="r")).is_valid()
later = ask()
print(json.dumps(dict(first=first, later=later, valid=valid)))
'''


def obligations(ctx):
    from props._shared import typing_state_census
    return list(ctx.verify(FUNCTIONS) + ctx.part(literal) + ctx.part(lemmas)) + ctx.part(lambda c_: [typing_state_census(c_, 'C05')], 'typing-state census') + ctx.part(placeholder_census, 'placeholder census')


def placeholder_census(ctx):
    """discharges what the `isabstract` / `characterize` contracts take as a constant of a class: a class that declares its
    cutter and its signature is concrete.  `moclo._utils.isabstract` calls abstract every class one of whose attributes *is*
    `NotImplemented`; so, over the whole typing layer (core, kits), the only class-level names bound to `NotImplemented` are
    the two a concrete type declares -- `cutter` and `signature` -- and nothing stores `NotImplemented` into a class later"""
    bad = []
    for rel, mi in sorted(ctx.repo.modules.items()):
        if not (rel.startswith("moclo/moclo/core/") or "/moclo/kits/" in rel or rel == "moclo/moclo/_utils.py"):
            continue
        for cls_ in [n for n in ast.walk(mi.tree) if isinstance(n, ast.ClassDef)]:
            for st_ in cls_.body:
                tgts, val = [], None
                if isinstance(st_, ast.Assign):
                    tgts, val = st_.targets, st_.value
                elif isinstance(st_, ast.AnnAssign) and st_.value is not None:
                    tgts, val = [st_.target], st_.value
                if isinstance(val, ast.Name) and val.id == "NotImplemented":
                    for t_ in tgts:
                        if isinstance(t_, ast.Name) and t_.id not in ("cutter", "signature"):
                            bad.append("%s::%s.%s = NotImplemented (line %d)" % (rel, cls_.name, t_.id, st_.lineno))
        for n in ast.walk(mi.tree):
            if isinstance(n, ast.Call) and isinstance(n.func, ast.Name) and n.func.id == "setattr" and len(n.args) == 3 and \
                    isinstance(n.args[2], ast.Name) and n.args[2].id == "NotImplemented":
                bad.append("%s: setattr(..., NotImplemented) (line %d)" % (rel, n.lineno))
            if isinstance(n, ast.Assign) and isinstance(n.value, ast.Name) and n.value.id == "NotImplemented" and any(
                    isinstance(t_, ast.Attribute) for t_ in n.targets):
                bad.append("%s: attribute store of NotImplemented (line %d)" % (rel, n.lineno))
    return [Obligation("C05.F1 census: the only class-level placeholders `NotImplemented` of the typing layer are `cutter` and `signature`",
                       [], tm.B(not bad), kind="F", text="other placeholders: %s" % bad, meta=dict(function="census", clause="F1", detail=bad))]


def iupac_match(sig, text):
    return len(sig) == len(text) and all(t.upper() in gen.IUPAC[s.upper()] or (s.upper() == "N" and t.upper() == "N") for s, t in zip(sig, text))


def derives_from_signature(cls, core):
    """the class's structure() is the one AbstractPart computes from the signature: resolving `structure` along the
    MRO reaches AbstractPart.structure, possibly through overrides that only delegate (`return super(X, cls).structure()`)"""
    import inspect
    import textwrap
    for k in cls.__mro__:
        if "structure" not in k.__dict__:
            continue
        if k is core.AbstractPart:
            return True
        try:
            fn = k.__dict__["structure"]
            fn = getattr(fn, "__func__", fn)
            tree = ast.parse(textwrap.dedent(inspect.getsource(fn)))
            body = [b for b in tree.body[0].body if not (isinstance(b, ast.Expr) and isinstance(b.value, ast.Constant))]
            ok = (len(body) == 1 and isinstance(body[0], ast.Return) and isinstance(body[0].value, ast.Call)
                  and isinstance(body[0].value.func, ast.Attribute) and body[0].value.func.attr == "structure"
                  and isinstance(body[0].value.func.value, ast.Call) and getattr(body[0].value.func.value.func, "id", "") == "super"
                  and not body[0].value.args)
        except Exception:
            ok = False
        if not ok:
            return False
    return False


def literal(ctx):
    """C: every signature-typed kit class -- its real structure() is the generic structure of its enzyme and role with
    the signature in groups 1 and 3"""
    from pyvc import native
    kits = native.kits(ctx.repo_root)
    ns = native.load(ctx.repo_root)
    core = ns["moclo.core"]
    table = enzyme_table()
    out = []
    n = 0
    for cls in gen.concrete_classes(kits):
        if not issubclass(cls, core.AbstractPart) or cls.signature is NotImplemented:
            continue
        # classes that override structure() by hand are C04's subject; here: those deriving it from the signature
        if not derives_from_signature(cls, core):
            continue
        name = cls.cutter.__name__
        info = table.get(name)
        if info is None:
            for k_, v_ in table.items():
                if v_["elucidate"] == cls.cutter.elucidate():
                    info = v_
        role = "module" if issubclass(cls, core.AbstractModule) else "vector"
        try:
            got = cls.structure()
            g = generic_structure(info, role)
            grp = "(" + "N" * info["k"] + ")"
            pre, mid, post = g.split(grp)
            up, down = cls.signature
            first, third = (up, down) if role == "module" else (down, up)
            want = pre + "(" + first + ")" + mid + "(" + third + ")" + post
        except Exception as ex:
            got, want = "raised %r" % (ex,), "?"
        n += 1
        out.append(Obligation("C05.C1[%s.%s] structure is the generic one with the signature in groups 1 and 3" % (cls.__module__.split(".")[-1], cls.__name__),
                              [], tm.eq(tm.S(got), tm.S(want)), kind="C", text="%s vs %s" % (got, want),
                              meta=dict(function=cls.__name__, clause="signature-structure", expected=want, observed=got)))
    out.append(Obligation("C05.C0 signature-typed classes were found", [], tm.B(n >= 40), kind="C", text="%d classes" % n))
    return out


def lemmas(ctx):
    out = []
    # L1: the narrower pattern accepts a window iff the wider accepts it and the group texts match the narrower words.
    # Stated over the abstract relation `refines(p, g)` (RE4/RE5 assumption) this is an instance; what is proved here is
    # the part of it that is arithmetic/strings: with equal spans, the overhang the part reports is the overhang the
    # generic class reports, so `matches the signature` is a statement about the generic overhang.
    d = tm.V("d", STR)
    s0, s1 = tm.V("s0", INT), tm.V("s1", INT)
    t0, t1 = tm.V("t0", INT), tm.V("t1", INT)
    out.append(Obligation("C05.L1 equal spans give the same reported overhangs", [tm.eq(s0, t0), tm.eq(s1, t1)],
                          tm.eq(tm.upper(tm.substr(d, s0, tm.sub(s1, s0))), tm.upper(tm.substr(d, t0, tm.sub(t1, t0)))), kind="B",
                          solvers=["cvc5"], text="part and generic class report the same overhang text when their spans agree"))
    # L2 characterize: first-accepting candidate is an accepting candidate (postcondition => statement)
    return out


# ---------------------------------------------------------------------------------------------- bounded
def bounded(ctx):
    from pyvc import native
    from Bio.Seq import Seq
    ns = native.load(ctx.repo_root)
    kits = native.kits(ctx.repo_root)
    core = ns["moclo.core"]
    CircularRecord = ns["moclo.record"].CircularRecord
    rng = random.Random(ctx.seed)
    viol, samples = [], []
    evals = 0
    distinct = set()
    sig_classes = [c for c in gen.concrete_classes(kits) if issubclass(c, core.AbstractPart) and c.signature is not NotImplemented]
    generic_cache = {}

    def generic_for(cls):
        role = core.AbstractModule if issubclass(cls, core.AbstractModule) else core.AbstractVector
        key = (cls.cutter, role)
        if key not in generic_cache:
            base = core.Entry if role is core.AbstractModule else core.EntryVector
            generic_cache[key] = type("Generic", (base,), dict(cutter=cls.cutter))
        return generic_cache[key]

    def check(cls, text, why):
        nonlocal evals
        evals += 1
        gen_cls = generic_for(cls)
        rec = CircularRecord(Seq(text), id="r")
        g = be.observe_entity(gen_cls(CircularRecord(Seq(text), id="r")))
        p = be.observe_entity(cls(rec))
        if g["valid"] is True:
            up, down = cls.signature
            want = iupac_match(up, g["overhang_start"]) and iupac_match(down, g["overhang_end"])
        else:
            want = False
        # uniqueness hypothesis: skip records on which the generic class has several candidate matches
        if g["valid"] is True:
            distinct.add((cls.__name__, why))
        if (p["valid"] is True) != want:
            if not unique_generic(gen_cls, text):
                return
            viol.append(dict(name="accept_%s" % cls.__name__, what="%s %s a record (%s) on which the generic class reports %r/%r; signature %r" % (
                cls.__name__, "accepts" if p["valid"] is True else "rejects", why, g.get("overhang_start"), g.get("overhang_end"), cls.signature),
                             case=dict(cls=cls.__name__, record=text)))

    def unique_generic(gen_cls, text):
        rx = gen_cls._get_regex()
        n = len(text)
        starts = [j for j in range(n) if rx.regex.match(text + text, j, j + n)]
        return len(starts) <= 1      # (several candidate matches are outside the hypothesis; none at all is not)

    for cls in sig_classes:
        if not derives_from_signature(cls, core):
            continue
        site, a, k = be.enzyme_geometry(cls.cutter)
        members = be.class_records(cls, rng, count=2)
        # every rotation of one member: the origin on every boundary of the structure (both overhangs, both sites)
        for r_ in range(1, len(members[0])):
            check(cls, members[0][r_:] + members[0][:r_], "member rotated")
        for s in members:
            check(cls, s, "member")
            # near misses: every position of both overhangs, one other letter
            g = be.observe_entity(generic_for(cls)(CircularRecord(Seq(s), id="r")))
            if g["valid"] is not True:
                continue
            for which in ("overhang_start", "overhang_end"):
                o = g[which]
                pos = (s + s).upper().find(o.upper())
                for j in range(len(o)):
                    for ch in "ACGT":
                        if ch != o[j].upper():
                            q = (pos + j) % len(s)
                            check(cls, s[:q] + ch + s[q + 1:], "near-miss %s[%d]=%s" % (which, j, ch))
        # siblings' members and generic modules with random overhangs
        for other in rng.sample(sig_classes, min(len(sig_classes), 3 if ctx.tier == "quick" else 10)):
            if other is not cls and derives_from_signature(other, core) and other.cutter is cls.cutter and issubclass(other, core.AbstractModule) == issubclass(cls, core.AbstractModule):
                for s in be.class_records(other, rng, count=1):
                    check(cls, s, "member of %s" % other.__name__)
        for s in be.class_records(generic_for(cls), rng, count=2):
            check(cls, s, "generic with random overhangs")
    # user-defined signatures incl. degenerate ones, over several enzymes
    from Bio.Restriction import BsaI, BsmBI, SapI
    # (the last two: cutters whose recognition site holds an ambiguity code -- beyond the enzyme family of the statement, kept
    # to the records free of further sites, see DESIGN 7.0)
    amb_ = [x_[1] for x_ in gen.ambiguous_site_enzymes() if "N" not in x_[2]]
    for e in (BsaI, BsmBI, SapI) + tuple(amb_):
        site, a, k = be.enzyme_geometry(e)
        for sig in (("N" * k, "N" * k), ("R" * k, "Y" * k), ("A" + "N" * (k - 1), "W" * k), ("ACGT"[:k], "TGCA"[:k]),
                    # signatures that overlap themselves (AAAA, ACAC ...): an occurrence may begin inside another one
                    ("A" * k, "C" * k), (("AC" * k)[:k], ("GT" * k)[:k]), (("AAT" * k)[:k], "T" * k)):
            for base in (core.Entry, core.EntryVector):
                cls = type("UserPart", (core.AbstractPart, base), dict(cutter=e, signature=sig))
                members = be.class_records(cls, rng, count=2 if e not in amb_ else 6)
                if e in amb_:
                    members = [s_ for s_ in members if ba.count_sites(s_, e) == (1, 1) and not set(be.occurrences(s_, site)) & set(be.occurrences(s_, gen.rc(site)))]
                    if not members:
                        continue
                for s in members + (be.class_records(generic_for(cls), rng, count=2) if e not in amb_ else []):
                    check(cls, s, "user signature %r" % (sig,))
                for r_ in range(1, len(members[0])):
                    check(cls, members[0][r_:] + members[0][:r_], "user signature %r, member rotated" % (sig,))
                # echoes: the letters just before / after each signature repeat its first / last letter (an occurrence of
                # the signature shifted by one or two letters overlaps the real one)
                for s in [members[0], members[0][-7:] + members[0][:-7], members[0][-11:] + members[0][:-11]]:
                    g_ = be.observe_entity(generic_for(cls)(CircularRecord(Seq(s), id="r")))
                    if g_["valid"] is not True:
                        continue
                    for which_ in ("overhang_start", "overhang_end"):
                        o_ = g_[which_]
                        if len(o_) != k:
                            continue      # (a wrong overhang of the generic class is reported by check() above)
                        pos_ = (s + s).upper().find(o_.upper())
                        for shift_ in (1, 2):
                            before = list(s)
                            for d_ in range(1, shift_ + 1):
                                before[(pos_ - d_) % len(s)] = o_[(-d_) % len(o_)] if False else o_[0]
                            check(cls, "".join(before), "echo of %s before it" % which_)
                            after = list(s)
                            for d_ in range(shift_):
                                after[(pos_ + len(o_) + d_) % len(s)] = o_[-1]
                            check(cls, "".join(after), "echo of %s after it" % which_)
    # characterize: a user kit
    for e in (BsaI,):
        Base = type("KitPart", (core.AbstractPart,), dict(cutter=e))
        kinds = [type("K%d" % i, (Base, core.Entry), dict(signature=sig)) for i, sig in enumerate((("AACC", "GGAT"), ("GGAT", "CTAA"), ("NNNN", "TTTT")))]
        recs = []
        for kcls in kinds:
            recs += be.class_records(kcls, rng, count=2)
        recs += [ba.clean(rng, 40, e), be.class_records(generic_for(kinds[0]), rng, count=1)[0]]
        for s in recs:
            evals += 1
            rec = CircularRecord(Seq(s), id="x")
            accepting = [kc for kc in kinds if kc(rec).is_valid()]
            try:
                ent = Base.characterize(rec)
                ok = bool(accepting) and type(ent) in accepting and ent.is_valid()
                got = type(ent).__name__
            except RuntimeError:
                ok = not accepting
                got = "RuntimeError"
            except Exception as ex:
                ok, got = False, repr(ex)
            distinct.add(("characterize", s[:12]))
            if not ok:
                viol.append(dict(name="characterize", what="characterize gave %s while the accepting candidates are %r" % (got, [k_.__name__ for k_ in accepting]),
                                 case=dict(record=s)))
            # rotation / lower case must not change the answer
            for t_ in (s.lower(), s[7:] + s[:7], s[-3:] + s[:-3]):
                evals += 1
                try:
                    g2 = type(Base.characterize(CircularRecord(Seq(t_), id="x"))).__name__
                except RuntimeError:
                    g2 = "RuntimeError"
                except Exception as ex:
                    g2 = repr(ex)
                if g2 != got:
                    viol.append(dict(name="characterize_variant", what="characterize gives %s on a rotated/lower-case spelling but %s on the record" % (g2, got), case=dict(record=t_)))
        # a part type defined *after* the base class has already characterised records is a candidate like the others
        late = type("KLate", (Base, core.Entry), dict(signature=("CCGA", "AGTC")))
        for s in be.class_records(late, rng, count=2):
            evals += 1
            rec = CircularRecord(Seq(s), id="late")
            accepting = [kc for kc in kinds + [late] if kc(rec).is_valid()]
            try:
                ent = Base.characterize(rec)
                ok, got = (type(ent) in accepting and ent.is_valid()), type(ent).__name__
            except RuntimeError:
                ok, got = not accepting, "RuntimeError"
            except Exception as ex:
                ok, got = False, repr(ex)
            distinct.add(("characterize-late", s[:12]))
            if not ok:
                viol.append(dict(name="characterize_late_subclass", what="after earlier characterize() calls on the base class, a record of a part type "
                                 "defined since then gives %s; the accepting candidates are %r" % (got, [k_.__name__ for k_ in accepting]),
                                 case=dict(record=s, history="Base.characterize(...) x%d, then class KLate(Base, Entry) defined" % len(recs))))
    # the first call of a process: characterize asked of a concrete kit type (and of its kit base) before anything else has
    # been typed -- the answer must be the one given later in the same process
    import subprocess, sys as _sys, json as _json
    firsts = []
    seen_mod = set()
    for cls in sig_classes:
        mod = cls.__module__
        if mod in seen_mod:
            continue
        seen_mod.add(mod)
        firsts.append((mod, cls.__name__, be.class_records(cls, rng, count=1)[0]))
    for (mod, cname, text) in firsts:
        evals += 1
        code = FIRST_CALL % dict(verif=os.path.dirname(os.path.dirname(os.path.abspath(__file__))), repo=ctx.repo_root, mod=mod, cname=cname, text=text)
        try:
            r = subprocess.run([_sys.executable, "-c", code], stdout=subprocess.PIPE, stderr=subprocess.PIPE, universal_newlines=True, timeout=300,
                               env=dict(os.environ, PYTHONDONTWRITEBYTECODE="1"))
            got = _json.loads(r.stdout.strip().splitlines()[-1]) if r.returncode == 0 and r.stdout.strip() else dict(error=(r.stderr or "")[-300:])
        except Exception as ex:
            got = dict(error=repr(ex))
        distinct.add(("first-call", cname))
        if "error" in got:
            viol.append(dict(name="first_call_%s" % cname, what="fresh interpreter, %s.%s: the probe failed: %s" % (mod, cname, got["error"]), case=dict(cls=cname, record=text)))
        elif got["valid"] is not True and got["first"] == got["later"]:
            continue      # generator artefact (the drawn member is not accepted by its own class, e.g. a further site): nothing to compare
        elif got["first"] != got["later"] or got["first"] != cname:
            viol.append(dict(name="first_call_%s" % cname, what="fresh interpreter: %s.characterize(member) as the very first call gives %s, after typing the record "
                             "with the class it gives %s (the class accepts the record: %r)" % (cname, got["first"], got["later"], got["valid"]),
                             case=dict(cls=cname, record=text)))
    samples.append(dict(classes=len(sig_classes), example=sig_classes[0].__name__, signature=list(sig_classes[0].signature)))
    uniq = {}
    for v_ in viol:
        uniq.setdefault(v_["name"], v_)
    return dict(evaluations=evals, distinct_nontrivial=len(distinct),
                rule="every signature-typed kit class: members, every single-letter near-miss of both overhangs, members of sibling "
                     "types, generic modules with random overhangs -- verdict compared with (generic class accepts and its reported "
                     "overhangs match the signature under IUPAC rules), restricted to records with a unique generic match; user "
                     "signatures incl. degenerate ones over BsaI/BsmBI/SapI in both roles; characterize on a user kit (accepting "
                     "candidates vs result, RuntimeError iff none; rotated and lower-case spellings)",
                bound="2 members per class, all 3k near misses per overhang", samples=samples,
                violations=list(uniq.values())[:20], n_violations=len(uniq))


def replay(ctx, ob, model):
    if ob.meta.get("clause") == "signature-structure":
        return replay_literal(ctx, ob)
    from contracts.replays import replay as r
    return r(ctx, ob, model)


def replay_literal(ctx, ob):
    """a literal obligation C05.C1 failed: instances of the expected (generic + signature) structure and of the observed
    one are typed natively by the part class and by the signature-free class of the same enzyme"""
    from pyvc import native
    from Bio.Seq import Seq
    ns = native.load(ctx.repo_root)
    kits = native.kits(ctx.repo_root)
    core = ns["moclo.core"]
    CircularRecord = ns["moclo.record"].CircularRecord
    cls = next((c for c in gen.concrete_classes(kits) if c.__name__ == ob.meta.get("function")), None)
    if cls is None:
        return None, "class not found"
    role_mod = issubclass(cls, core.AbstractModule)
    Generic = type("Generic", (core.Entry if role_mod else core.EntryVector,), dict(cutter=cls.cutter))
    rng = random.Random(3)
    site, a, k = be.enzyme_geometry(cls.cutter)
    for which in ("expected", "observed"):
        pat = ob.meta.get(which) or ""
        for _ in range(6):
            try:
                text, _spans = gen.instance(pat, rng, run=8, avoid=(site, gen.rc(site)))
            except Exception:
                break
            text = text + ba.clean(rng, 12, cls.cutter)
            g = be.observe_entity(Generic(CircularRecord(Seq(text), id="r")))
            p = be.observe_entity(cls(CircularRecord(Seq(text), id="r")))
            want = g["valid"] is True and iupac_match(cls.signature[0], g["overhang_start"]) and iupac_match(
                cls.signature[1], g["overhang_end"])
            if (p["valid"] is True) != want:
                return True, dict(call="%s(CircularRecord(Seq(%r))).is_valid()" % (cls.__name__, text), observed=p["valid"],
                                  expected=want, generic=dict(valid=g["valid"], overhang_start=g.get("overhang_start"),
                                                              overhang_end=g.get("overhang_end")),
                                  signature=list(cls.signature), instance_of=which + " structure " + pat)
    return False, dict(note="no instance of the expected/observed structure is typed differently")


LEVEL_TEXT = ("Deductive: AbstractPart.structure is executed symbolically for every enzyme geometry of Bio.Restriction and both "
              "roles with a symbolic signature and shown to be the generic structure with groups 1 and 3 replaced by the signature "
              "halves; each of the signature-typed kit classes is additionally checked literally; the characterize loop is "
              "verified (first accepting candidate; RuntimeError exactly when none). The step from `same shape, narrower class "
              "words` to `accepted iff generic accepts and overhangs match` is the assumed semantics of re.")
LEVEL_NOTE = ("Assumed: re semantics (RE4/RE5 refinement), Bio.Restriction constants, reflection (D-REFLECT). Bounded part (not proved): members, "
              "all one-letter near-misses, siblings, random generic modules for every signature-typed class; user signatures; "
              "characterize on a user kit.")
