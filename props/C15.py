# coding: utf-8
"""C15 -- A circular record behaves as a circle, never as a line."""
from __future__ import annotations

import copy
import itertools

from pyvc import term as tm
from pyvc.term import INT, BOOL, STR
from pyvc.solve import Obligation
from contracts.replays import replay  # noqa: F401

ID = "C15"
LEVEL = "proof"
CROSSCHECK = True   # run the CPython cross-check of the executor encoding (pyvc/crosscheck.py)
F = "moclo/moclo/record.py"
FILES = [F]
FUNCTIONS = [(F, "CircularRecord.__contains__"), (F, "CircularRecord.__add__"), (F, "CircularRecord.__radd__"),
             (F, "CircularRecord.__getitem__"), (F, "CircularRecord.__init__")]
ASSUMES = ["D-SEQ", "D-REC-SLICE", "D-REC-INIT", "D-COPY"]
TRUSTED = ["SeqRecord.__getitem__/__init__ (D-REC-SLICE, D-REC-INIT)", "copy.deepcopy (D-COPY)"]
EXPLANATION = ("body VCs of __contains__, __add__, __radd__ (through the real _ambiguous decorator), __getitem__, "
               "__init__; lemmas: the closed form of membership equals `occurs in some rotation`, and is the same "
               "for every rotation of the record")


def obligations(ctx):
    return ctx.verify(FUNCTIONS) + ctx.part(lemmas)


def lemmas(ctx):
    out = []
    s, c = tm.V("s", STR), tm.V("c", STR)
    n = tm.slen(s)
    k, j = tm.V("k", INT), tm.V("j", INT)
    pos = [tm.lt(0, n)]
    fits = tm.le(tm.slen(c), n)
    closed = tm.and_(fits, tm.contains(tm.concat(s, s), c))
    # L1 <= : occurs in some rotation  =>  the closed form
    out.append(Obligation("C15.L1a occurs in a rotation => contained", pos + [fits, tm.le(0, k), tm.lt(k, n),
                                                                              tm.contains(tm.rot_i(s, k), c)],
                          closed, kind="B", text="|c|<=n and c in rot(s,k) => c in s.s"))
    # L1 => : the closed form gives a rotation that contains it (witness from indexof)
    p = tm.indexof(tm.concat(s, s), c, 0)
    p1 = tm.ite(tm.lt(p, n), p, tm.sub(p, n))
    kw = tm.pymod(tm.sub(n, p1), n)
    out.append(Obligation("C15.L1b contained => occurs in the rotation starting at its first occurrence", pos + [closed],
                          tm.and_(tm.le(0, kw), tm.lt(kw, n), tm.contains(tm.rot_i(s, kw), c)), kind="B",
                          text="witness k = (n - indexof(s.s,c) mod n) mod n"))
    # L2: the rotations of a rotation are the rotations of the record, so membership is rotation-invariant
    l2a = Obligation("C15.L2a rot(rot(s,k),j) = rot(s,(k+j) mod n)", pos + [tm.le(0, k), tm.lt(k, n), tm.le(0, j), tm.lt(j, n)],
                     tm.eq(tm.rot_i(tm.rot_i(s, k), j), tm.rot_i(s, tm.pymod(tm.add(k, j), n))), kind="B",
                     text="rotations compose")
    out.append(l2a)
    out.append(Obligation("C15.L2b every rotation of s is a rotation of rot(s,k)", pos + [tm.le(0, k), tm.lt(k, n), tm.le(0, j), tm.lt(j, n)],
                          tm.and_(tm.eq(tm.pymod(tm.add(k, tm.pymod(tm.sub(j, k), n)), n), j),
                                  tm.le(0, tm.pymod(tm.sub(j, k), n)), tm.lt(tm.pymod(tm.sub(j, k), n), n)), kind="B",
                          text="j' = (j-k) mod n satisfies (k+j') mod n = j", solvers=["z3new", "cvc5"]))
    out.append(Obligation("C15.L2c length of a rotation", pos + [tm.le(0, k), tm.lt(k, n)],
                          tm.eq(tm.slen(tm.rot_i(s, k)), n), kind="B", text="|rot(s,k)| = |s|"))
    # must-fail: linear membership is not circular membership
    out.append(Obligation("C15.MF1 must-fail: plain `c in s` is not circular membership", pos + [closed],
                          tm.contains(s, c), kind="V", expect="sat", text="canned wrong body (str(seq) not doubled)"))
    return out


def bounded(ctx):
    from pyvc import native
    from Bio.Seq import Seq
    from Bio.SeqRecord import SeqRecord
    ns = native.load(ctx.repo_root)
    from bounded import common as bc
    CircularRecord = ns["moclo.record"].CircularRecord
    viol, samples = [], []
    evals = 0
    distinct = set()
    maxn = 4 if ctx.tier == "quick" else 6
    maxq = 5 if ctx.tier == "quick" else 8
    alphabet = "ACG"
    queries = [""]
    for m in range(1, maxq + 1):
        if m <= 3 or ctx.tier != "quick":
            queries += ["".join(t) for t in itertools.product(alphabet[:2] if m > 4 else alphabet, repeat=m)]
        else:
            queries += ["".join(t) for t in itertools.product(alphabet[:2], repeat=m)]
    for n in range(1, maxn + 1):
        for tup in itertools.product(alphabet, repeat=n):
            s = "".join(tup)
            rots = [s[i:] + s[:i] for i in range(n)]
            rec = CircularRecord(Seq(s), id="x", annotations={"topology": "circular"})
            rrecs = [CircularRecord(Seq(r), id="x") for r in rots]
            if n % 2:
                for r_ in [rec] + rrecs[1:]:
                    bc.preuse(r_, ns)    # records that have been searched / sliced / rotated before
            for q in queries:
                evals += 1
                want = len(q) <= n and any(q in r for r in rots)
                got = [q in rr for rr in rrecs]
                if q and want:
                    distinct.add((s, q))
                if any(g != want for g in got):
                    viol.append(dict(name="contains_%s_%s" % (s, q), what="%r in CircularRecord(%r) (all rotations) = %r, expected %r" % (q, s, got, want),
                                     case=dict(seq=s, query=q), expected=want, observed=got))
            # + is refused
            for other in ("A", Seq("A"), SeqRecord(Seq("A")), rec, 1, None):
                for side in ("r+x", "x+r"):
                    evals += 1
                    try:
                        (rec + other) if side == "r+x" else (other + rec)
                        viol.append(dict(name="add_%s" % s, what="%s with x=%r did not raise TypeError" % (side, other),
                                         case=dict(seq=s, other=repr(other), side=side)))
                    except TypeError:
                        pass
                    except Exception as e:
                        viol.append(dict(name="add_%s" % s, what="%s with x=%r raised %r, not TypeError" % (side, other, e),
                                         case=dict(seq=s, other=repr(other), side=side)))
            # slices (the plasmid declared circular in any of the spellings the constructor accepts, or not at all)
            spelled = [rec, CircularRecord(Seq(s), id="x", annotations={"topology": "Circular", "molecule_type": "DNA"}),
                       CircularRecord(Seq(s), id="x", annotations={"topology": "CIRCULAR"}), rrecs[0]]
            for a in list(range(-n - 1, n + 2)) + [None]:
                for b in list(range(-n - 1, n + 2)) + [None]:
                    for rec_ in (spelled if (a in (None, 0, 1) and b in (None, n, n - 1)) else spelled[:1]):
                        evals += 1
                        sl = rec_[a:b]
                        ok = (type(sl) is SeqRecord and str(sl.seq) == s[a:b]
                              and str(sl.annotations.get("topology", "linear")).lower() != "circular")
                        if not ok:
                            viol.append(dict(name="slice_%s_%s_%s" % (s, a, b), what="CircularRecord(%r, topology=%r)[%r:%r] -> %s %r topology=%r" % (
                                s, rec_.annotations.get("topology"), a, b, type(sl).__name__, str(sl.seq), sl.annotations.get("topology")),
                                             case=dict(seq=s, lo=a, hi=b, topology=rec_.annotations.get("topology")), expected=s[a:b], observed=str(sl.seq)))
            # stepped slices too are ordinary linear slices
            for (a, b, c) in [(None, None, 2), (None, None, -1), (1, None, 2), (None, -1, 3), (n, 0, -2), (0, n, n), (-n, None, 1), (None, None, -n - 1)]:
                for rec_ in (spelled[:2] if c in (2, -1) else spelled[:1]):
                    evals += 1
                    try:
                        sl = rec_[a:b:c]
                        ok = (type(sl) is SeqRecord and str(sl.seq) == s[a:b:c]
                              and str(sl.annotations.get("topology", "linear")).lower() != "circular")
                        got = "%s %r topology=%r" % (type(sl).__name__, str(sl.seq), sl.annotations.get("topology"))
                    except Exception as e:
                        ok, got = False, "raised %r" % (e,)
                    if not ok:
                        viol.append(dict(name="stepslice_%s_%s_%s_%s" % (s, a, b, c), what="CircularRecord(%r, topology=%r)[%r:%r:%r] -> %s" % (
                            s, rec_.annotations.get("topology"), a, b, c, got),
                                         case=dict(seq=s, lo=a, hi=b, step=c, topology=rec_.annotations.get("topology")), expected=s[a:b:c], observed=got))
            if len(samples) < 2 and n == 3:
                samples.append(dict(seq=s, query=s[-1] + s[0], contained=(s[-1] + s[0]) in rec))
    # declared linear cannot be wrapped; wrapping copies
    from Bio.SeqFeature import SeqFeature, FeatureLocation
    for topo, should_raise in (("linear", True), ("LINEAR", True), ("circular", False), ("Circular", False), (None, False)):
        evals += 1
        ann = {} if topo is None else {"topology": topo}
        ann.update({"keywords": ["k1"], "structured_comment": {"a": {"b": "c"}}, "references": [object()]})
        src = SeqRecord(Seq("ACGT"), id="i", annotations=copy.deepcopy({k: v for k, v in ann.items() if k != "references"}), features=[SeqFeature(FeatureLocation(0, 2), type="x", qualifiers={"label": ["l"]})],
                        letter_annotations={"q": [1, 2, 3, 4]})
        src0 = src
        for how in ("record", "seq", "circular-record", "rotated-record", "wrapped-twice"):
            src = src0
            try:
                if how in ("circular-record", "rotated-record", "wrapped-twice") and not should_raise:
                    # the record wrapped may itself be a plasmid: built directly, the result of a rotation, or a wrapper's copy
                    src = CircularRecord(copy.deepcopy(src0))
                    if how == "rotated-record":
                        src = (src >> 1) << 1
                    elif how == "wrapped-twice":
                        src = CircularRecord(src)
                elif how != "record" and how != "seq":
                    continue
                w = CircularRecord(src) if how != "seq" else CircularRecord(src.seq, annotations={k: v for k, v in ann.items() if k == "topology"})
                raised = False
            except ValueError:
                raised = True
            if raised != should_raise:
                viol.append(dict(name="wrap_%s_%s" % (topo, how), what="CircularRecord(%s with topology=%r): raised=%r expected %r" % (how, topo, raised, should_raise),
                                 case=dict(topology=topo, how=how)))
            if not raised and how != "seq":
                if w is src:
                    viol.append(dict(name="wrap_same_object", what="CircularRecord(%s) is the very object it was given, not a copy" % how, case=dict(topology=topo, how=how)))
                    continue
                w.id = "edited-id"
                w.features[0].qualifiers["label"].append("edited")
                w.features.append(None)
                w.annotations["new"] = 1
                w.annotations["keywords"].append("edited")              # nested mutable values must not be shared either
                w.annotations["structured_comment"]["a"]["b"] = "edited"
                w.letter_annotations["q"][0] = 99
                w.dbxrefs.append("db")
                if (src.features[0].qualifiers["label"] != ["l"] or len(src.features) != 1 or "new" in src.annotations
                        or src.annotations["keywords"] != ["k1"] or src.annotations["structured_comment"] != {"a": {"b": "c"}}
                        or src.letter_annotations["q"][0] != 1 or src.dbxrefs or src.id != "i"):
                    viol.append(dict(name="wrap_copy", what="editing CircularRecord(%s) reached the original record" % how,
                                     case=dict(topology=topo, how=how)))
    return dict(evaluations=evals, distinct_nontrivial=len(distinct),
                rule="all words over {A,C,G} of length 1..%d x all queries up to length %d (incl. empty, longer than the record, "
                     "origin-spanning) x every rotation; every operand kind on both sides of +; every slice bound in "
                     "[-n-1,n+1] and None; topology declarations; copy independence.  non-trivial = non-empty query contained "
                     "(distinct by word, query)" % (maxn, maxq),
                bound="|s| <= %d, |query| <= %d" % (maxn, maxq), samples=samples, violations=viol[:20], n_violations=len(viol))


LEVEL_TEXT = ("Deductive: __contains__, __add__/__radd__ (as decorated), __getitem__, __init__ are checked path by path "
              "for all sequences, queries, slice bounds and operand kinds; lemmas show the membership closed form is "
              "exactly `no longer than the record and occurs in some rotation` and hence rotation-invariant.")
LEVEL_NOTE = ("Assumed: SeqRecord slicing/constructor, deepcopy (freshness of copies is a ghost: container identity), "
              "executor encoding, solvers. Bounded (not proved): words <= 4 (6 thorough) over 3 letters, real deep-copy "
              "independence check on one record.")
