# coding: utf-8
"""C09 -- The product records its provenance and is a complete GenBank record."""
from __future__ import annotations

import io
import random

from pyvc import term as tm
from pyvc.term import INT, BOOL, STR
from pyvc.solve import Obligation
from contracts import assembly_c as ac
from contracts.assembly_c import frag, SEQI
from bounded import gen, assembly as ba, entities as be, common as bc

ID = "C09"
LEVEL = "proof"
ASM, UTL, MOD, VEC = ("moclo/moclo/core/_assembly.py", "moclo/moclo/core/_utils.py", "moclo/moclo/core/modules.py",
                      "moclo/moclo/core/vectors.py")
FILES = [ASM, UTL]
FUNCTIONS = [(UTL, "add_as_source"), (ASM, "AssemblyManager._annotate_assembly"), (MOD, "AbstractModule.target_sequence"),
             (VEC, "AbstractVector.target_sequence"), (ASM, "AssemblyManager._generate_assembly"),
             (VEC, "AbstractVector.assemble")]
ASSUMES = ["D-REC-ADD (right operand's features shifted by the length of the left)", "D-REC-SLICE", "D-LOC",
           "D-IO-GB: Bio.SeqIO GenBank write/read round-trips a record with a legal id, molecule_type set and all locations "
           "within [0,n] (strand None read back as +1, letter case normalised): assumed, exercised by the bounded part",
           "induction rule for the tiling lemma (base and step discharged)"]
TRUSTED = ["Bio.SeqIO GenBank writer/parser", "SeqRecord.__add__ feature shifting"]
EXPLANATION = ("body VCs: add_as_source appends exactly one source feature [0,len) naming the source record; both "
               "target_sequence() attach it to the fragment; _annotate_assembly writes id, name, topology, molecule type and the "
               "comment naming the vector and every module in order; lemmas: the generated source features of consecutive "
               "fragments are consecutive intervals and tile the product; each covers a verbatim stretch of its source")


def obligations(ctx):
    obs = ctx.verify(FUNCTIONS)
    obs = [o for o in obs if "citation" not in o.name]
    return obs + ctx.part(lemmas)


def lemmas(ctx):
    out = []
    models = ctx.executor().models
    ac.need_cat(models)
    P, e = tm.V("P", SEQI), tm.V("e", INT)
    Pe = tm.seqcat(P, tm.sequnit(e))
    defs = models.defs_for(tm.eq(tm.app("cat", STR, P), tm.S("")), [])
    kw = dict(defs=defs, decls=models.decls, sorts=models.sorts)
    # the source feature of the fragment appended at step |P| is shifted by |cat(P)| (D-REC-ADD) and spans
    # [ |cat(P)|, |cat(P)| + |frag(e)| ) = [ |cat(P)|, |cat(P.[e])| ): consecutive intervals
    off0 = tm.slen(tm.app("cat", STR, P))
    off1 = tm.slen(tm.app("cat", STR, Pe))
    out.append(Obligation("C09.L1a tiling, step: the source feature of the next fragment starts where the previous ones end",
                          [models.unfold("cat", Pe)], tm.eq(tm.add(off0, tm.slen(frag(e))), off1), kind="B",
                          text="[off_j, off_j + |frag_j|) with off_{j+1} = off_j + |frag_j|", **kw))
    out.append(Obligation("C09.L1b tiling, base: the first source feature starts at 0", [tm.eq(tm.seqlen(P), 0)],
                          tm.eq(off0, 0), kind="B", text="off_0 = 0", **kw))
    v = tm.V("v", INT)
    total = tm.slen(tm.concat(tm.app("cat", STR, P), frag(v)))
    out.append(Obligation("C09.L1c tiling, end: the vector's source feature ends at the end of the product", [],
                          tm.eq(tm.add(off0, tm.slen(frag(v))), total), kind="B",
                          text="off_q + |frag(v)| = |product|: the intervals cover [0, |product|) exactly once", **kw))
    # L2 verbatim: a fragment is a stretch of its source plasmid (contract of target_sequence): occurs in it circularly
    s = tm.V("s", STR)
    n = tm.slen(s)
    c1, L = tm.V("c1", INT), tm.V("L", INT)
    hyp = [tm.lt(0, n), tm.le(0, c1), tm.le(0, L), tm.le(tm.add(c1, L), tm.mul(2, n)), tm.le(L, n)]
    out.append(Obligation("C09.L2 the stretch a source feature covers occurs verbatim in the plasmid it names", hyp,
                          tm.contains(tm.concat(s, s), tm.substr(tm.concat(s, s), c1, L)), kind="B",
                          text="frag = (s.s)[c1:c1+L] is contained in the circular text of its source"))
    # L3 all product locations lie within [0,n]: source features do by L1; inherited ones by C08 (slice keeps only contained ones)
    off, fl = tm.V("off", INT), tm.V("fl", INT)
    out.append(Obligation("C09.L3 generated locations lie inside the product", [tm.le(0, off), tm.le(0, fl), tm.le(tm.add(off, fl), total)],
                          tm.and_(tm.le(0, off), tm.le(tm.add(off, fl), total)), kind="B", text="precondition of D-IO-GB for source features", **kw))
    return out


# ---------------------------------------------------------------------------------------------- bounded
def check_product(prod, vec, mods_in_chain, all_mods, pid, pname, viol, label):
    """tiling / provenance / annotations / GenBank round trip on one product"""
    from Bio import SeqIO
    n = len(prod.seq)
    pb = []
    if type(prod).__name__ != "CircularRecord":
        pb.append("product is a %s" % type(prod).__name__)
    if prod.id != pid or prod.name != pname:
        pb.append("id/name %r/%r, requested %r/%r" % (prod.id, prod.name, pid, pname))
    if str(prod.annotations.get("topology")).lower() != "circular":
        pb.append("topology %r" % prod.annotations.get("topology"))
    comment = prod.annotations.get("comment", [])
    ctext = "\n".join(comment) if isinstance(comment, list) else str(comment)
    for x in [vec] + list(all_mods):
        if x.record.id not in ctext:
            pb.append("comment does not name %s" % x.record.id)
    src = [f for f in prod.features if f.type == "source" and "plasmid" in f.qualifiers]
    cover = [0] * n
    ids = {x.record.id: x for x in [vec] + list(mods_in_chain)}
    for f in src:
        for p in f.location.parts:
            for q in range(int(p.start), int(p.end)):
                if 0 <= q < n:
                    cover[q] += 1
                else:
                    pb.append("source feature outside the product")
        plasmid = f.qualifiers["plasmid"]
        plasmid = plasmid[0] if isinstance(plasmid, list) else plasmid
        owner = ids.get(plasmid)
        stretch = str(f.location.extract(prod.seq))
        if owner is None:
            pb.append("source feature names %r, not an input of the chain" % plasmid)
        elif stretch.upper() not in (str(owner.record.seq) * 2).upper():
            pb.append("stretch covered by the source feature of %s does not occur in that plasmid" % plasmid)
    if len(src) != len(mods_in_chain) + 1:
        pb.append("%d generated source features for %d retained fragments" % (len(src), len(mods_in_chain) + 1))
    if any(c != 1 for c in cover):
        pb.append("source features do not tile the product (coverage min %d max %d)" % (min(cover), max(cover)))
    # GenBank round trip
    try:
        buf = io.StringIO()
        SeqIO.write(prod, buf, "genbank")
        back = SeqIO.read(io.StringIO(buf.getvalue()), "genbank")
        if str(back.seq).upper() != str(prod.seq).upper():
            pb.append("GenBank round trip changes the sequence")
        if str(back.annotations.get("topology")).lower() != "circular":
            pb.append("GenBank round trip loses the circular topology")
        def sig(rec):
            return sorted((f.type, tuple((int(p.start), int(p.end), 1 if p.strand is None else p.strand) for p in f.location.parts)) for f in rec.features)
        if sig(back) != sig(prod):
            pb.append("GenBank round trip changes feature types/locations")
    except Exception as ex:
        pb.append("GenBank write/read failed: %r" % (ex,))
    if pb:
        viol.append(dict(name="product_%s" % label, what="%s: %s" % (label, "; ".join(pb[:4])), case=dict(label=label), observed=pb[:8]))
    return not pb


def bounded(ctx):
    from pyvc import native
    from Bio.Seq import Seq
    from Bio.Restriction import BsaI, BsmBI, BpiI
    ns = native.load(ctx.repo_root)
    kits = native.kits(ctx.repo_root)
    core = ns["moclo.core"]
    CircularRecord = ns["moclo.record"].CircularRecord
    rng = random.Random(ctx.seed)
    viol, samples = [], []
    evals = 0
    distinct = set()
    for e in (BsaI, BsmBI, BpiI):
        Mod = type("GModule", (core.Entry,), dict(cutter=e))
        Vec = type("GVector", (core.EntryVector,), dict(cutter=e))
        site, a, k = be.enzyme_geometry(e)
        for chain_len in (1, 2, 3):
            ovs = []
            while len(ovs) < chain_len + 2:
                o = ba.clean(rng, k, e)
                if o in ovs or gen.rc(o) in ovs or gen.rc(o) == o:
                    continue
                ovs.append(o)
            for pid, pname in (("assembly", "assembly"), ("pXY_001", "my_plasmid"), ("A" * 16, "n")):
                evals += 1
                mods = []
                for i in range(chain_len):
                    text = None
                    while text is None:   # (some overhang/target pairs spell a recognition site: draw another target)
                        t = ba.clean(rng, rng.randint(4, 9), e)
                        text = ba.build_module(e, ovs[i], t, ovs[i + 1], rng)
                    r = rng.randrange(len(text))
                    # (identifiers as laboratories write them: long, with hyphens, dots and blanks-free punctuation -- the comment
                    # must still name each of them, whatever the line lengths)
                    mid = "mod%d" % i if pid != "A" * 16 else "pLAB-%04d_mRuby2-yeast-codon-optimised-clone.%d" % (245 + 37 * i, i + 1)
                    rec = CircularRecord(Seq(ba.rotate(text, r)), id=mid, name="mod%d" % i,
                                         annotations={"topology": "circular", "molecule_type": "DNA"})
                    if (i + chain_len) % 2 == 0:
                        # plasmids that were themselves assembled, or exported by an editor, carry provenance features of
                        # their own: a `source` feature naming an ancestor (here on the discarded backbone: it is not
                        # inherited, and the product must name *this* plasmid, not its ancestor)
                        from Bio.SeqFeature import SeqFeature, FeatureLocation
                        bb = (text.index(gen.rc(site)) + len(site) + 1 - r) % len(text)
                        if bb + 3 <= len(text):
                            rec.features.append(SeqFeature(FeatureLocation(bb, bb + 3, strand=1), type="source", qualifiers={
                                "organism": ["synthetic DNA construct"], "mol_type": ["other DNA"], "plasmid": ["ancestor%d" % i],
                                "label": ["source: ancestor%d" % i]}))
                    mods.append(Mod(rec))
                stray_text = None
                while stray_text is None:
                    stray_text = ba.build_module(e, ovs[chain_len + 1], ba.clean(rng, 6, e), ovs[1] if chain_len > 1 else ovs[chain_len + 1], rng)
                stray = Mod(CircularRecord(Seq(stray_text), id="stray", name="stray"))
                vtext, vfrag = ba.build_vector(e, ovs[chain_len], ovs[0], rng)
                if vtext is None:
                    continue
                vec = Vec(CircularRecord(Seq(ba.rotate(vtext, rng.randrange(len(vtext)))), id="vec" if pid != "A" * 16 else "pDEST-backbone-low-copy-KanR-2020-03-rev.B_destination-vector-for-level-1", name="vec",
                                         annotations={"topology": "circular", "molecule_type": "DNA"}))
                with_stray = rng.random() < 0.4 and chain_len == 1
                supplied = mods + ([stray] if with_stray else [])
                kw = {} if pid == "assembly" else dict(id=pid, name=pname)
                got, prod, w = ba.run_assembly(vec, supplied, **kw)
                distinct.add((e.__name__, chain_len, pid))
                if got[0] != "product":
                    viol.append(dict(name="outcome_%s_%d" % (e.__name__, chain_len), what="assembly ended with %r" % (got,), case={}))
                    continue
                check_product(prod, vec, mods, supplied, pid, pname, viol, "%s chain %d id %s" % (e.__name__, chain_len, pid))
                # the same module and vector objects used again (combinatorial use): the second product is as complete
                evals += 1
                got2, prod2, _ = ba.run_assembly(vec, supplied, **kw)
                if got2[0] == "product":
                    check_product(prod2, vec, mods, supplied, pid, pname, viol, "%s chain %d id %s (objects re-used)" % (e.__name__, chain_len, pid))
                else:
                    viol.append(dict(name="reuse_%s_%d" % (e.__name__, chain_len), what="second assembly with the same objects ended with %r" % (got2,), case={}))
                if len(samples) < 2:
                    samples.append(dict(enzyme=e.__name__, chain=chain_len, id=prod.id,
                                        source_features=[str(f.location) for f in prod.features if f.type == "source"]))
    # two-level composition with a kit whose vectors embed the next level's sites: CIDAR entries -> cassette
    try:
        cidar = kits["cidar"]
        ev_struct = cidar.CIDAREntryVector.structure()
        evals += 1
        from props.C11 import two_level_cidar  # shared with C11's stand-in
        ok, detail = two_level_cidar(ns, kits, rng)
        distinct.add(("cidar-two-level",))
        if not ok:
            viol.append(dict(name="two_level", what="two-level CIDAR assembly: %s" % detail, case={}))
    except ImportError:
        pass
    except Exception as ex:
        viol.append(dict(name="two_level_setup", what="two-level assembly could not be run: %r" % (ex,), case={}))
    # the shared scenarios: this property's oracle over the cross product of the unusual input dimensions
    from bounded import scenarios as sn
    n_sw, d_sw, v_sw = sn.sweep(ctx, ns, 'provenance')
    evals += n_sw
    distinct |= {("shared",) + tuple(map(str, k_)) for k_ in d_sw}
    viol.extend(v_sw)
    uniq = {}
    for v_ in viol:
        uniq.setdefault(v_["name"], v_)
    return dict(evaluations=evals, distinct_nontrivial=len(distinct),
                rule="" + sn.SWEEP_RULE + "; BsaI/BsmBI/BpiI vector + chains of 1-3 modules at random rotations, three id/name choices (default, custom, "
                     "16-character id), sometimes an unused module; checked: circular record, id/name, topology, comment names the "
                     "vector and every supplied module, one generated source feature per retained fragment, coverage of every "
                     "nucleotide exactly once, each stretch occurs verbatim in the plasmid it names, real Bio.SeqIO GenBank "
                     "write+read (sequence, topology, feature types and locations, strand None = +1); a two-level CIDAR composition",
                bound="3 enzymes x chains <= 3 x 3 ids", samples=samples, violations=list(uniq.values())[:20], n_violations=len(uniq))


LEVEL_TEXT = ("Deductive: add_as_source, both target_sequence() (one source feature [0,len) naming the source id), "
              "_annotate_assembly (id, name, circular topology, molecule type, comment with the vector id and the module ids in "
              "order) are verified; tiling and verbatim origin are lemmas over the walk's postcondition and D-REC-ADD; the "
              "GenBank round trip itself is Biopython code and is assumed (exercised by the bounded part).")
LEVEL_NOTE = ("Assumed: SeqRecord + (feature shift), Bio.SeqIO (D-IO-GB), induction rule. Bounded part (not proved): 27 assemblies "
              "with real GenBank write/read, plus a two-level CIDAR composition.")
