# coding: utf-8
"""C14 -- Reverse complement of a circular record stays circular and loses nothing."""
from __future__ import annotations

import copy

from pyvc import term as tm
from pyvc.term import INT, BOOL, STR
from pyvc.solve import Obligation
from bounded import common as bc, gen

ID = "C14"
LEVEL = "proof"
F = "moclo/moclo/record.py"
FILES = [F]
FUNCTIONS = [(F, "CircularRecord.reverse_complement"), (F, "CircularRecord.__init__"),
             # "reverse-complementing commutes with rotation": the two rotation operators, for every amount (any int)
             (F, "CircularRecord.__rshift__"), (F, "CircularRecord.__lshift__")]
ASSUMES = ["D-REC-RC: SeqRecord.reverse_complement flips every feature (start' = n - end, end' = n - start, strand' = -strand, "
           "parts reversed) and reverses letter annotations -- Biopython code, assumed; exercised by the bounded part",
           "rc axioms (docs/source/theory/definitions.rst): length-preserving, involutive, rc(x.y) = rc(y).rc(x), letter-wise "
           "complement", "D-REC-INIT", "D-COPY"]
TRUSTED = ["Bio.SeqRecord.reverse_complement / SeqFeature._flip"]
EXPLANATION = ("body VC of reverse_complement: a CircularRecord is returned whose text is rc(s), with features and letter "
               "annotations delegated with the signature's defaults (features kept, flipped); lemmas over the rc axioms and the flip "
               "formula: twice = identity, a flipped part denotes the complement of the same nucleotides on the other strand (also "
               "for parts extending past n), reverse complement commutes with rotation")


def obligations(ctx):
    obs = ctx.verify(FUNCTIONS)
    # (as in C13: where the literal coordinates of a rotated part start is C08's business; C14 reads them modulo the length)
    obs = [o for o in obs if "part-start-normalised" not in o.name]
    return obs + ctx.part(lemmas)


def rc(x):
    return tm.app("rc", STR, x)


def lemmas(ctx):
    out = []
    A, B = tm.V("A", STR), tm.V("B", STR)
    x, y = tm.V("x", STR), tm.V("y", STR)
    anti = tm.forall([x, y], tm.eq(rc(tm.concat(x, y)), tm.concat(rc(y), rc(x))))
    invol = tm.forall([x], tm.eq(rc(rc(x)), x))
    lenp = tm.forall([x], tm.eq(tm.slen(rc(x)), tm.slen(x)))
    s = tm.concat(A, B)
    # L2: twice = identity on the sequence
    out.append(Obligation("C14.L2 reverse complement twice gives back the sequence", [invol], tm.eq(rc(rc(s)), s), kind="B",
                          text="rc(rc(s)) = s"))
    # L4: rc(r >> k) = rc(r) << k   with s = A.B, k = |B|:  r >> k = B.A ; rc(B.A) = rc(A).rc(B) ; rc(s) = rc(B).rc(A) << |rc(B)|
    out.append(Obligation("C14.L4 reverse complement commutes with rotation (sequence)", [anti, lenp],
                          tm.and_(tm.eq(rc(tm.concat(B, A)), tm.concat(rc(A), rc(B))),
                                  tm.eq(rc(tm.concat(A, B)), tm.concat(rc(B), rc(A))), tm.eq(tm.slen(rc(B)), tm.slen(B))),
                          kind="B", text="rc(B.A) is rc(A.B) with its first |B| letters moved to the end: rc(r >> |B|) = rc(r) << |B|"))
    # L3: flip arithmetic -- position p of a part [st,en) maps to n-1-p in [n-en, n-st); read modulo n
    n, st, en, p = tm.V("n", INT), tm.V("st", INT), tm.V("en", INT), tm.V("p", INT)
    st2, en2 = tm.sub(n, en), tm.sub(n, st)
    q = tm.sub(tm.sub(n, 1), p)
    hyp = [tm.lt(0, n), tm.le(0, st), tm.le(st, en), tm.le(st, p), tm.lt(p, en), tm.le(en, tm.add(st, n))]
    out.append(Obligation("C14.L3a a flipped part covers exactly the mirrored positions", hyp,
                          tm.and_(tm.le(st2, q), tm.lt(q, en2), tm.eq(tm.sub(en2, st2), tm.sub(en, st))), kind="B",
                          text="p in [st,en) <=> n-1-p in [n-en, n-st), same length"))
    out.append(Obligation("C14.L3b mirrored positions read modulo n also for parts extending past the end", hyp,
                          tm.eq(tm.pymod(q, n), tm.pymod(tm.sub(tm.sub(n, 1), tm.pymod(p, n)), n)), kind="B", solvers=["z3new", "cvc5"],
                          text="(n-1-p) mod n = (n-1-(p mod n)) mod n: a part with end > n (negative start after the flip) denotes the mirrored nucleotides"))
    # L2f: flipping twice restores the coordinates
    out.append(Obligation("C14.L2f flipping a part twice restores it", [tm.lt(0, n)],
                          tm.and_(tm.eq(tm.sub(n, tm.sub(n, st)), st), tm.eq(tm.sub(n, tm.sub(n, en)), en)), kind="B",
                          text="n-(n-st) = st, n-(n-en) = en, -(-strand) = strand"))
    # must-fail: reverse without complement is not involutive-compatible with anti-homomorphism? (vacuity guard on axioms)
    out.append(Obligation("C14.MF1 must-fail: rc is not the identity", [tm.eq(rc(tm.S("A")), tm.S("T")), tm.eq(rc(tm.S("T")), tm.S("A"))],
                          tm.eq(rc(tm.S("A")), tm.S("A")), kind="V", expect="sat", text="a ground model of the complement table"))
    return out


# ---------------------------------------------------------------------------------------------- bounded
def bounded(ctx):
    from pyvc import native
    from Bio.Seq import Seq
    ns = native.load(ctx.repo_root)
    CircularRecord = ns["moclo.record"].CircularRecord
    viol, samples = [], []
    evals = 0
    distinct = set()
    maxn = 5 if ctx.tier == "quick" else 8
    letters = "ACGTRYKM"
    comp = gen.COMP

    def flipped_den(den, n):
        """expected denotation after reverse complement: each part mirrored, strand negated"""
        out = []
        for (pos, strand) in den:
            # a strandless part has no opposite strand: it stays strandless (written 0 here)
            if pos and isinstance(pos[0], tuple):
                out.append((tuple(pos), strand if strand in (1, -1) else 0))      # a part pointing into another record: carried as it is
                continue
            out.append((tuple(sorted((n - 1 - p) % n for p in pos)), -strand if strand in (1, -1) else 0))
        return sorted(out, key=repr)

    def norm_den(den):
        return sorted([((tuple(pos) if pos and isinstance(pos[0], tuple) else tuple(sorted(pos))), st if st in (1, -1) else 0) for (pos, st) in den], key=repr)

    for n in range(1, maxn + 1):
        s = letters[:n]
        for ti, feats in enumerate(bc.feature_tables(n, small=(ctx.tier == "quick"))):
            rec = CircularRecord(Seq(s), id="rid", name="rn", features=bc.build_features(feats),
                                 annotations={"topology": "circular", "molecule_type": "DNA"},
                                 letter_annotations={"q": list(range(n))})
            if ti % 2:
                bc.preuse(rec, ns)       # every other record has been searched / sliced / rotated before
            for k in range(0, n):
                evals += 1
                base = rec >> k
                try:
                    r = base.reverse_complement()
                    rr = r.reverse_complement()
                    a = (base >> 1).reverse_complement()
                    b = base.reverse_complement() << 1
                except Exception as ex:
                    viol.append(dict(name="raise_%d_%d" % (n, ti), what="reverse_complement raised %r (n=%d, table %r, rotation %d)" % (ex, n, feats, k), case={}))
                    continue
                distinct.add((n, ti, k))
                pb = []
                bs = str(base.seq)
                if type(r).__name__ != "CircularRecord":
                    pb.append("result is a %s" % type(r).__name__)
                if str(r.seq) != gen.rc(bs):
                    pb.append("sequence %r, expected %r" % (str(r.seq), gen.rc(bs)))
                if str(rr.seq) != bs:
                    pb.append("twice: sequence %r, expected %r" % (str(rr.seq), bs))
                ob, orr, orc = bc.observe(base), bc.observe(rr), bc.observe(r)
                if len(orc["features"]) != len(ob["features"]):
                    pb.append("features lost: %d of %d" % (len(orc["features"]), len(ob["features"])))
                else:
                    want = sorted([(f["type"], tuple(flipped_den(f["den"], n))) for f in ob["features"] if f["den"] is not None], key=repr)
                    got = sorted([(f["type"], tuple(norm_den(f["den"]))) for f in orc["features"] if f["den"] is not None], key=repr)
                    if want != got:
                        pb.append("features do not denote the mirrored nucleotides on the other strand: %r vs %r" % (got[:2], want[:2]))
                    # order-sensitive: what each feature spells (its parts in listed order, each on its own strand) is the
                    # same molecule read from the other side -- the same text -- after one and after two reverse complements
                    spell0 = sorted((f["id"], f["type"], f["reads"]) for f in ob["features"] if f["den"] is not None)
                    spell1 = sorted((f["id"], f["type"], f["reads"]) for f in orc["features"] if f["den"] is not None)
                    spell2 = sorted((f["id"], f["type"], f["reads"]) for f in orr["features"] if f["den"] is not None)
                    if spell1 != spell0:
                        pb.append("features no longer spell the same stretch after the reverse complement: %r vs %r" % (spell1[:2], spell0[:2]))
                    if spell2 != spell0:
                        pb.append("twice: features spell another stretch: %r vs %r" % (spell2[:2], spell0[:2]))
                    w2 = sorted([(f["type"], tuple(norm_den(f["den"]))) for f in ob["features"] if f["den"] is not None], key=repr)
                    g2 = sorted([(f["type"], tuple(norm_den(f["den"]))) for f in orr["features"] if f["den"] is not None], key=repr)
                    if w2 != g2:
                        pb.append("twice: features denote other nucleotides")
                # commutation with rotation, for amount 1 and for one amount outside [0, n): several turns, either direction
                far = (-(2 * n + 1), 3 * n + 2, -(n + 1), n, -3 * n, 2 * n + 1, -1)[(n + ti + k) % 7]
                for m_ in (1, far):
                    try:
                        a, b = ((base >> m_).reverse_complement(), base.reverse_complement() << m_) if m_ != 1 else (a, b)
                    except Exception as ex:
                        pb.append("rotation by %d with reverse complement raised %r" % (m_, ex))
                        continue
                    mm = m_ % n
                    want_text = gen.rc(bs[n - mm:] + bs[:n - mm])
                    if str(a.seq) != str(b.seq) or str(a.seq) != want_text:
                        pb.append("rc(r >> %d) = %r, rc(r) << %d = %r, expected %r" % (m_, str(a.seq), m_, str(b.seq), want_text))
                    else:
                        oa, obb = bc.observe(a), bc.observe(b)
                        ga = sorted([(f["type"], tuple(norm_den(f["den"]))) for f in oa["features"] if f["den"] is not None], key=repr)
                        gb = sorted([(f["type"], tuple(norm_den(f["den"]))) for f in obb["features"] if f["den"] is not None], key=repr)
                        if ga != gb:
                            pb.append("rc(r >> %d) and rc(r) << %d attach features to different nucleotides" % (m_, m_))
                if pb:
                    viol.append(dict(name="rc_n%d_t%d" % (n, ti), what="n=%d table %r rotation %d: %s" % (n, feats, k, "; ".join(pb[:3])),
                                     case=dict(seq=bs, features=feats, k=k), observed=pb[:5]))
                elif len(samples) < 2 and feats and k:
                    samples.append(dict(seq=bs, rc=str(r.seq), features=[str(f.location) for f in r.features]))
    # the record re-annotated in place between two uses (a feature re-located, same number of features): reverse complement
    # and rotation are functions of the record as it is now
    from Bio.SeqFeature import FeatureLocation
    for n in range(3, maxn + 1):
        s = letters[:n]
        for ti, feats in enumerate(bc.feature_tables(n, small=True)):
            if not feats:
                continue
            evals += 1
            rec = CircularRecord(Seq(s), id="rid", name="rn", features=bc.build_features(feats),
                                 annotations={"topology": "circular", "molecule_type": "DNA"})
            try:
                rec >> 1, rec << 1, rec.reverse_complement()
                rec.features[0].location = FeatureLocation(1, 3, strand=1)
                rec.features[0].qualifiers["label"] = ["re-located"]
                a_ = (rec >> 1).reverse_complement()
                b_ = rec.reverse_complement() << 1
                fresh = CircularRecord(Seq(s), id="rid", name="rn", features=[copy.deepcopy(f) for f in rec.features],
                                       annotations={"topology": "circular", "molecule_type": "DNA"})
                c_ = (fresh >> 1).reverse_complement()
                sp = lambda r_: sorted((f["id"], f["type"], f["reads"], f["quals"]) for f in bc.observe(r_)["features"] if f["den"] is not None)
                pb = []
                if sp(a_) != sp(b_):
                    pb.append("rc(r >> 1) and rc(r) << 1 disagree after the record was re-annotated: %r vs %r" % (sp(a_)[:1], sp(b_)[:1]))
                if sp(a_) != sp(c_):
                    pb.append("rc(r >> 1) of the re-annotated record differs from that of a fresh equal record: %r vs %r" % (sp(a_)[:1], sp(c_)[:1]))
            except Exception as e:
                pb = ["raised %r" % (e,)]
            distinct.add(("edit", n, ti))
            if pb:
                viol.append(dict(name="reannotated_n%d_t%d" % (n, ti), what="%r with table %r, rotated, re-annotated in place: %s" % (s, feats, pb[0]),
                                 case=dict(seq=s, features=feats), observed=pb))
    uniq = {}
    for v_ in viol:
        uniq.setdefault(v_["name"], v_)
    return dict(evaluations=evals, distinct_nontrivial=len(distinct),
                rule="words of pairwise distinct IUPAC letters of length 1..%d x feature tables (as C13) x every prior rotation (so that "
                     "locations extend past the end): type CircularRecord, sequence = rc, twice = identity on sequence and on the "
                     "nucleotides every feature denotes, every feature denotes the mirrored nucleotides on the opposite strand, "
                     "rc(r >> 1) vs rc(r) << 1 on sequence and denotations" % maxn,
                bound="n <= %d" % maxn, samples=samples, violations=list(uniq.values())[:20], n_violations=len(uniq))


def replay(ctx, ob, model):
    from contracts.replays import replay as r
    return r(ctx, ob, model)


LEVEL_TEXT = ("Deductive for the in-repo part: reverse_complement returns a CircularRecord wrapping SeqRecord.reverse_complement "
              "with the signature's defaults (features and letter annotations kept); lemmas over the documented rc axioms and the "
              "flip formula give involution, mirrored denotation (also past the end of the sequence) and commutation with rotation. "
              "The feature flip itself is Biopython code: assumed (D-REC-RC) and exercised by the bounded part.")
LEVEL_NOTE = ("Assumed: SeqRecord.reverse_complement / SeqFeature._flip (D-REC-RC), the rc axioms, constructor and deepcopy. Bounded "
              "part (not proved): n <= 5 (8), all feature tables of C13, every prior rotation.")
