# coding: utf-8
"""obligations shared by several properties"""
from __future__ import annotations

from pyvc import term as tm
from pyvc.solve import Obligation


def typing_state_census(ctx, prop, label="FS"):
    """F: the typing path keeps no state between calls other than the per-class pattern cache.

    Every property that reads a verdict, an overhang or a target as a function of (class, record) rests on this frame
    (C06 states it; the others use it).  Escaping stores (pyvc/frames.py) whose access path starts at a class object, a
    module-level name, or -- for the pattern objects of regex.py, which are themselves cached on the classes -- at
    `self` outside a constructor are cross-call state; so is a memoising decorator.  The only path allowed is
    `cls._regex` (whose invariant INV_cache is the subject of the _get_regex contract)."""
    from pyvc import frames
    shared = []
    for rel, mi in sorted(ctx.repo.modules.items()):
        if "/registry/" in rel:
            continue
        if rel.endswith("regex.py"):
            shared += frames.check_frame(mi, rel, (), roots={"cls", "G", "self"}, self_rebind_in=lambda q: q.endswith(".__init__"))
        elif rel.endswith(("core/_structured.py", "core/modules.py", "core/vectors.py", "core/parts.py")):
            # the typing classes: nothing but the pattern cache may be written -- in particular not the record a wrapper
            # was handed (an annotation filled in by one class is seen by the next class asked about the same record)
            shared += frames.check_frame(mi, rel, {"cls._regex"})
        else:
            shared += frames.check_frame(mi, rel, {"cls._regex"}, roots={"cls", "G"})
        shared += frames.memoised(mi, rel)
    return Obligation("%s.%s no state shared between typing calls other than the per-class pattern cache" % (prop, label), [],
                      tm.B(not shared), kind="F", text="cross-call stores: %s" % shared,
                      meta=dict(function="census", clause=label, detail=shared))
