#!/venv/bin/python
"""(re)generates MANIFEST.json from props/*.py -- run after adding a property module"""
import importlib, json, os, sys
sys.path.insert(0, os.path.dirname(os.path.abspath(__file__)))
ALL = ["C%02d" % i for i in range(1, 21)]
PENDING = "check under construction in this session (see DESIGN.md section 5); not claimed until it exists"
checks, na = [], []
for pid in ALL:
    try:
        pm = importlib.import_module("props." + pid)
    except ImportError:
        na.append(dict(property_id=pid, reason=PENDING))
        continue
    checks.append(dict(
        property_id=pid,
        quick_cmd="./check %s --tier quick" % pid,
        thorough_cmd="./check %s --tier thorough" % pid,
        evidence_file="evidence/%s.json" % pid,
        replay_cmd_template="./check %s --replay {path}" % pid,
        engine="pyvc",
        level_claimed=dict(category=getattr(pm, "MANIFEST_LEVEL", pm.LEVEL), text=pm.LEVEL_TEXT, design_ref=getattr(pm, "DESIGN_REF", "5")),
        level_note=pm.LEVEL_NOTE,
        technique=getattr(pm, "TECHNIQUE", "contract-based deductive verification: VCs generated from the AST of the real functions under sidecar contracts, discharged by cvc5/z3; bounded native stand-in labelled bounded"),
    ))
m = dict(
    version=1,
    setup_cmd="./setup.sh",
    hooks=dict(guard="MOCLO_VERIF", enable="none needed: contracts are sidecar, source is read with ast, the tree is imported as tests/__init__.py does",
               baseline_off_cmd="cd /repo && /venv/bin/python -m pytest -q -p no:cacheprovider", source_commits=[], add_only=True),
    engines=[dict(name="pyvc", path="pyvc/", serves_properties=[c["property_id"] for c in checks],
                  kind_free_text="AST->SMT verification-condition generator (symbolic executor over the real source under sidecar contracts) + cvc5/z3 portfolio + replay on the real code + bounded native stand-ins")],
    checks=checks,
    notes="Exit codes: 0 held, 1 violation (VIOLATION line), 2 undecided, 3 checker failure. known_findings.json lists recorded/fixed defects.",
    not_applicable=na,
)
json.dump(m, open(os.path.join(os.path.dirname(os.path.abspath(__file__)), "MANIFEST.json"), "w"), indent=1)
print("claimed:", [c["property_id"] for c in checks], "pending:", [n["property_id"] for n in na])
