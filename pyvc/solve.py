# coding: utf-8
"""Obligations, SMT-LIB script generation and the solver portfolio.

Verdict rule (DESIGN 2.6): ``unsat`` from any back end and ``sat`` from none =
discharged; ``sat`` from a back end that is allowed to refute = refuted (model
kept); ``unsat`` and ``sat`` on the same query = checker bug; otherwise
undecided.  Errors, timeouts and ``unknown`` never become a verdict.
"""
from __future__ import annotations

import os
import re
import subprocess
import tempfile
import time
import hashlib
from concurrent.futures import ThreadPoolExecutor

from . import term as tm
from .term import T

SOLVERS = {
    "cvc5": ["/usr/bin/cvc5", "--strings-exp", "--produce-models", "--lang=smt2"],
    "z3new": ["/usr/local/bin/z3-new", "-smt2"],
    "z3": ["/usr/bin/z3", "-smt2"],
}


def skolemize_goal(hyps, goal):
    """a universally quantified goal is proved for a fresh constant (sound and complete); a conjunction of
    such goals is left alone (it is split by the caller when it matters)"""
    hyps = list(hyps)
    for _ in range(8):
        if goal.op == "forall_range":
            v, lo, hi, body = goal.args
            c = tm.fresh("sk_" + v.args[0], v.sort)
            hyps.append(tm.and_(tm.le(tm.subst(lo, {v: c}), c), tm.lt(c, tm.subst(hi, {v: c}))))
            goal = tm.subst(body, {v: c})
        elif goal.op == "forall":
            m = {}
            for v in goal.args[0]:
                m[v] = tm.fresh("sk_" + v.args[0], v.sort)
            goal = tm.subst(goal.args[1], m)
        elif goal.op == "=>":
            hyps.append(goal.args[0])
            goal = goal.args[1]
        else:
            break
    return hyps, goal


class Obligation(object):
    """``hyps |- goal`` ; the query is hyps /\\ not goal.

    expect = 'valid' (must be unsat) or 'sat' (cover / must-fail: must be sat).
    """

    def __init__(self, name, hyps, goal, kind="A", prop=None, expect="valid",
                 decls=None, sorts=None, defs=None, model_terms=None, meta=None,
                 text=None, solvers=None):
        self.name = name
        self.hyps, self.goal = tm.simp_query([tm.lift(h) for h in hyps], tm.lift(goal))
        self.hyps, self.goal = skolemize_goal(self.hyps, self.goal)
        self.kind = kind
        self.prop = prop
        self.expect = expect
        self.decls = dict(decls or {})    # uf name -> ([arg sorts], ret sort)
        self.sorts = list(sorts or [])    # uninterpreted sort names
        self.defs = list(defs or [])      # raw define-fun(-rec) texts
        self.model_terms = dict(model_terms or {})  # label -> T
        self.meta = dict(meta or {})
        self.text = text or ""
        self.solvers = solvers            # restrict portfolio (list of names) or None
        self.result = None

    def use(self, lemma):
        """add a lemma (hyps |- goal) as the hypothesis `hyps => goal`; the runner refuses the result unless
        the lemma itself is discharged in the same run"""
        self.hyps.append(tm.implies(tm.and_(*lemma.hyps) if lemma.hyps else tm.TRUE, lemma.goal))
        self.meta.setdefault("uses", []).append(lemma.name)
        return self

    # -- script ---------------------------------------------------------------
    def script(self, for_solver="cvc5", want_model=True):
        pr = tm.Printer()
        body = []
        asserts = [pr.p(h) for h in self.hyps]
        neg = pr.p(tm.not_(self.goal))
        labels = [(k, pr.p(v)) for k, v in sorted(self.model_terms.items())]
        # mod/div definitions may themselves contain mod terms: iterate to a fixpoint
        done = set()
        axioms = []
        while True:
            todo = [k for k in pr.moddefs if k not in done]
            if not todo:
                break
            for key in todo:
                done.add(key)
                q, r = pr.moddefs[key]
                for ax in tm.mod_axioms(key[0], key[1], q, r):
                    axioms.append(pr.p(ax))
        # declarations
        allterms = list(self.hyps) + [self.goal] + list(self.model_terms.values())
        for key, (q, r) in pr.moddefs.items():
            allterms.extend([key[0], key[1], q, r])
        fv = {}
        uses_up = False
        apps = {}
        for t in allterms:
            tm.free_vars(t, fv)
            for st in tm.subterms(t):
                if st.op in ("up", "low"):
                    uses_up = True
                if st.op == "app":
                    apps.setdefault(st.args[0], ([a.sort for a in st.args[1:]], st.sort))
        out = ["(set-logic ALL)"]
        if for_solver != "cvc5":
            out.append("(set-option :model.completion true)")
        for s in self.sorts:
            out.append("(declare-sort %s 0)" % s)
        if uses_up and for_solver != "cvc5":
            out.append("(declare-fun str.to_upper (String) String)")
            out.append("(declare-fun str.to_lower (String) String)")
            out.append("(assert (forall ((x String)) (= (str.len (str.to_upper x)) (str.len x))))")
            out.append("(assert (forall ((x String)) (= (str.to_upper (str.to_upper x)) (str.to_upper x))))")
        decls = dict(apps)
        decls.update(self.decls)
        defined = set()
        for d in self.defs:
            m = re.match(r"\(define-fun(?:-rec)?\s+(\S+)", d)
            if m:
                defined.add(m.group(1).strip("|"))
        for fname, (args, ret) in sorted(decls.items()):
            if fname in defined:
                continue
            out.append("(declare-fun %s (%s) %s)" % (tm._name(fname), " ".join(args), ret))
        for v in sorted(fv, key=lambda v: v.args[0]):
            out.append("(declare-const %s %s)" % (tm._name(v.args[0]), v.sort))
        out.extend(self.defs)
        for ax in axioms:
            out.append("(assert %s)" % ax)
        for a in asserts:
            out.append("(assert %s)" % a)
        out.append("(assert %s)" % neg)
        out.append("(check-sat)")
        # ground applications of up/low: their model values are checked natively (z3 treats them as UFs)
        self._updown = []
        if uses_up and for_solver != "cvc5":
            for t in allterms:
                for st in tm.subterms(t):
                    if st.op in ("up", "low") and not tm.free_vars(st, {}, frozenset()).keys() - fv.keys():
                        if st not in [x[0] for x in self._updown]:
                            self._updown.append((st, pr.p(st.args[0]), pr.p(st)))
        extra = []
        for (_, a_, b_) in self._updown:
            extra += [a_, b_]
        if want_model and (labels or extra):
            out.append("(get-value (%s))" % " ".join([l[1] for l in labels] + extra))
        self._labels = labels
        self._uses_up = uses_up
        return "\n".join(out) + "\n"


# ---------------------------------------------------------------- s-expressions
_TOK = re.compile(r'"(?:[^"]|"")*"|\(|\)|[^\s()"]+')


def parse_sexprs(text):
    toks = _TOK.findall(text)
    pos = 0

    def rd():
        nonlocal pos
        t = toks[pos]
        pos += 1
        if t == "(":
            lst = []
            while toks[pos] != ")":
                lst.append(rd())
            pos += 1
            return lst
        return t

    out = []
    while pos < len(toks):
        try:
            out.append(rd())
        except IndexError:
            break
    return out


def _unescape(s):
    s = s[1:-1].replace('""', '"')

    def rep(m):
        return chr(int(m.group(1) or m.group(2), 16))

    return re.sub(r"\\u\{([0-9a-fA-F]+)\}|\\u([0-9a-fA-F]{4})", rep, s)


def sexpr_value(x):
    """convert a model value to python: int, str, bool, tuple (Seq), dict (Array)"""
    if isinstance(x, str):
        if x.startswith('"'):
            return _unescape(x)
        if x == "true":
            return True
        if x == "false":
            return False
        if re.match(r"^-?\d+$", x):
            return int(x)
        return x  # abstract value
    if not x:
        return ()
    h = x[0]
    if h == "-" and len(x) == 2:
        return -sexpr_value(x[1])
    if h == "seq.unit":
        return (sexpr_value(x[1]),)
    if h == "seq.++":
        r = ()
        for y in x[1:]:
            v = sexpr_value(y)
            r = r + (v if isinstance(v, tuple) else (v,))
        return r
    if h == "as" and len(x) == 3 and x[1] == "seq.empty":
        return ()
    if h == "str.++":
        return "".join(sexpr_value(y) for y in x[1:])
    if h == "store":
        d = dict(sexpr_value(x[1]))
        d[sexpr_value(x[2])] = sexpr_value(x[3])
        return d
    if isinstance(h, list) and h and h[0] == "as" and h[1] == "const":
        return {"__default__": sexpr_value(x[1])}
    if h == "_" and len(x) == 3 and x[1] == "char":
        return chr(int(x[2][2:], 16))
    return x


# ---------------------------------------------------------------- running
GRACE_S = float(os.environ.get("PYVC_GRACE", "1.0"))


def _classify(out):
    lines = [l.strip() for l in out.strip().splitlines() if l.strip()]
    verdict, model_txt = "unknown", ""
    if lines:
        first = lines[0]
        if first in ("sat", "unsat"):
            verdict = first
            model_txt = "\n".join(lines[1:])
        elif first.startswith("(error") or "error" in first.lower():
            verdict = "error"   # z3 carries on after an error: nothing after it is believed
        elif first == "unknown":
            verdict = "unknown"
    return verdict, model_txt


CONFIRM_S = 20.0    # thorough tier: how long the other back end may take to confirm (or contradict) a decisive answer


def solve(ob, timeout_s=30, workdir=None, solvers=None, wait_all=False):
    """run the portfolio on one obligation; fills ob.result"""
    workdir = workdir or tempfile.gettempdir()
    tag = re.sub(r"[^A-Za-z0-9_.-]+", "_", ob.name)[:120] + "." + hashlib.sha1(ob.name.encode()).hexdigest()[:6]
    names = list(solvers or ob.solvers or ["cvc5", "z3new"])
    procs = {}
    t0 = time.time()
    for s in names:
        script = ob.script(for_solver=("cvc5" if s == "cvc5" else "z3"))
        path = os.path.join(workdir, "%s.%s.smt2" % (tag, s))
        with open(path, "w") as f:
            f.write(script)
        cmd = list(SOLVERS[s])
        if s == "cvc5":
            cmd += ["--tlimit=%d" % int(timeout_s * 1000)]
        else:
            cmd += ["-T:%d" % int(timeout_s)]
        cmd.append(path)
        outf = open(path + ".out", "w+")
        procs[s] = dict(p=subprocess.Popen(cmd, stdout=outf, stderr=subprocess.STDOUT), outf=outf, path=path,
                        t0=time.time(), done=None)
    runs = {}
    decisive_at = None
    while len(runs) < len(names):
        now = time.time()
        for s, d in procs.items():
            if s in runs:
                continue
            rc = d["p"].poll()
            if rc is not None:
                d["outf"].seek(0)
                out = d["outf"].read()
                d["outf"].close()
                verdict, model_txt = _classify(out)
                runs[s] = dict(solver=s, verdict=verdict, time=now - d["t0"], out=out[:4000],
                               model_txt=model_txt, path=d["path"])
                if verdict in ("sat", "unsat") and decisive_at is None:
                    decisive_at = now
            elif now - d["t0"] > timeout_s + 5 or (
                    decisive_at is not None and now - decisive_at > (CONFIRM_S if wait_all else GRACE_S)):
                d["p"].kill()
                d["p"].wait()
                d["outf"].close()
                why = "timeout" if now - d["t0"] > timeout_s + 5 else "cancelled"
                runs[s] = dict(solver=s, verdict=why, time=now - d["t0"], out="", model_txt="", path=d["path"])
        if len(runs) < len(names):
            time.sleep(0.01)
    runs = [runs[s] for s in names]
    verdicts = {}
    for r in runs:
        v = r["verdict"]
        if v == "sat" and ob._uses_up and r["solver"] != "cvc5":
            # up/low are uninterpreted for z3: the model is believed only if it interprets every ground
            # application as the real str.upper/str.lower and no application sits under a quantifier
            ok_ = False
            try:
                vals = parse_sexprs(r["model_txt"])
                pairs = vals[0][len(ob._labels):] if vals and isinstance(vals[0], list) else []
                under_binder = any(st_.op in ("up", "low") for t_ in ob.hyps + [ob.goal] for q_ in tm.subterms(t_)
                                   if q_.op in ("forall", "exists", "forall_range", "exists_range")
                                   for st_ in tm.subterms(q_.args[-1]))
                if len(pairs) == 2 * len(ob._updown) and not under_binder:
                    ok_ = True
                    for i_, (t_, _, _) in enumerate(ob._updown):
                        a_ = sexpr_value(pairs[2 * i_][1])
                        b_ = sexpr_value(pairs[2 * i_ + 1][1])
                        want_ = a_.upper() if t_.op == "up" else a_.lower()
                        if not isinstance(a_, str) or b_ != want_:
                            ok_ = False
            except Exception:
                ok_ = False
            if not ok_:
                v = "unknown"
                r["verdict"] = "unknown(sat-with-uf-upper)"
        verdicts[r["solver"]] = v
    res = dict(runs=runs, verdicts=verdicts, model=None, by=None, time=sum(r["time"] for r in runs),
               wall=time.time() - t0)
    has_sat = [r for r in runs if verdicts[r["solver"]] == "sat"]
    has_unsat = [r for r in runs if verdicts[r["solver"]] == "unsat"]
    if has_sat and has_unsat:
        res["status"] = "conflict"
    elif has_unsat:
        res["status"] = "unsat"
        res["by"] = [r["solver"] for r in has_unsat]
    elif has_sat:
        res["status"] = "sat"
        res["by"] = [r["solver"] for r in has_sat]
        for r in has_sat:
            try:
                vals = parse_sexprs(r["model_txt"])
                model = {}
                if vals and isinstance(vals[0], list):
                    for (label, _), pair in zip(ob._labels, vals[0]):
                        model[label] = sexpr_value(pair[1])
                if len(model) == len(ob._labels):
                    res["model"] = model
                    res["model_by"] = r["solver"]
                    break
            except Exception as e:  # model parsing is best effort
                res["model_error"] = repr(e)
    else:
        res["status"] = "unknown"
    if ob.expect == "valid":
        res["ok"] = res["status"] == "unsat"
    else:
        res["ok"] = res["status"] == "sat"
    ob.result = res
    return res


def tainted(ob):
    """names of over-approximated values (term.approx) that the negated goal or a hypothesis mentions: a counter-model
    of such a query may assign them a text the code never produces"""
    fv = {}
    for t in list(ob.hyps) + [ob.goal]:
        tm.free_vars(t, fv)
    return sorted(v.args[0] for v in fv if str(v.args[0]).startswith(tm.APPROX_PREFIX))


def _has_quant(t):
    return any(x.op in ("forall", "exists", "forall_range", "exists_range") for x in tm.subterms(t))


def solve_with_relaxation(ob, timeout_s=30, workdir=None, wait_all=False):
    """portfolio; when undecided and some hypotheses are quantified, retry without them: `unsat` then still
    discharges (fewer hypotheses), `sat` only yields a *candidate* model (status 'sat-relaxed') that counts as a
    violation only if it replays on the real code"""
    res = solve(ob, timeout_s=timeout_s, workdir=workdir, wait_all=wait_all)
    if res["status"] != "unknown" or ob.expect != "valid":
        return res
    hy = [h for h in ob.hyps if not _has_quant(h)]
    if len(hy) == len(ob.hyps) or _has_quant(ob.goal):
        return res
    o2 = Obligation(ob.name + "~relaxed", hy, ob.goal, kind=ob.kind, prop=ob.prop, decls=ob.decls, sorts=ob.sorts,
                    defs=ob.defs, model_terms=ob.model_terms, meta=ob.meta, solvers=ob.solvers)
    r2 = solve(o2, timeout_s=min(timeout_s, 30), workdir=workdir)
    res["relaxed"] = dict(status=r2["status"], verdicts=r2["verdicts"], dropped=len(ob.hyps) - len(hy))
    res["time"] += r2["time"]
    if r2["status"] == "unsat":
        res.update(status="unsat", by=r2["by"], ok=True)
        res["runs"] = res["runs"] + r2["runs"]
    elif r2["status"] == "sat":
        res.update(status="sat-relaxed", model=r2.get("model"), by=r2.get("by"), ok=False)
        res["runs"] = res["runs"] + r2["runs"]
    ob.result = res
    return res


def solve_all(obs, timeout_s=30, workdir=None, jobs=None, wait_all=False):
    """wait_all (thorough tier): no back end is cancelled when the other has answered, so that every obligation both can
    decide is decided twice, independently; a disagreement is a `conflict` (checker failure, exit 3)"""
    jobs = jobs or max(2, (os.cpu_count() or 4) // 2)
    with ThreadPoolExecutor(max_workers=jobs) as ex:
        list(ex.map(lambda ob: solve_with_relaxation(ob, timeout_s=timeout_s, workdir=workdir, wait_all=wait_all), obs))
    return obs
