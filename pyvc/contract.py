# coding: utf-8
"""Contracts (sidecar) and the verification-condition generator for one function."""
from __future__ import annotations

import ast
import traceback

from . import term as tm
from .term import T, INT, BOOL, STR
from .values import State, VT, VObj, VNone, NONE, VTuple, VList, VDict, VClass
from .symex import Executor, Frame, Unsupported
from .solve import Obligation
from .repo import strip_docstring


class LoopSpec(object):
    """invariant for one loop (keyed by ordinal in the function under contract)"""
    kind = None          # ast.While / ast.For: the kind of loop the invariant was written for (None: any)
    iterates = None      # for `for` loops: a word the iterated expression must mention (e.g. "modules"); None: any

    def accepts(self, node):
        if self.kind is not None and not isinstance(node, self.kind):
            return False
        if self.iterates is not None and isinstance(node, ast.For):
            words = {n.id for n in ast.walk(node.iter) if isinstance(n, ast.Name)} | {
                n.attr for n in ast.walk(node.iter) if isinstance(n, ast.Attribute)}
            if self.iterates not in words:
                return False
        if isinstance(node, ast.For) and node.orelse:
            return False
        return True

    def invariant(self, ex, st, ctx):
        return []

    def havoc(self, ex, st, ctx, modified):
        """fresh values for every local the loop body assigns (same shape as the current value)"""
        st = st.fork()
        for name in sorted(modified):
            if name in st.env:
                st.env[name] = ex.models.havoc_like(ex, st, st.env[name], name)
        return st


class _Shape(object):
    """returned by a clause builder when the value it should speak about does not have the form it can speak of"""
    def __repr__(self):
        return "SHAPE"


SHAPE = _Shape()


class Contract(object):
    file = None
    qual = None
    props = ()            # properties served
    variants = ("default",)
    exact_raises = True   # normal return implies no `raises` condition held
    loops = {}            # ordinal -> LoopSpec
    doc = ""

    # --- to override -----------------------------------------------------
    def setup(self, ex, st, variant):
        """create symbolic arguments in st (in place); returns dict name -> Val"""
        raise NotImplementedError

    def requires(self, ex, st, a):
        return []

    def assumes(self, ex, st, a):
        """facts about dependencies / spec-function axioms: assumed on entry and at call sites, never checked"""
        return []

    def ensures(self, ex, pre, st, a, result):
        return []

    def raises(self, ex, st, a):
        """[(exception class name, condition T, make_args or None)] -- exhaustive"""
        return []

    def result(self, ex, st, a):
        """[(state, fresh result value)] used at call sites"""
        raise NotImplementedError

    def model_terms(self, ex, st, a):
        return {}

    def match_exc(self, ex, st, excval, excname):
        mro = st.get(excval, "__mro__") or []
        return excname in mro


def verify_function(ex, con, prop=None):
    """returns (obligations, info).  Never raises: an unreached function is reported as such."""
    ex.prop = prop
    obligs = []
    info = dict(function="%s::%s" % (con.file, con.qual), paths=0, variants=[], unreached=None)
    if getattr(con, "trusted_body", False):
        info["assumed"] = "contract assumed at this level, body not verified"
        return obligs, info
    try:
        node, ci = ex.repo.function(con.file, con.qual)
    except KeyError:
        info["unreached"] = "function %s not found in %s" % (con.qual, con.file)
        return obligs, info
    mod = ex.repo.module(con.file)
    from .values import VFunc
    fn = VFunc(node, mod, cls=ci, qual=con.qual)
    for variant in con.variants:
        ex.obligs = []
        ex.root = (con.file, con.qual)
        st = State()
        try:
            a = con.setup(ex, st, variant)
            ex.loopspecs = dict(con.loops)
            ex.index_loops(node)
            reqs = con.requires(ex, st, a)
            st0 = st.assume(*([t for (_, t) in reqs] + list(con.assumes(ex, st, a))))
            mterms = con.model_terms(ex, st0, a)
            fr = Frame(mod, ci, "<root>", depth=0)
            ex.root_pending = True
            if ci is not None:
                selfv = a.get("self")
                clsv = a.get("cls")
                rest = {k: v for k, v in a.items() if k not in ("self", "cls", "__varargs__")}
                pos = list(a.get("__varargs__", []))       # values for *args of the function under contract
                if node.name == "__new__":
                    pos = [clsv] + pos                      # an implicit static method: the class is its first argument
                kind = selfv.kind if selfv is not None else getattr(clsv, "symbase", clsv.name)
                outs = []
                for (s_, tag_, f_) in ex.class_attr(kind, node.name, st0, fr, self_val=selfv, cls_val=clsv):
                    if tag_ != "ok":
                        outs.append((s_, tag_, f_))
                    elif any(d in ("property", "cached_property") for d in ci.decorators[node.name]):
                        outs.append((s_, "ret", f_))
                    else:
                        for (s2_, tag2_, v_) in ex.call(f_, pos, rest, s_, fr):
                            outs.append((s2_, "ret" if tag2_ == "ok" else tag2_, v_))
            else:
                outs = [(s2_, "ret" if tag2_ == "ok" else tag2_, v_) for (s2_, tag2_, v_) in
                        ex.call(fn, [], dict(a), st0, fr)]
        except Unsupported as e:
            why = info.setdefault("_why", {})
            why.setdefault(str(e), []).append(variant)
            info["unreached"] = "; ".join("variant%s %s: %s" % ("s" if len(vs) > 1 else "", ", ".join(vs[:4]) + (
                " ... (%d)" % len(vs) if len(vs) > 4 else ""), r_) for r_, vs in why.items())
            continue
        except Exception as e:  # a crash of the generator is not a verdict about the code
            info["unreached"] = "variant %s: generator error %s" % (variant, traceback.format_exc(limit=-5))
            info["crash"] = True
            continue
        n_before = len(obligs)
        try:
            base = "%s::%s[%s]" % (con.file, con.qual, variant)
            # cover: requires satisfiable
            hint = con.cover_hint(ex, st0, a) if hasattr(con, "cover_hint") else []
            # the cover is about the `requires` (the `assumes` are dependency facts and conservative definitions)
            cover_pc = list(st.assume(*[t for (_, t) in reqs]).pc)
            obligs.append(Obligation(base + "::cover:requires", cover_pc + list(hint), tm.FALSE, kind="V", prop=prop, expect="sat",
                                     decls=ex.models.decls, sorts=ex.models.sorts,
                                     defs=ex.models.defs_for(tm.FALSE, st0.pc),
                                     text="precondition is satisfiable (vacuity guard)"))
            npath = 0
            raise_specs = con.raises(ex, st0, a)
            for (s, tag, v) in outs:
                if s.dead:
                    continue
                npath += 1
                pid = "#p%d" % npath
                if tag in ("ok", "ret"):
                    val = v if tag == "ret" else NONE
                    for (label, t) in con.ensures(ex, st0, s, a, val):
                        if t is None or t is SHAPE:
                            # the clause cannot be stated over what the executor shows of this post-state (the value does not
                            # have the form the clause speaks of).  On an infeasible path that is nothing; on a feasible one the
                            # proof fails there -- undecided, not a counterexample (run.handle_refuted, `shape:`)
                            label, t = "shape:" + label, tm.FALSE
                        obligs.append(_ob(ex, "%s::ensures:%s%s" % (base, label, pid), s, t, prop, mterms,
                                          "postcondition %s on a normal return" % label,
                                          meta=dict(function=con.qual, file=con.file, variant=variant, clause=label,
                                                    kind="ensures")))
                    if con.exact_raises:
                        for (excname, cond, _) in raise_specs:
                            if cond is None:
                                continue   # no closed-form condition at this level: see ensures_exc and the lemma layer
                            obligs.append(_ob(ex, "%s::raises-exact:%s%s" % (base, excname, pid), s, tm.not_(cond), prop,
                                              mterms, "normal return only when %s is not due" % excname,
                                              meta=dict(function=con.qual, file=con.file, variant=variant,
                                                        clause="raises-exact:" + excname, kind="raises")))
                elif tag == "raise":
                    mro = s.get(v, "__mro__") or ["?"]
                    matched = [(n, c) for (n, c, _) in raise_specs if n in mro]
                    if not matched:
                        obligs.append(_ob(ex, "%s::raises:unlisted:%s%s" % (base, mro[0], pid), s, tm.FALSE, prop, mterms,
                                          "an exception the contract does not list (%s) is unreachable" % mro[0],
                                          meta=dict(function=con.qual, file=con.file, variant=variant,
                                                    clause="raises:unlisted:" + mro[0], kind="raises")))
                    elif any(c is None for (_, c) in matched):
                        pass
                    else:
                        goal = tm.or_(*[c for (_, c) in matched])
                        obligs.append(_ob(ex, "%s::raises:%s%s" % (base, mro[0], pid), s, goal, prop, mterms,
                                          "%s is raised only under its stated condition" % mro[0],
                                          meta=dict(function=con.qual, file=con.file, variant=variant,
                                                    clause="raises:" + mro[0], kind="raises")))
                    for (label, t) in con.ensures_exc(ex, st0, s, a, v) if hasattr(con, "ensures_exc") else []:
                        if t is None or t is SHAPE:
                            label, t = "shape:" + label, tm.FALSE
                        obligs.append(_ob(ex, "%s::exc-frame:%s%s" % (base, label, pid), s, t, prop, mterms,
                                          "frame condition %s on an exceptional exit" % label,
                                          meta=dict(function=con.qual, file=con.file, variant=variant, clause=label,
                                                    kind="exc-frame")))
                else:
                    info["unreached"] = "variant %s: stray %s" % (variant, tag)
            seen_names = {}
            for ob in ex.obligs:
                k_ = seen_names.get(ob.name, 0)
                seen_names[ob.name] = k_ + 1
                ob.name = base + "::" + ob.name + ("#%d" % k_ if k_ else "")
                ob.prop = prop
                if not ob.model_terms:
                    ob.model_terms = dict(mterms)
                ob.meta.setdefault("function", con.qual)
                ob.meta.setdefault("file", con.file)
                ob.meta.setdefault("variant", variant)
                obligs.append(ob)
            if hasattr(con, "aux_lemmas"):
                aux = con.aux_lemmas(ex)
                have = {o.name for o in obligs}
                for l_ in aux:
                    l_.name = "%s::%s::aux:%s" % (con.file, con.qual, l_.name)
                    if l_.name not in have:
                        l_.prop = prop
                        obligs.append(l_)
                for ob in obligs:
                    if ob.meta.get("needs_aux"):
                        ob.meta.setdefault("uses", []).extend(l_.name for l_ in aux)
            info["paths"] += npath
            info["variants"].append(variant)
            if npath == 0:
                info["unreached"] = "variant %s: no feasible path" % variant
        except Unsupported as e:
            # a clause of the contract cannot be stated over what the executor shows of the post-state (e.g. a feature table
            # that is no longer an append of one feature): nothing is claimed about this variant
            del obligs[n_before:]
            why = info.setdefault("_why", {})
            why.setdefault(str(e), []).append(variant)
            info["unreached"] = "; ".join("variant%s %s: %s" % ("s" if len(vs) > 1 else "", ", ".join(vs[:4]) + (
                " ... (%d)" % len(vs) if len(vs) > 4 else ""), r_) for r_, vs in why.items())
            continue
    return obligs, info


def _ob(ex, name, st, goal, prop, mterms, text, meta=None):
    return Obligation(name, st.pc, goal, kind="A", prop=prop, model_terms=mterms, text=text, meta=meta,
                      decls=ex.models.decls, sorts=ex.models.sorts, defs=ex.models.defs_for(goal, st.pc))
