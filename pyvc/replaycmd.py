# coding: utf-8
"""./check <prop> --replay <file>: does the violation recorded in a replay file reproduce on the current tree?

A replay file names either a refuted obligation (with the solver's model and, when a harness exists, the concrete call
that failed on the real code) or a failing case of the bounded stand-in.  Both are regenerated from the current source:
the property's check is run again (no evidence is written) and the violation counts as reproduced when a replay file
with the same name is produced again.  Exit 1 + VIOLATION line when reproduced, 0 when not, 3 when the file is unusable."""
from __future__ import annotations

import io
import json
import os
import shutil
import sys
import tempfile
from contextlib import redirect_stdout


def replay_file(prop, path):
    try:
        payload = json.load(open(path))
    except Exception as e:
        print("CHECKER-ERROR cannot read replay file %s: %r" % (path, e))
        return 3
    if payload.get("property") not in (None, prop):
        print("CHECKER-ERROR replay file belongs to property %s" % payload.get("property"))
        return 3
    base = os.path.basename(path)
    keep = tempfile.mkdtemp(prefix="replay-")
    saved = os.path.join(keep, base)
    shutil.copy(path, saved)
    os.environ["VERIF_NO_EVIDENCE"] = "1"
    from .run import run_property, VERIF
    buf = io.StringIO()
    with redirect_stdout(buf):
        only = None
        if payload.get("obligation") and payload.get("kind") in ("A", "B"):
            # an obligation of a function under contract: only that function's obligations are regenerated
            import re
            only = re.escape(payload["obligation"].split("#")[0])
        code = run_property(prop, only=only)
    out = buf.getvalue()
    again = [l for l in out.splitlines() if l.startswith("VIOLATION") and os.path.basename(l.split("replay=")[1].split()[0]) == base]
    what = payload.get("obligation") or payload.get("what") or base
    if again:
        print(again[0])
        print("reproduced on the current tree: %s" % str(what)[:300])
        detail = payload.get("replay_detail") or payload.get("case")
        if detail:
            print("recorded input: %s" % json.dumps(detail, default=repr)[:600])
        shutil.rmtree(keep, ignore_errors=True)
        return 1
    print("not reproduced on the current tree: %s" % str(what)[:300])
    print("(the recorded file is kept at %s)" % saved)
    return 0
