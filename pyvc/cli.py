# coding: utf-8
from __future__ import annotations

import argparse
import json
import os
import sys


def main(argv=None):
    ap = argparse.ArgumentParser(prog="check")
    ap.add_argument("prop")
    ap.add_argument("--tier", default="quick", choices=["quick", "thorough"])
    ap.add_argument("--replay", default=None)
    ap.add_argument("--only", default=None, help="regex on obligation names (debugging; no evidence claim)")
    args = ap.parse_args(argv)
    tier = os.environ.get("VERIF_TIER") or args.tier
    if tier not in ("quick", "thorough"):
        tier = args.tier
    try:
        seed = int(os.environ.get("VERIF_SEED", "0"))
    except ValueError:
        seed = 0
    if args.replay:
        from .replaycmd import replay_file
        return replay_file(args.prop, args.replay)
    from .run import run_property
    return run_property(args.prop, tier=tier, seed=seed, only=args.only)


if __name__ == "__main__":
    try:
        sys.exit(main())
    except SystemExit:
        raise
    except Exception:
        import traceback
        traceback.print_exc()
        print("CHECKER-ERROR crashed")
        sys.exit(3)
