# coding: utf-8
"""Assumed contracts on dependencies (DESIGN section 3) as executor models.

Every model here is an *assumption* of the proofs that use it; the names in
``ASSUMPTIONS`` are copied into the evidence of each property whose
obligations touched the model (``Executor.used_models``).
"""
from __future__ import annotations

import ast

from . import term as tm
from .term import T, INT, BOOL, STR
from .values import (
    Val, VT, VNone, NONE, NOTIMPL, VTuple, VList, VDict, VRepList, VObj, VClass, VFunc, VBound, VModel, VModule,
    VSlice, VSuper, VOpaque, State, new_oid,
)
from .symex import Unsupported, BUILTIN_EXC, Frame

ASSUMPTIONS = {
    "D-SEQ": "Bio.Seq.Seq behaves as an immutable str for str(), len, slicing, +, == and hashing "
             "(case-sensitive); reverse_complement() = rc",
    "D-REC-SLICE": "SeqRecord.__getitem__(slice): seq sliced; keeps exactly the features with no ref and "
                   "start <= f.start and f.end <= stop, shifted by -start (shallow copy of qualifiers); letter "
                   "annotations sliced; only molecule_type of annotations kept; id/name/description kept",
    "D-REC-ADD": "SeqRecord.__add__: seq concatenated; left features kept, right features shifted by len(left); "
                 "id/name/description kept when equal; annotations = common equal entries",
    "D-REC-RC": "SeqRecord.reverse_complement(flags): seq = rc, features flipped, letter annotations reversed, "
                "id/name/description/annotations/dbxrefs dropped unless flagged",
    "D-REC-INIT": "SeqRecord.__init__ stores its arguments (None lists/dicts become fresh empty ones)",
    "D-LOC": "SimpleLocation/CompoundLocation: loc + k shifts every part by k keeping strand/ref; .parts; "
             ".start = min, .end = max; constructors store what they are given",
    "D-RE": "re: (RE1) p.match(data,i,e) is None or a match with start = i, end <= min(e,|data|), group spans "
            "inside [start,end]; (RE2) locality: the result relative to i is a function of data[i:e] only",
    "D-CACHE": "property_cached.cached_property: computed at most once per instance; exceptions not cached",
    "D-COPY": "copy.deepcopy returns an equal object sharing no mutable state with its argument",
    "D-WARN": "warnings.warn(w) delivers w to the active filters and returns (no exception under 'ignore'/'always')",
    "D-FMT": "str.format / %-formatting of message strings returns some string (content not modelled)",
}


class Models(object):
    def __init__(self):
        self.ex = None
        self.decls = {}
        self.sorts = []
        self._defs = {}
        self.decl("rc", [STR], STR)
        self.decl("re_m", [STR, STR], BOOL)       # pattern, window text -> matches at window start
        self.decl("re_at", [STR, STR, INT, INT], BOOL)  # := re_m(pattern, data[pos:min(pos+width,len)]) (definition)
        self.decl("re_len", [STR, STR], INT)      # length of that match
        self.decl("re_s0", [STR, STR, INT], INT)  # group i start, relative to the window
        self.decl("re_s1", [STR, STR, INT], INT)
        self.decl("shape3", [STR], BOOL)

    def bind(self, ex):
        self.ex = ex

    def decl(self, name, args, ret):
        self.decls[name] = (list(args), ret)

    def define(self, name, text):
        self._defs[name] = text

    def define_rec(self, name, params, ret, body_builder):
        """recursive spec function given by a python builder over terms; the SMT text and the unfolding
        hints come from the same builder, so a hint is the definition instantiated, nothing else"""
        if name in self._defs:
            return
        self._builders = getattr(self, "_builders", {})
        vs = [tm.V(pn, ps) for (pn, ps) in params]
        body = body_builder(*vs)
        self._builders[name] = (params, ret, body_builder)
        self.decl(name, [ps for (_, ps) in params], ret)
        for st_ in tm.subterms(body):
            if st_.op == "app" and st_.args[0] != name and st_.args[0] not in self.decls:
                self.decl(st_.args[0], [x.sort for x in st_.args[1:]], st_.sort)
        self.define(name, "(define-fun-rec %s (%s) %s %s)" % (
            name, " ".join("(%s %s)" % (pn, ps) for (pn, ps) in params), ret, tm.smt(body)))

    def unfold(self, name, *args):
        params, ret, builder = self._builders[name]
        args = [tm.lift(a) for a in args]
        return tm.eq(tm.app(name, ret, *args), builder(*args))

    def defs_for(self, goal, pc):
        """define-fun-rec texts needed by the terms (by name occurrence)"""
        if not self._defs:
            return []
        names = set()
        for t in list(pc) + [goal]:
            for st in tm.subterms(tm.lift(t)):
                if st.op == "app":
                    names.add(st.args[0])
        out = []
        # include transitive deps by textual scan
        todo = [n for n in names if n in self._defs]
        seen = set()
        while todo:
            n = todo.pop()
            if n in seen:
                continue
            seen.add(n)
            for m in self._defs:
                if m != n and m in self._defs[n] and m not in seen:
                    todo.append(m)
        order = [n for n in self._defs if n in seen]
        return [self._defs[n] for n in order]

    # ------------------------------------------------------------------ symbolic object factories
    def mk_seq(self, st, data):
        o = VObj("Seq")
        st.set_inplace(o, "data", VT(data))
        return o

    def seq_text(self, st, v):
        if isinstance(v, VObj) and v.kind == "Seq":
            return st.get(v, "data").t
        if isinstance(v, VT) and v.t.sort == STR:
            return v.t
        raise Unsupported("text of %r" % (v,))

    def rec_text(self, st, rec):
        s = st.get(rec, "seq")
        return self.seq_text(st, s)

    def text(self, st, v):
        if isinstance(v, VObj) and v.kind == "Seq":
            return self.seq_text(st, v)
        if isinstance(v, VObj) and st.get(v, "seq") is not None:
            return self.rec_text(st, v)
        if isinstance(v, VT) and v.t.sort == STR:
            return v.t
        raise Unsupported("text of %r" % (v,))

    def mk_record(self, st, kind, seqterm, **fields):
        o = VObj(kind)
        st.set_inplace(o, "seq", self.mk_seq(st, seqterm))
        for k, v in fields.items():
            st.set_inplace(o, k, v)
        return o

    def sym_record(self, st, kind, prefix):
        """a fully symbolic record (string-level fields + abstract feature table)"""
        o = self.mk_record(st, kind, tm.V(prefix + ".seq", STR))
        st.set_inplace(o, "id", VT(tm.V(prefix + ".id", STR)))
        st.set_inplace(o, "name", VT(tm.V(prefix + ".name", STR)))
        st.set_inplace(o, "description", VT(tm.V(prefix + ".description", STR)))
        return o

    def havoc_like(self, ex, st, v, name):
        if isinstance(v, VT):
            return VT(tm.fresh(name, v.t.sort), v.py)
        if isinstance(v, VNone):
            return v
        if isinstance(v, VObj) and v.kind == "Seq":
            o = VObj("Seq")
            st.set_inplace(o, "data", VT(tm.fresh(name, STR)))
            return o
        if isinstance(v, VObj) and st.get(v, "seq") is not None:
            o = VObj(v.kind)
            for k, f in st.fields(v).items():
                st.set_inplace(o, k, f)
            st.set_inplace(o, "seq", self.havoc_like(ex, st, st.get(v, "seq"), name + ".seq"))
            return o
        hv = self.havoc_obj(ex, st, v, name)
        if hv is not None:
            return hv
        raise Unsupported("havoc of %r" % (v,))

    def havoc_obj(self, ex, st, v, name):
        return None

    # ------------------------------------------------------------------ hooks used by the executor
    def truth(self, ex, st, v):
        if v.kind == "Seq":
            return tm.lt(0, tm.slen(self.seq_text(st, v)))
        if v.kind in ("SeqRecord", "CircularRecord"):
            return tm.lt(0, tm.slen(self.rec_text(st, v)))
        if v.kind == "Map":
            return st.get(v, "nonempty").t if st.get(v, "nonempty") is not None else None
        if v.kind in ("FeatureLocation", "SimpleLocation"):
            return tm.lt(0, tm.sub(st.get(v, "end").t, st.get(v, "start").t))
        return None

    def is_none(self, ex, st, v):
        return None

    def identical(self, ex, st, a, b):
        if not (isinstance(a, VObj) and isinstance(b, VObj)):
            return None
        ia, ib = st.get(a, "ident"), st.get(b, "ident")
        if ia is not None and ib is not None:
            return tm.eq(ia.t, ib.t)
        return None

    def kind_bases(self, kind):
        return {
            "CircularRecord": ["SeqRecord", "object"],
            "SeqRecord": ["object"],
            "Seq": ["object"],
        }.get(kind, BUILTIN_EXC.get(kind, []) if kind in BUILTIN_EXC else ["object"] if kind != "object" else [])

    def class_cell(self, ex, st, cls, attr):
        return None

    def instance_attr(self, ex, st, obj, attr):
        return None

    def class_setattr(self, ex, st, cls, attr, v):
        raise Unsupported("class attribute store %s.%s" % (cls.name, attr))

    def setattr_hook(self, ex, st, obj, attr, v):
        return None

    def as_elem(self, ex, st, v, sort):
        if isinstance(v, VT) and v.t.sort == sort:
            return v.t
        if isinstance(v, VObj) and st.get(v, "ident") is not None and sort == INT:
            return st.get(v, "ident").t
        raise Unsupported("element %r of sort %s" % (v, sort))

    def from_elem(self, ex, st, t):
        return VT(t)

    # ------------------------------------------------------------------ modules / externals / builtins
    def module(self, dotted):
        return VModule(dotted)

    def external(self, base, attr):
        name = "%s.%s" % (base, attr) if base else attr
        table = {
            "six.MAXSIZE": VT(tm.I(2 ** 63 - 1)),
            "six.string_types": VTuple([VClass("str")]),
            "six.iteritems": VModel("six.iteritems", m_iteritems),
            "six.itervalues": VModel("six.itervalues", m_itervalues),
            "six.raise_from": VModel("six.raise_from", m_raise_from),
            "six.add_metaclass": VModel("six.add_metaclass", m_identity_decorator_factory),
            "six.python_2_unicode_compatible": VModel("six.python_2_unicode_compatible", m_identity),
            "re.compile": VModel("re.compile", m_re_compile),
            "copy.deepcopy": VModel("copy.deepcopy", m_deepcopy),
            "functools.wraps": VModel("functools.wraps", m_identity_decorator_factory),
            "warnings.warn": VModel("warnings.warn", m_warn),
            "warnings.catch_warnings": VModel("warnings.catch_warnings", m_transparent_ctx),
            "warnings.simplefilter": VModel("warnings.simplefilter", m_noop),
            "Bio.Seq.Seq": VClass("Seq"),
            "Bio.Seq": VModule("Bio.Seq"),
            "Bio.SeqRecord": VModule("Bio.SeqRecord"),
            "Bio.SeqRecord.SeqRecord": VClass("SeqRecord"),
            "Bio.SeqFeature.SeqFeature": VClass("SeqFeature"),
            "Bio.SeqFeature.FeatureLocation": VClass("FeatureLocation"),
            "Bio.SeqFeature.CompoundLocation": VClass("CompoundLocation"),
            "Bio.BiopythonWarning": VClass("BiopythonWarning"),
            "property_cached.cached_property": VModel("cached_property", m_identity),
            "typing.TypeVar": VModel("typing.TypeVar", m_noop),
            "typing.Generic": VOpaque("typing.Generic"),
            "typing.Sequence": VOpaque("typing.Sequence"),
            "abc.ABCMeta": VOpaque("abc.ABCMeta"),
            "abc.abstractmethod": VModel("abc.abstractmethod", m_identity),
            "inspect.isabstract": VModel("inspect.isabstract", m_unsupported("inspect.isabstract")),
        }
        if name in table:
            return table[name]
        for mod in ("six", "re", "copy", "functools", "warnings", "typing", "abc", "inspect", "Bio"):
            if name == mod:
                return VModule(mod)
        raise Unsupported("external name %s" % name)

    def builtin(self, name):
        table = {
            "len": m_len, "min": m_min, "max": m_max, "divmod": m_divmod, "isinstance": m_isinstance, "issubclass": m_issubclass,
            "str": m_str, "int": m_int, "dict": m_dict, "range": m_range, "enumerate": m_enumerate, "type": m_type, "list": m_list,
            "iter": m_iter, "sum": m_unsupported("sum"), "any": m_unsupported("any"), "getattr": m_unsupported("getattr"),
            "dir": m_unsupported("dir"), "set": m_unsupported("set"), "hash": m_unsupported("hash"),
        }
        if name in table:
            return VModel(name, table[name])
        if name in BUILTIN_EXC:
            return VClass(name)
        if name == "object":
            return VClass("object")
        if name == "NotImplemented":
            return NOTIMPL
        if name == "slice":
            return VClass("slice")
        raise Unsupported("unknown name %s" % name)

    # ------------------------------------------------------------------ value methods (str, list, dict, tuple)
    def value_method(self, ex, st, v, attr):
        if isinstance(v, VT) and v.t.sort == STR:
            fn = {"format": sm_format, "lower": sm_lower, "upper": sm_upper, "replace": sm_replace,
                  "join": sm_join, "split": None}.get(attr)
            if fn is not None:
                return VModel("str." + attr, fn, self_val=v)
        if isinstance(v, VList):
            fn = {"append": lm_append}.get(attr)
            if fn is not None:
                return VModel("list." + attr, fn, self_val=v)
            return None
        if isinstance(v, VDict):
            fn = {"get": dm_get, "items": dm_items, "values": dm_values, "setdefault": dm_setdefault,
                  "pop": dm_pop}.get(attr)
            if fn is not None:
                return VModel("dict." + attr, fn, self_val=v)
        if isinstance(v, VT) and v.t.sort.startswith("(Seq"):
            fn = {"append": None}.get(attr)
        return None

    # ------------------------------------------------------------------ dependency kinds
    def kind_attr(self, ex, st, kind, attr, self_val, cls_val):
        key = (kind, attr)
        if key in KIND_METHODS:
            fn = KIND_METHODS[key]
            return [(st, "ok", VModel("%s.%s" % (kind, attr), fn, self_val=self_val if self_val is not None else cls_val))]
        if key in KIND_PROPS and self_val is not None:
            ex.used_models.add("%s.%s" % key)
            return KIND_PROPS[key](ex, st, self_val)
        if kind == "object":
            if attr == "__eq__" and self_val is not None:
                return [(st, "ok", VModel("object.__eq__", km_object_eq, self_val=self_val))]
            if attr == "__init__":
                return [(st, "ok", VModel("object.__init__", lambda ex, st, fr, self, a, k: [(st, "ok", NONE)],
                                          self_val=self_val))]
            if attr == "__new__":
                return [(st, "ok", VModel("object.__new__", km_object_new, self_val=cls_val))]
        if kind.startswith("exc:") or kind in BUILTIN_EXC:
            if attr == "__init__":
                return [(st, "ok", VModel("Exception.__init__", km_exc_init, self_val=self_val))]
        return None

    def instantiate(self, ex, st, fr, cls, args, kwargs):
        name = cls.name
        if name in BUILTIN_EXC:
            st, e = ex.exc(st, name, args)
            return [(st, "ok", e)]
        if name in INSTANTIATE:
            ex.used_models.add(name)
            return INSTANTIATE[name](ex, st, fr, args, kwargs)
        raise Unsupported("instantiation of %s" % name)

    def init_object(self, ex, st, fr, obj, args, kwargs):
        if ex.is_subkind(obj.kind, "BaseException") or ex.is_subkind(obj.kind, "Exception"):
            st = st.set(obj, "args", VTuple(list(args)))
            st = st.set(obj, "__mro__", ex.exc_mro(obj.kind))
            return [(st, "ok", obj)]
        return [(st, "ok", obj)]

    # ------------------------------------------------------------------ loops & comprehensions
    def for_loop(self, ex, st, fr, node, it, ordinal):
        spec = ex.loopspecs.get(ordinal) if ordinal is not None else None
        # concrete-length python lists/tuples: unroll
        items = None
        if isinstance(it, VList):
            items = list(st.get(it, "items"))
        elif isinstance(it, VTuple):
            items = list(it.items)
        elif isinstance(it, VObj) and it.kind == "enumerate" and isinstance(st.get(it, "inner"), (VList, VTuple)):
            inner = st.get(it, "inner")
            base = list(st.get(inner, "items")) if isinstance(inner, VList) else list(inner.items)
            items = [VTuple([VT(tm.I(i)), x]) for i, x in enumerate(base)]
        if items is not None:
            outs = [(st, "ok", None)]
            for item in items:
                nxt = []
                for (s, tag, v) in outs:
                    if tag != "ok":
                        nxt.append((s, tag, v))
                        continue
                    for (s1, t1, _) in ex.assign(node.target, item, s, fr):
                        for (s2, t2, v2) in ex.block(node.body, s1, fr):
                            if t2 in ("ok", "continue"):
                                nxt.append((s2, "ok", None))
                            elif t2 == "break":
                                nxt.append((s2, "done", None))
                            else:
                                nxt.append((s2, t2, v2))
                outs = nxt
            return [(s, "ok" if t == "done" else t, v) for (s, t, v) in outs]
        # symbolic domains
        if isinstance(it, VObj) and it.kind == "range":
            lo, hi = st.get(it, "lo").t, st.get(it, "hi").t
            index = dict(var=node.target, lo=lo, hi=tm.imax(lo, hi), elem=lambda ex_, s, k: VT(k))
        elif isinstance(it, VT) and it.t.sort == STR:
            index = dict(var=node.target, lo=tm.I(0), hi=tm.slen(it.t), elem=lambda ex_, s, k: VT(tm.char_at(it.t, k)))
        elif isinstance(it, VT) and it.t.sort.startswith("(Seq"):
            index = dict(var=node.target, lo=tm.I(0), hi=tm.seqlen(it.t),
                         elem=lambda ex_, s, k: self.from_elem(ex_, s, tm.seqnth(it.t, k)))
        elif isinstance(it, VRepList):
            return self.map_loop(ex, st, fr, node, it, ordinal)
        else:
            custom = self.custom_iter(ex, st, fr, node, it, ordinal)
            if custom is not None:
                return custom
            raise Unsupported("for over %r" % (it,))
        if spec is None:
            raise Unsupported("loop %s without invariant" % ordinal)
        return ex.invariant_loop(node, st, fr, spec, ordinal, index=index)

    def custom_iter(self, ex, st, fr, node, it, ordinal):
        return None

    # symbolic mutable list (used when a loop invariant has to talk about a list built by append)
    def mk_symlist(self, st, seqterm):
        o = VObj("symlist")
        st.set_inplace(o, "seq", VT(seqterm, "list"))
        return o

    def list_term(self, st, v, elem_sort):
        if isinstance(v, VObj) and v.kind == "symlist":
            return st.get(v, "seq").t
        if isinstance(v, VList):
            t = tm.seqempty(elem_sort)
            for it in st.get(v, "items"):
                t = tm.seqcat(t, tm.sequnit(self.as_elem(self.ex, st, it, elem_sort)))
            return t
        if isinstance(v, VT) and v.t.sort == tm.seq_sort(elem_sort):
            return v.t
        raise Unsupported("list term of %r" % (v,))

    def need_joinall(self):
        def body(l):
            n = tm.seqlen(l)
            return tm.ite(tm.eq(n, 0), tm.S(""), tm.concat(
                tm.app("joinall", STR, T("seq.extract", (l, tm.I(0), tm.sub(n, 1)), l.sort)),
                tm.seqnth(l, tm.sub(n, 1))))

        self.define_rec("joinall", [("l", tm.seq_sort(STR))], STR, body)

    def map_loop(self, ex, st, fr, node, it, ordinal):
        """map-loop rule (DESIGN 2.2 / appendix): the body is executed once on the generic element of a
        pointwise list.  The only state an iteration may leave behind is exactly one ``append`` to one python
        list created before the loop in the same function; that list becomes a pointwise list whose generic
        element is the appended value (one list per body path, joined by the path conditions)."""
        spec = ex.loopspecs.get(ordinal) if ordinal is not None else None
        s0 = st
        for c in (it.conds if hasattr(it, "conds") else []):
            s0 = s0.assume(c)
        before = {name: v for name, v in st.env.items() if isinstance(v, VList)}
        lens = {name: len(st.get(v, "items")) for name, v in before.items()}
        outs = ex.assign(node.target, it.rep, s0, fr)
        results = []
        for (s1, _, _) in outs:
            for (s2, tag, v) in ex.block(node.body, s1, fr):
                if tag in ("ret", "raise", "break"):
                    if tag == "break":
                        raise Unsupported("break in map loop")
                    results.append(("exit", s2, tag, v))
                else:
                    results.append(("iter", s2, tag, v))
        # collect appended element per path
        target_name = None
        paths = []
        flat = None
        for (what, s2, tag, v) in results:
            if what == "exit":
                continue
            appended = None
            for name, lv in before.items():
                cur = s2.env.get(name)
                if isinstance(cur, VRepList) and cur is not lv:
                    # the body ran an inner map loop appending to this list: flat-map (list of lists, flattened)
                    if lens[name] != 0:
                        raise Unsupported("flat-map into a non-empty list")
                    flat = (name, cur, s2)
                    continue
                items = s2.get(lv, "items")
                extra = len(items) - lens[name]
                if extra == 1:
                    if appended is not None:
                        raise Unsupported("map loop appends to two lists")
                    appended = (name, items[-1])
                elif extra != 0:
                    raise Unsupported("map loop appends %d items" % extra)
            if appended is None:
                paths.append((s2, None))
            else:
                if target_name not in (None, appended[0]):
                    raise Unsupported("map loop appends to different lists")
                target_name = appended[0]
                paths.append((s2, appended[1]))
        res = []
        for (what, s2, tag, v) in results:
            if what == "exit":
                res.append((s2.assume(tm.lt(0, it.length)), tag, v))
        if flat is not None:
            if target_name is not None:
                raise Unsupported("map loop both appends and flat-maps")
            name, inner, s2 = flat
            newlist = VRepList(inner.rep, tm.fresh("flatlen", INT), tag="flatmap")
            newlist.alts = [(tuple(s2.pc[len(s0.pc):]) + tuple(c_), el, s_) for (c_, el, s_) in getattr(inner, "alts", [])]
            newlist.source = it
            newlist.inner_source = getattr(inner, "source", None)
            st2 = s2.fork()
            st2.env = dict(st.env)
            st2.env[name] = newlist
            st2 = st2.assume(tm.le(0, newlist.length))
            res.append((st2, "ok", None))
            return res
        if target_name is None:
            # no list is built.  Heap effects on the generic element are pointwise effects on every element: with a single
            # normal path its final state is the state after the loop (its path facts hold for every element, the others
            # having left through an exceptional exit); without any heap effect the state is simply unchanged.
            normal = [(s2, el) for (s2, el) in paths]
            changed = [s2 for (s2, _) in normal if s2.heap != s0.heap]
            if not changed:
                res.append((st, "ok", None))
            elif len(normal) == 1:
                s2 = normal[0][0].fork()
                s2.env = dict(st.env)
                res.append((s2, "ok", None))   # (facts about the generic element describe the elements that exist)
            else:
                raise Unsupported("map loop with several normal paths and heap effects")
            return res
        if lens[target_name] != 0:
            raise Unsupported("map loop target not empty before the loop")
        # result list: pointwise, one generic element per appending path (a path that appends nothing filters the
        # element out); kept as alternatives with their path conditions
        alts = []
        base = len(s0.pc)
        for (s2, el) in paths:
            if el is not None:
                alts.append((tuple(s2.pc[base:]), el, s2))
        filtered = any(el is None for (_, el) in paths)
        newlist = VRepList(None, tm.fresh("maplen", INT) if filtered else it.length, tag="map")
        newlist.alts = alts          # [(conds, element value, state with its heap)]
        newlist.source = it
        st2 = st.fork()
        if filtered:
            st2 = st2.assume(tm.le(0, newlist.length), tm.le(newlist.length, it.length))
        merger = getattr(self, "merge_alts", None)
        if merger is not None:
            mg = merger(ex, st2, alts)
            if mg is not None:
                st2, newlist.rep = mg
        if newlist.rep is None and len(alts) == 1:
            newlist.rep = alts[0][1]
            newlist.conds = list(alts[0][0])
        # make heap objects created in the body paths reachable
        for (_, _, s2) in alts:
            for oid, d in s2.heap.items():
                if oid not in st2.heap:
                    st2.heap[oid] = d
        st2.env[target_name] = newlist
        res.append((st2, "ok", None))
        return res

    def comprehension(self, ex, st, fr, node, gen, it, what):
        # comprehension / generator over a python sequence of known length: element by element, in order
        items = None
        if isinstance(it, VTuple):
            items = list(it.items)
        elif isinstance(it, VList):
            items = list(st.get(it, "items"))
        if items is not None and what in ("gen", "list"):
            outs = [(st, "ok", [])]
            for item in items:
                nxt = []
                for (s, tag, acc) in outs:
                    if tag != "ok":
                        nxt.append((s, tag, acc))
                        continue
                    for (s1, t1, _) in ex.assign(gen.target, item, s, fr):
                        for (s2, t2, v) in ex.eval(node.elt, s1, fr):
                            nxt.append((s2, "ok", acc + [v]) if t2 == "ok" else (s2, t2, v))
                outs = nxt
            res = []
            for (s, tag, acc) in outs:
                if tag != "ok":
                    res.append((s, tag, acc))
                else:
                    s, l = ex.new_list(s, acc)
                    res.append((s, "ok", l))
            return res
        raise Unsupported("comprehension over %r" % (it,))


# ---------------------------------------------------------------------- builtins
def m_unsupported(name):
    def fn(ex, st, fr, args, kwargs):
        raise Unsupported("builtin %s" % name)

    return fn


def m_noop(ex, st, fr, args, kwargs):
    return [(st, "ok", NONE)]


def m_identity(ex, st, fr, args, kwargs):
    return [(st, "ok", args[0])]


def m_identity_decorator_factory(ex, st, fr, args, kwargs):
    return [(st, "ok", VModel("identity-decorator", m_identity))]


def m_transparent_ctx(ex, st, fr, args, kwargs):
    return [(st, "ok", VObj("ctx:transparent"))]


def m_len(ex, st, fr, args, kwargs):
    (v,) = args
    if isinstance(v, VT) and v.t.sort == STR:
        return [(st, "ok", VT(tm.slen(v.t)))]
    if isinstance(v, VT) and v.t.sort.startswith("(Seq"):
        return [(st, "ok", VT(tm.seqlen(v.t)))]
    if isinstance(v, VList):
        return [(st, "ok", VT(tm.I(len(st.get(v, "items")))))]
    if isinstance(v, VTuple):
        return [(st, "ok", VT(tm.I(len(v.items))))]
    if isinstance(v, VDict):
        if st.get(v, "arr") is not None:
            ex.used_models.add("D-DICT")
            return [(st, "ok", VT(tm.app("card", INT, st.get(v, "arr").t)))]
        return [(st, "ok", VT(tm.I(len(st.get(v, "items")))))]
    if isinstance(v, VRepList):
        return [(st, "ok", VT(v.length))]
    if isinstance(v, VObj):
        return ex.call_method(v, "__len__", [], {}, st, fr)
    raise Unsupported("len of %r" % (v,))


def m_min(ex, st, fr, args, kwargs):
    if len(args) == 2 and all(isinstance(a, VT) and a.t.sort == INT for a in args):
        return [(st, "ok", VT(tm.imin(args[0].t, args[1].t)))]
    raise Unsupported("min")


def m_divmod(ex, st, fr, args, kwargs):
    """divmod(a, b) for ints: (a // b, a % b); ZeroDivisionError for b == 0 (python semantics encoded for b > 0 only)"""
    if len(args) == 2 and all(isinstance(a, VT) and a.t.sort == INT for a in args):
        a, b = args
        res = []
        for (s2, zero) in ex.branch(st, tm.eq(b.t, 0)):
            if zero:
                res.extend(ex.raise_(s2, "ZeroDivisionError"))
            else:
                ex.emit("%s::divisor-positive@divmod" % fr.qual, s2, tm.lt(0, b.t), kind="A", text="divisor of divmod is positive")
                res.append((s2, "ok", VTuple([VT(tm.pydiv(a.t, b.t)), VT(tm.pymod(a.t, b.t))])))
        return res
    raise Unsupported("divmod")


def m_max(ex, st, fr, args, kwargs):
    if len(args) == 2 and all(isinstance(a, VT) and a.t.sort == INT for a in args):
        return [(st, "ok", VT(tm.imax(args[0].t, args[1].t)))]
    raise Unsupported("max")


def _class_names(c):
    if isinstance(c, VClass):
        return [c.name]
    if isinstance(c, VTuple):
        out = []
        for x in c.items:
            out.extend(_class_names(x))
        return out
    if isinstance(c, VModel) and c.name in ("type", "str", "int", "list", "dict"):
        return [c.name]          # a builtin type that is also modelled as a callable
    raise Unsupported("class spec %r" % (c,))


def m_isinstance(ex, st, fr, args, kwargs):
    v, c = args
    names = _class_names(c)
    if isinstance(v, VObj):
        return [(st, "ok", VT(tm.B(any(ex.is_subkind(v.kind, n) for n in names))))]
    if isinstance(v, VT):
        py = {"str": ["str", "object"], "int": ["int", "object"], "bool": ["bool", "int", "object"],
              "list": ["list", "object"]}[v.py]
        return [(st, "ok", VT(tm.B(any(n in py for n in names))))]
    if isinstance(v, VSlice):
        return [(st, "ok", VT(tm.B("slice" in names)))]
    if isinstance(v, (VList, VRepList)):
        return [(st, "ok", VT(tm.B("list" in names)))]
    if isinstance(v, VDict):
        return [(st, "ok", VT(tm.B("dict" in names)))]
    if isinstance(v, VNone):
        return [(st, "ok", VT(tm.FALSE))]
    if isinstance(v, VClass):
        return [(st, "ok", VT(tm.B("type" in names)))]
    raise Unsupported("isinstance of %r" % (v,))


def m_issubclass(ex, st, fr, args, kwargs):
    c, base = args
    if isinstance(c, VClass) and hasattr(c, "sym"):
        roles = getattr(c, "roles", None) or {c.symbase}
        names = _class_names(base)
        return [(st, "ok", VT(tm.B(any(ex.is_subkind(r, n) for r in roles for n in names))))]
    if isinstance(c, VClass):
        return [(st, "ok", VT(tm.B(any(ex.is_subkind(c.name, n) for n in _class_names(base)))))]
    raise Unsupported("issubclass of %r" % (c,))


def m_str(ex, st, fr, args, kwargs):
    (v,) = args
    if isinstance(v, VT) and v.t.sort == STR:
        return [(st, "ok", v)]
    if isinstance(v, VObj) and v.kind == "Seq":
        ex.used_models.add("D-SEQ")
        return [(st, "ok", VT(ex.models.seq_text(st, v)))]
    if isinstance(v, VT) and v.t.sort == INT:
        return [(st, "ok", VT(tm.ite(tm.le(0, v.t), tm.str_of_int(v.t), tm.concat("-", tm.str_of_int(tm.sub(0, v.t))))))]
    if isinstance(v, (VObj, VOpaque)):
        return [(st, "ok", VT(tm.approx("str", STR)))]
    raise Unsupported("str of %r" % (v,))


def m_int(ex, st, fr, args, kwargs):
    (v,) = args
    if isinstance(v, VT) and v.t.sort == INT:
        return [(st, "ok", v)]
    hook = getattr(ex.models, "int_of", None)
    if hook is not None:
        r = hook(ex, st, fr, v)
        if r is not None:
            return r
    raise Unsupported("int of %r" % (v,))


def m_range(ex, st, fr, args, kwargs):
    if len(args) == 1:
        lo, hi = VT(tm.I(0)), args[0]
    elif len(args) == 2:
        lo, hi = args
    else:
        raise Unsupported("range with step")
    o = VObj("range")
    st = st.set(o, "lo", lo).set(o, "hi", hi)
    return [(st, "ok", o)]


def m_enumerate(ex, st, fr, args, kwargs):
    o = VObj("enumerate")
    st = st.set(o, "inner", args[0])
    return [(st, "ok", o)]


def m_iter(ex, st, fr, args, kwargs):
    if len(args) == 1:
        if isinstance(args[0], VDict):
            o = VObj("dict_keyiterator")
            return [(st.set(o, "dict", args[0]), "ok", o)]
        return [(st, "ok", args[0])]
    raise Unsupported("iter with sentinel")


def m_type(ex, st, fr, args, kwargs):
    (v,) = args
    if isinstance(v, VObj):
        cls = st.get(v, "__class__")
        if cls is not None:
            return [(st, "ok", cls)]
        return [(st, "ok", VClass(v.kind, ex.repo.find_class(v.kind)))]
    if isinstance(v, VT):
        return [(st, "ok", VClass(v.py))]
    raise Unsupported("type of %r" % (v,))


def m_list(ex, st, fr, args, kwargs):
    if not args:
        st, l = ex.new_list(st, [])
        return [(st, "ok", l)]
    (v,) = args
    if isinstance(v, VTuple):
        st, l = ex.new_list(st, v.items)
        return [(st, "ok", l)]
    if isinstance(v, VList):
        st, l = ex.new_list(st, st.get(v, "items"))
        return [(st, "ok", l)]
    if isinstance(v, VT) and v.t.sort.startswith("(Seq"):
        return [(st, "ok", v)]
    if isinstance(v, VRepList):
        return [(st, "ok", v)]
    if isinstance(v, VT) and v.py == "list":
        return [(st, "ok", tag_fresh(VT(v.t, "list"), "shallow"))]   # list(x): a new list sharing the elements
    hook = getattr(ex.models, "list_of", None)
    if hook is not None:
        r = hook(ex, st, fr, v)
        if r is not None:
            return r
    raise Unsupported("list of %r" % (v,))


def m_iteritems(ex, st, fr, args, kwargs):
    (d,) = args
    return ex.call_method(d, "items", [], {}, st, fr) if isinstance(d, VObj) else dm_items(ex, st, fr, d, [], {})


def m_itervalues(ex, st, fr, args, kwargs):
    (d,) = args
    return ex.call_method(d, "values", [], {}, st, fr) if isinstance(d, VObj) else dm_values(ex, st, fr, d, [], {})


def m_raise_from(ex, st, fr, args, kwargs):
    return [(st, "raise", args[0])]


def tag_fresh(v, how):
    """ownership ghost: how a container value was obtained -- 'deep' (copy.deepcopy: shares nothing mutable with its
    source), 'shallow' (dict(x) / list(x) / x[:] / x.copy(): a new container sharing its values); untagged = aliased"""
    try:
        v.fresh = how
    except AttributeError:
        pass
    return v


def m_deepcopy(ex, st, fr, args, kwargs):
    ex.used_models.add("D-COPY")
    (v,) = args
    (s2, tag, out) = ex.models.deepcopy(ex, st, v)
    if tag == "ok":
        if out is v and isinstance(v, VT):
            out = VT(v.t, v.py)       # a value-modelled container: same abstract value, new identity for the ghost
        tag_fresh(out, "deep")
    return [(s2, tag, out)]


def m_dict(ex, st, fr, args, kwargs):
    if not args:
        st, d = ex.new_dict(st, {})
        return [(st, "ok", tag_fresh(d, "deep"))]
    (v,) = args
    if isinstance(v, VDict):
        st, d = ex.new_dict(st, dict(st.get(v, "items")))
        if st.get(v, "arr") is not None:
            st = st.set(d, "arr", st.get(v, "arr"))
        return [(st, "ok", tag_fresh(d, "shallow"))]
    raise Unsupported("dict(%r)" % (v,))


def m_warn(ex, st, fr, args, kwargs):
    ex.used_models.add("D-WARN")
    warned = st.ghost.get("warned", ())
    st = st.fork()
    st.ghost["warned"] = warned + (args[0],)
    return [(st, "ok", NONE)]


# ---------------------------------------------------------------------- str / list / dict methods
def sm_format(ex, st, fr, self, args, kwargs):
    ex.used_models.add("D-FMT")
    # exact for templates made of plain text and positional "{}" fields with str / int / Seq arguments
    if tm.is_const(self.t) and not kwargs:
        tpl = tm.cval(self.t)
        parts = tpl.split("{}")
        if len(parts) == len(args) + 1 and "{" not in "".join(parts) and "}" not in "".join(parts):
            pieces = [tm.S(parts[0])]
            ok = True
            for a, post in zip(args, parts[1:]):
                if isinstance(a, VT) and a.t.sort == STR:
                    pieces.append(a.t)
                elif isinstance(a, VT) and a.t.sort == INT:
                    pieces.append(m_str(ex, st, fr, [a], {})[0][2].t)
                elif isinstance(a, VObj) and a.kind == "Seq":
                    pieces.append(ex.models.seq_text(st, a))
                elif isinstance(a, (VObj, VOpaque)):
                    pieces.append(m_str(ex, st, fr, [a], {})[0][2].t)      # some text (approximated), in its place
                else:
                    ok = False
                    break
                pieces.append(tm.S(post))
            if ok:
                return [(st, "ok", VT(tm.concat(*pieces)))]
    # a template assembled from a constant message with "{}" fields and symbolic pieces (e.g. msg + " (" + details + ")"):
    # exact when the symbolic pieces hold no brace; a brace in one of them makes str.format fail or misplace the fields
    pieces_t = list(self.t.args) if self.t.op == "str.++" else None
    if pieces_t is not None and not kwargs and all(p_.sort == STR for p_ in pieces_t):
        consts = [tm.cval(p_) for p_ in pieces_t if tm.is_const(p_)]
        nfields = sum(c_.count("{}") for c_ in consts)
        plain = all("{" not in c_.replace("{}", "") and "}" not in c_.replace("{}", "") for c_ in consts)
        if plain and nfields == len(args):
            sym = [p_ for p_ in pieces_t if not tm.is_const(p_)]
            braces = tm.or_(*[tm.or_(tm.contains(p_, "{"), tm.contains(p_, "}")) for p_ in sym]) if sym else tm.FALSE
            texts, s_cur = [], st
            for a in args:
                (s_cur, _tag, v_) = m_str(ex, s_cur, fr, [a], {})[0]
                texts.append(v_.t)
            out, k_ = [], 0
            for p_ in pieces_t:
                if not tm.is_const(p_):
                    out.append(p_)
                    continue
                parts = tm.cval(p_).split("{}")
                out.append(tm.S(parts[0]))
                for post in parts[1:]:
                    out += [texts[k_], tm.S(post)]
                    k_ += 1
            res = [(s_cur.assume(tm.not_(braces)), "ok", VT(tm.concat(*out)))]
            if not (tm.is_const(braces) and not tm.cval(braces)):
                res += ex.raise_(st.assume(braces), "ValueError", VT(tm.S("format field in a message part")))
            return res
    return [(st, "ok", VT(tm.approx("fmt", STR)))]


def sm_lower(ex, st, fr, self, args, kwargs):
    return [(st, "ok", VT(tm.lower(self.t)))]


def sm_upper(ex, st, fr, self, args, kwargs):
    return [(st, "ok", VT(tm.upper(self.t)))]


def sm_replace(ex, st, fr, self, args, kwargs):
    a, b = args
    if tm.is_const(self.t) and tm.is_const(a.t) and tm.cval(a.t) != "":
        # constant haystack and needle: str.replace is a split/join (exact), the replacement may be symbolic
        parts = tm.cval(self.t).split(tm.cval(a.t))
        pieces = [tm.S(parts[0])]
        for p_ in parts[1:]:
            pieces += [b.t, tm.S(p_)]
        return [(st, "ok", VT(tm.concat(*pieces)))]
    return [(st, "ok", VT(T("str.replace_all", (self.t, a.t, b.t), STR)))]


def sm_join(ex, st, fr, self, args, kwargs):
    (v,) = args
    if isinstance(v, (VList, VTuple)):
        items = st.get(v, "items") if isinstance(v, VList) else v.items
        parts = []
        for i, it in enumerate(items):
            if i:
                parts.append(self.t)
            parts.append(it.t)
        return [(st, "ok", VT(tm.concat(*parts) if parts else tm.S("")))]
    if isinstance(v, VObj) and v.kind == "symlist":
        v = st.get(v, "seq")
    if isinstance(v, VT) and v.t.sort == tm.seq_sort(STR) and tm.is_const(self.t) and tm.cval(self.t) == "":
        ex.models.need_joinall()
        return [(st, "ok", VT(tm.app("joinall", STR, v.t)))]
    hook = getattr(ex.models, "join_of", None)
    if hook is not None:
        r = hook(ex, st, fr, self, v)
        if r is not None:
            return r
    raise Unsupported("join of %r" % (v,))


def km_symlist_append(ex, st, fr, self, args, kwargs):
    cur = st.get(self, "seq").t
    e = ex.models.as_elem(ex, st, args[0], tm.elem_sort(cur.sort))
    return [(st.set(self, "seq", VT(tm.seqcat(cur, tm.sequnit(e)), "list")), "ok", NONE)]


def lm_append(ex, st, fr, self, args, kwargs):
    items = list(st.get(self, "items")) + [args[0]]
    return [(st.set(self, "items", items), "ok", NONE)]


def dm_get(ex, st, fr, self, args, kwargs):
    k = args[0]
    default = args[1] if len(args) > 1 else NONE
    items = st.get(self, "items")
    if isinstance(k, VT) and tm.is_const(k.t):
        return [(st, "ok", items.get(tm.cval(k.t), default))]
    if isinstance(k, VT) and k.t.sort == STR:
        # symbolic key over a constant table: ite chain when all values are terms of one sort
        vals = [v for kk, v in items.items() if isinstance(kk, str)]
        if all(isinstance(v, VT) for v in vals) and isinstance(default, VT) and all(
                v.t.sort == default.t.sort for v in vals):
            r = default.t
            for kk, v in reversed(list(items.items())):
                if isinstance(kk, str):
                    r = tm.ite(tm.eq(k.t, tm.S(kk)), v.t, r)
            return [(st, "ok", VT(r))]
        # otherwise: one outcome per constant key, and the default when none applies
        res, none = [], []
        for kk, v in items.items():
            if isinstance(kk, str):
                res.append((st.assume(tm.eq(k.t, tm.S(kk)), *none), "ok", v))
                none.append(tm.ne(k.t, tm.S(kk)))
        res.append((st.assume(*none), "ok", default))
        return res
    raise Unsupported("dict.get with key %r" % (k,))


def dm_items(ex, st, fr, self, args, kwargs):
    items = st.get(self, "items")
    out = [VTuple([VT(tm.S(k)) if isinstance(k, str) else VT(tm.I(k)), v]) for k, v in items.items()]
    st, l = ex.new_list(st, out)
    return [(st, "ok", l)]


def dm_values(ex, st, fr, self, args, kwargs):
    st, l = ex.new_list(st, list(st.get(self, "items").values()))
    return [(st, "ok", l)]


def dm_setdefault(ex, st, fr, self, args, kwargs):
    k, default = args
    items = st.get(self, "items")
    if isinstance(k, VT) and tm.is_const(k.t):
        kk = tm.cval(k.t)
        if kk in items:
            return [(st, "ok", items[kk])]
        items = dict(items)
        items[kk] = default
        return [(st.set(self, "items", items), "ok", default)]
    raise Unsupported("dict.setdefault symbolic key")


def dm_pop(ex, st, fr, self, args, kwargs):
    k = args[0]
    items = st.get(self, "items")
    if isinstance(k, VT) and tm.is_const(k.t):
        kk = tm.cval(k.t)
        if kk in items:
            items = dict(items)
            v = items.pop(kk)
            return [(st.set(self, "items", items), "ok", v)]
        if len(args) > 1:
            return [(st, "ok", args[1])]
        return ex.raise_(st, "KeyError", k)
    raise Unsupported("dict.pop symbolic key")


# ---------------------------------------------------------------------- object / exceptions
def km_object_eq(ex, st, fr, self, args, kwargs):
    return [(st, "ok", VT(ex.identical(st, self, args[0])))]


def km_object_new(ex, st, fr, self, args, kwargs):
    obj = getattr(fr, "new_obj", None)
    if obj is None:
        obj = VObj(args[0].name if args and isinstance(args[0], VClass) else "object")
    return [(st, "ok", obj)]


def km_exc_init(ex, st, fr, self, args, kwargs):
    return [(st.set(self, "args", VTuple(list(args))), "ok", NONE)]


# ---------------------------------------------------------------------- Bio.Seq.Seq  (D-SEQ)
def km_seq_getitem(ex, st, fr, self, args, kwargs):
    ex.used_models.add("D-SEQ")
    (idx,) = args
    data = ex.models.seq_text(st, self)
    if isinstance(idx, VSlice):
        lo, hi = ex.slice_terms(idx)
        st = st.fork()
        return [(st, "ok", ex.models.mk_seq(st, tm.pyslice(data, lo, hi)))]
    raise Unsupported("Seq[int]")


def km_seq_add(ex, st, fr, self, args, kwargs):
    ex.used_models.add("D-SEQ")
    (o,) = args
    st = st.fork()
    if isinstance(o, VObj) and o.kind in ("SeqRecord", "CircularRecord"):
        return ex.call_method(o, "__radd__", [self], {}, st, fr)
    return [(st, "ok", ex.models.mk_seq(st, tm.concat(ex.models.seq_text(st, self), ex.models.seq_text(st, o))))]


def km_seq_len(ex, st, fr, self, args, kwargs):
    ex.used_models.add("D-SEQ")
    return [(st, "ok", VT(tm.slen(ex.models.seq_text(st, self))))]


def km_seq_eq(ex, st, fr, self, args, kwargs):
    ex.used_models.add("D-SEQ")
    (o,) = args
    if isinstance(o, VObj) and o.kind == "Seq" or isinstance(o, VT) and o.t.sort == STR:
        return [(st, "ok", VT(tm.eq(ex.models.seq_text(st, self), ex.models.seq_text(st, o))))]
    return [(st, "ok", VT(tm.FALSE))]


def km_seq_rc(ex, st, fr, self, args, kwargs):
    ex.used_models.add("D-SEQ")
    st = st.fork()
    data = ex.models.seq_text(st, self)
    if tm.is_const(data):
        # a constant: the dependency itself is evaluated (Bio.Seq.reverse_complement), e.g. on an elucidated cut pattern
        from Bio.Seq import Seq as _Seq
        return [(st, "ok", ex.models.mk_seq(st, tm.S(str(_Seq(tm.cval(data)).reverse_complement()))))]
    return [(st, "ok", ex.models.mk_seq(st, tm.app("rc", STR, ex.models.seq_text(st, self))))]


def km_seq_lower(ex, st, fr, self, args, kwargs):
    st = st.fork()
    return [(st, "ok", ex.models.mk_seq(st, tm.lower(ex.models.seq_text(st, self))))]


def km_seq_upper(ex, st, fr, self, args, kwargs):
    st = st.fork()
    return [(st, "ok", ex.models.mk_seq(st, tm.upper(ex.models.seq_text(st, self))))]


def inst_seq(ex, st, fr, args, kwargs):
    ex.used_models.add("D-SEQ")
    (d,) = args
    st = st.fork()
    return [(st, "ok", ex.models.mk_seq(st, ex.models.seq_text(st, d)))]


# ---------------------------------------------------------------------- re  (D-RE)
def m_re_compile(ex, st, fr, args, kwargs):
    ex.used_models.add("D-RE")
    if isinstance(args[0], VT) and tm.is_const(args[0].t) and tm.cval(args[0].t) == "\\[(\\d*)\\]":
        return [(st, "ok", VObj("CitRe"))]   # the citation pattern has its own assumed contract (D-RE-CIT)
    o = VObj("RePattern")
    st = st.set(o, "pattern", args[0])
    return [(st, "ok", o)]


def re_window(data, pos, endpos):
    """the text a match attempt at pos may consume: data[pos:min(endpos,len)]"""
    n = tm.slen(data)
    e = tm.imin(endpos, n)
    return tm.substr(data, pos, tm.imax(tm.sub(e, pos), 0))


def re_at(pat, data, pos, width):
    return tm.app("re_at", BOOL, pat, data, pos, width)


RE_AT_DEF = ("(define-fun re_at ((p String) (d String) (j Int) (w Int)) Bool (re_m p (str.substr d j "
             "(ite (<= (- (ite (<= (+ j w) (str.len d)) (+ j w) (str.len d)) j) 0) 0 "
             "(- (ite (<= (+ j w) (str.len d)) (+ j w) (str.len d)) j)))))")


def km_re_match(ex, st, fr, self, args, kwargs):
    ex.used_models.add("D-RE")
    data, pos, endpos = args[0], args[1] if len(args) > 1 else VT(tm.I(0)), args[2] if len(args) > 2 else None
    pat = st.get(self, "pattern").t
    e = endpos.t if endpos is not None else tm.slen(data.t)
    w = re_window(data.t, pos.t, e)
    m = tm.app("re_m", BOOL, pat, w)
    at = re_at(pat, data.t, pos.t, tm.sub(e, pos.t))
    st = st.assume(tm.eq(at, m))  # ground instance of the definition of re_at
    res = [(st.assume(tm.not_(at)), "ok", NONE)]
    s2 = st.assume(at)
    o = VObj("ReMatch")
    ln = tm.app("re_len", INT, pat, w)
    s2 = s2.assume(tm.le(0, ln), tm.le(ln, tm.slen(w)))
    s2 = s2.set(o, "pat", VT(pat)).set(o, "w", VT(w)).set(o, "pos", pos).set(o, "len", VT(ln))
    res.append((s2, "ok", o))
    return res


def shape3_facts(pat, w):
    """RE5 (adjacency): when the pattern has the shape F0(F1)(F2)(F3)F4 -- three adjacent capture groups, no
    alternation, no optional part (`shape3(pat)`, checked per structure literal) -- the spans of groups 1,2,3 are
    adjacent and lie inside the match"""
    s0 = lambda i: tm.app("re_s0", INT, pat, w, tm.I(i))
    s1 = lambda i: tm.app("re_s1", INT, pat, w, tm.I(i))
    ln = tm.app("re_len", INT, pat, w)
    return tm.implies(tm.app("shape3", BOOL, pat), tm.and_(
        tm.le(0, s0(1)), tm.le(s0(1), s1(1)), tm.eq(s1(1), s0(2)), tm.le(s0(2), s1(2)), tm.eq(s1(2), s0(3)),
        tm.le(s0(3), s1(3)), tm.le(s1(3), ln)))


def rematch_span_terms(st, m, i):
    pat, w, pos = st.get(m, "pat").t, st.get(m, "w").t, st.get(m, "pos").t
    return (tm.add(pos, tm.app("re_s0", INT, pat, w, i)), tm.add(pos, tm.app("re_s1", INT, pat, w, i)))


def km_rematch_span(ex, st, fr, self, args, kwargs):
    ex.used_models.add("D-RE")
    i = args[0].t if args else tm.I(0)
    spec = st.get(self, "spans_uf")
    if spec is not None:  # abstract match given by a contract (SeqMatch under INV)
        return spec.fn(ex, st, self, i)
    pat, w, pos, ln = st.get(self, "pat").t, st.get(self, "w").t, st.get(self, "pos").t, st.get(self, "len").t
    r0, r1 = tm.app("re_s0", INT, pat, w, i), tm.app("re_s1", INT, pat, w, i)
    # RE1: group spans lie inside the match; group 0 is the whole match
    st = st.assume(tm.le(0, r0), tm.le(r0, r1), tm.le(r1, ln),
                   tm.implies(tm.eq(i, 0), tm.and_(tm.eq(r0, 0), tm.eq(r1, ln))), shape3_facts(pat, w))
    return [(st, "ok", VTuple([VT(tm.add(pos, r0)), VT(tm.add(pos, r1))]))]


def km_rematch_start(ex, st, fr, self, args, kwargs):
    outs = km_rematch_span(ex, st, fr, self, args, kwargs)
    return [(s, t, v.items[0] if t == "ok" else v) for (s, t, v) in outs]


def km_rematch_end(ex, st, fr, self, args, kwargs):
    outs = km_rematch_span(ex, st, fr, self, args, kwargs)
    return [(s, t, v.items[1] if t == "ok" else v) for (s, t, v) in outs]


def km_rematch_group(ex, st, fr, self, args, kwargs):
    hook = getattr(ex.models, "rematch_group", None)
    if hook is not None:
        return hook(ex, st, fr, self, args, kwargs)
    raise Unsupported("re match group")


KIND_METHODS = {
    ("symlist", "append"): km_symlist_append,
    ("Seq", "__getitem__"): km_seq_getitem,
    ("Seq", "__add__"): km_seq_add,
    ("Seq", "__len__"): km_seq_len,
    ("Seq", "__eq__"): km_seq_eq,
    ("Seq", "reverse_complement"): km_seq_rc,
    ("Seq", "lower"): km_seq_lower,
    ("Seq", "upper"): km_seq_upper,
    ("RePattern", "match"): km_re_match,
    ("ReMatch", "span"): km_rematch_span,
    ("ReMatch", "start"): km_rematch_start,
    ("ReMatch", "end"): km_rematch_end,
    ("ReMatch", "group"): km_rematch_group,
}

KIND_PROPS = {}

INSTANTIATE = {
    "Seq": inst_seq,
}
