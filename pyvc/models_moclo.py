# coding: utf-8
"""Models specific to moclo's object structure (no assumption about dependencies here except D-CACHE/D-RESTR):

* symbolic classes (an arbitrary subclass of StructuredRecord / AbstractModule / AbstractVector) with the
  explicit MRO-lookup model of the class attribute `_regex` (DESIGN appendix C):
      own dictionaries:  has : Array Cls Bool,  val : Array Cls RegexId   (0 = None)
      read  c._regex  =  val[owner],  owner = c if has[c] else inh_owner(has, c)  (nearest ancestor with an entry)
      write c._regex = r   =  has[c] := true, val[c] := id(r)
* entity objects (module / vector instances) identified by an integer `ident`.
"""
from __future__ import annotations

from . import term as tm
from .term import T, INT, BOOL, STR
from .values import (VT, VNone, NONE, VTuple, VList, VDict, VRepList, VObj, VClass, VModel, VModule, VSlice, VOpaque, State)
from .symex import Unsupported
from . import models as M
from .models_bio import BioModels

HAS = tm.arr_sort(INT, BOOL)
VAL = tm.arr_sort(INT, INT)


def tr_pattern(p):
    return tm.concat("(?i)", tm.app("trs", STR, p))


class MocloModels(BioModels):
    def __init__(self):
        super(MocloModels, self).__init__()
        self.decl("structure", [INT], STR)        # cls.structure() of a class (pure: reads class constants only)
        self.decl("cls_name", [INT], STR)
        self.decl("inh_owner", [HAS, INT], INT)    # nearest proper ancestor holding an own `_regex` entry
        self.decl("rx_pattern", [INT], STR)        # DNARegex object -> its .pattern
        self.decl("rx_tpat", [INT], STR)           # DNARegex object -> its compiled .regex.pattern
        self.decl("trs", [STR], STR)
        self.decl("base_cls", [], INT)             # StructuredRecord itself

    # ------------------------------------------------------------------ symbolic classes
    def sym_class(self, symbase, term):
        c = VClass("$" + symbase, None)
        c.sym = term
        c.symbase = symbase
        return c

    def cache_arrays(self, st):
        return st.ghost["cls_has"], st.ghost["cls_val"]

    def init_cache(self, st, prefix="cache"):
        st.ghost["cls_has"] = tm.V(prefix + ".has", HAS)
        st.ghost["cls_val"] = tm.V(prefix + ".val", VAL)

    def inv_cache(self, st):
        """INV_cache: every own, non-None entry holds the regex of *that* class, built by DNARegex(...);
        StructuredRecord itself holds `_regex = None`; an inherited owner always exists and has an entry"""
        has, val = self.cache_arrays(st)
        c = tm.V("c_", INT)
        v = tm.select(val, c)
        own_ok = tm.forall([c], tm.implies(tm.and_(tm.select(has, c), tm.ne(v, 0)),
                                           tm.and_(tm.eq(tm.app("rx_pattern", STR, v), tm.app("structure", STR, c)),
                                                   tm.eq(tm.app("rx_tpat", STR, v), tr_pattern(tm.app("rx_pattern", STR, v))))))
        base = tm.app("base_cls", INT)
        return [("own-entries-belong-to-their-class", own_ok),
                ("base-class-entry-is-None", tm.and_(tm.select(has, base), tm.eq(tm.select(val, base), 0)))]

    def owner(self, st, c):
        has, _ = self.cache_arrays(st)
        inh = tm.app("inh_owner", INT, has, c)
        return tm.ite(tm.select(has, c), c, inh), inh

    def regex_obj(self, st, ident):
        st = st.fork()
        o = VObj("DNARegex")
        st.set_inplace(o, "ident", VT(ident))
        st.set_inplace(o, "pattern", VT(tm.app("rx_pattern", STR, ident)))
        rx = VObj("RePattern")
        st.set_inplace(rx, "pattern", VT(tm.app("rx_tpat", STR, ident)))
        st.set_inplace(o, "regex", rx)
        return st, o

    def read_own(self, ex, st, cls, default=NONE):
        """cls.__dict__.get('_regex', default) / cls.__dict__['_regex']"""
        has, val = self.cache_arrays(st)
        c = cls.sym
        res = []
        s_abs = st.assume(tm.not_(tm.select(has, c)))
        res.append((s_abs, "absent", default))
        s_has = st.assume(tm.select(has, c))
        v = tm.select(val, c)
        res.append((s_has.assume(tm.eq(v, 0)), "ok", NONE))
        s3, o = self.regex_obj(s_has.assume(tm.ne(v, 0)), v)
        res.append((s3, "ok", o))
        return res

    def class_cell(self, ex, st, cls, attr):
        if not hasattr(cls, "sym"):
            return None
        c = cls.sym
        if attr == "_regex":
            has, val = self.cache_arrays(st)
            owner, inh = self.owner(st, c)
            # an inherited owner is a proper ancestor that has an entry (StructuredRecord always has one)
            st = st.assume(tm.implies(tm.not_(tm.select(has, c)), tm.and_(tm.select(has, inh), tm.ne(inh, c))))
            v = tm.select(val, owner)
            s1 = st.assume(tm.eq(v, 0))
            s2, o = self.regex_obj(st.assume(tm.ne(v, 0)), v)
            return [(s1, "ok", NONE), (s2, "ok", o)]
        if attr == "structure":
            return [(st, "ok", VModel("cls.structure", lambda ex_, s, fr, a, k: [(s, "ok", VT(tm.app("structure", STR, c)))]))]
        if attr == "__name__":
            return [(st, "ok", VT(tm.app("cls_name", STR, c)))]
        if attr == "__dict__":
            o = VObj("ClassDict")
            return [(st.set(o, "cls", cls), "ok", o)]
        return ex.class_attr(cls.symbase, attr, st, None, self_val=None, cls_val=cls)

    def class_setattr(self, ex, st, cls, attr, v):
        if not hasattr(cls, "sym") or attr != "_regex":
            raise Unsupported("class attribute store %s.%s" % (cls.name, attr))
        has, val = self.cache_arrays(st)
        c = cls.sym
        st = st.fork()
        if isinstance(v, VNone):
            ident = tm.I(0)
        elif isinstance(v, VObj) and v.kind == "DNARegex":
            iv = st.get(v, "ident")
            if iv is None:
                ident = tm.fresh("rx", INT)
                st = st.assume(tm.ne(ident, 0), tm.eq(tm.app("rx_pattern", STR, ident), st.get(v, "pattern").t),
                               tm.eq(tm.app("rx_tpat", STR, ident), st.get(st.get(v, "regex"), "pattern").t))
                st.set_inplace(v, "ident", VT(ident))
            else:
                ident = iv.t
        else:
            raise Unsupported("store of %r into _regex" % (v,))
        st.ghost["cls_has"] = tm.store(has, c, tm.TRUE)
        st.ghost["cls_val"] = tm.store(val, c, ident)
        writes = st.ghost.get("regex_writes", ())
        st.ghost["regex_writes"] = writes + (c,)
        return [(st, "ok", None)]

    # ------------------------------------------------------------------ entities
    def sym_entity(self, st, symbase, prefix, record=None, cls_term=None):
        e = VObj(symbase)
        cls = self.sym_class(symbase, cls_term if cls_term is not None else tm.V(prefix + ".cls", INT))
        st.set_inplace(e, "__class__", cls)
        rec = record if record is not None else self.sym_record(st, "CircularRecord", prefix + ".record")
        st.set_inplace(e, "record", rec)
        st.set_inplace(e, "seq", st.get(rec, "seq"))
        return e

    def identical(self, ex, st, a, b):
        return super(MocloModels, self).identical(ex, st, a, b)


# ClassDict (cls.__dict__) -------------------------------------------------------------------------------
def km_classdict_get(ex, st, fr, self, args, kwargs):
    cls = st.get(self, "cls")
    key = args[0]
    if not (isinstance(key, VT) and tm.is_const(key.t) and tm.cval(key.t) == "_regex"):
        raise Unsupported("cls.__dict__.get(%r)" % (key,))
    default = args[1] if len(args) > 1 else NONE
    return [(s, "ok", v) for (s, tag, v) in ex.models.read_own(ex, st, cls, default)]


def km_classdict_getitem(ex, st, fr, self, args, kwargs):
    cls = st.get(self, "cls")
    key = args[0]
    if not (isinstance(key, VT) and tm.is_const(key.t) and tm.cval(key.t) == "_regex"):
        raise Unsupported("cls.__dict__[%r]" % (key,))
    res = []
    for (s, tag, v) in ex.models.read_own(ex, st, cls):
        if tag == "absent":
            res.extend(ex.raise_(s, "KeyError", key))
        else:
            res.append((s, "ok", v))
    return res


def km_classdict_contains(ex, st, fr, self, args, kwargs):
    cls = st.get(self, "cls")
    key = args[0]
    if not (isinstance(key, VT) and tm.is_const(key.t) and tm.cval(key.t) == "_regex"):
        raise Unsupported("%r in cls.__dict__" % (key,))
    has, _ = ex.models.cache_arrays(st)
    return [(st, "ok", VT(tm.select(has, cls.sym)))]


M.KIND_METHODS.update({
    ("ClassDict", "get"): km_classdict_get,
    ("ClassDict", "__getitem__"): km_classdict_getitem,
    ("ClassDict", "__contains__"): km_classdict_contains,
})


# ---------------------------------------------------------------------- restriction enzymes (D-RESTR)
M.ASSUMPTIONS["D-RESTR"] = (
    "Bio.Restriction: is_3overhang/is_5overhang/is_blunt/is_unknown are constants of the enzyme; catalyse(seq) "
    "(linear) returns a tuple of 1 + ncuts(enzyme, seq) fragments and raises nothing on IUPAC text; elucidate() of a "
    "qualifying 5' cutter is site.N^a.'^'.N^k.'_'.'N'; ovhgseq = N^k")


def _cutter_of(cls):
    return tm.app("cutter_of", INT, cls.sym)


def mk_cutter(st, ident):
    o = VObj("Cutter")
    st = st.set(o, "ident", VT(ident))
    return st, o


def km_cutter_flag(name):
    def fn(ex, st, fr, self, args, kwargs):
        ex.used_models.add("D-RESTR")
        info = st.get(self, "info")
        if info is not None and name in info.what:
            return [(st, "ok", VT(tm.B(info.what[name])))]
        return [(st, "ok", VT(tm.app(name, BOOL, st.get(self, "ident").t)))]

    return fn


def km_cutter_catalyse(ex, st, fr, self, args, kwargs):
    ex.used_models.add("D-RESTR")
    (seq,) = args[:1]
    text = ex.models.text(st, seq)
    nc = tm.app("ncuts", INT, st.get(self, "ident").t, text)
    o = VObj("FragTuple")
    st = st.assume(tm.le(0, nc)).set(o, "len", VT(tm.add(nc, 1)))
    return [(st, "ok", o)]


def km_fragtuple_len(ex, st, fr, self, args, kwargs):
    return [(st, "ok", st.get(self, "len"))]


def km_cutter_elucidate(ex, st, fr, self, args, kwargs):
    ex.used_models.add("D-RESTR")
    info = st.get(self, "info")
    if info is not None:   # a concrete enzyme of Bio.Restriction: its real constants
        return [(st, "ok", VT(tm.S(info.what["elucidate"])))]
    return [(st, "ok", VT(tm.app("elucidate", STR, st.get(self, "ident").t)))]


def kp_cutter_ovhgseq(ex, st, self):
    info = st.get(self, "info")
    if info is not None:
        return [(st, "ok", VT(tm.S(info.what["ovhgseq"])))]
    return [(st, "ok", VT(tm.app("ovhgseq", STR, st.get(self, "ident").t)))]


for _n in ("is_3overhang", "is_5overhang", "is_blunt", "is_unknown"):
    M.KIND_METHODS[("Cutter", _n)] = km_cutter_flag(_n)
M.KIND_METHODS[("Cutter", "catalyse")] = km_cutter_catalyse
M.KIND_METHODS[("Cutter", "elucidate")] = km_cutter_elucidate
M.KIND_METHODS[("FragTuple", "__len__")] = km_fragtuple_len
M.KIND_PROPS[("Cutter", "ovhgseq")] = kp_cutter_ovhgseq


def _instance_attr(self, ex, st, obj, attr):
    cls = st.get(obj, "__class__")
    if cls is not None and hasattr(cls, "sym") and attr in ("cutter", "signature"):
        return self.class_cell(ex, st, cls, attr)
    return None


_orig_class_cell = MocloModels.class_cell


def _class_cell(self, ex, st, cls, attr):
    if hasattr(cls, "sym") and attr == "cutter":
        st2, o = mk_cutter(st, _cutter_of(cls))
        if getattr(cls, "cutter_info", None) is not None:
            st2 = st2.set(o, "info", VOpaque(cls.cutter_info))
        return [(st2, "ok", o)]
    if hasattr(cls, "sym") and attr == "signature":
        c = cls.sym
        return [(st, "ok", VTuple([VT(tm.app("upsig", STR, c)), VT(tm.app("downsig", STR, c))]))]
    return _orig_class_cell(self, ex, st, cls, attr)


MocloModels.class_cell = _class_cell
MocloModels.instance_attr = _instance_attr


# ---------------------------------------------------------------------- abstract entities (assembly level)
# An entity handed to the assembly is identified by an integer; everything it reports is a function of that
# identity (C06): valid(e), ostart(e), oend(e), frag(e) (text of target_sequence()), eid(e) (record id),
# efeats(e) (feature table of the fragment).  These names abbreviate the closed forms of the entity contracts.
ABSENT = -1


def abstract_entity(st, symbase, ident):
    e = VObj(symbase)
    st.set_inplace(e, "ident", VT(ident))
    rec = VObj("CircularRecord")
    st.set_inplace(rec, "ident", VT(tm.app("erecord", INT, ident)))
    st.set_inplace(rec, "id", VT(tm.app("eid", STR, ident)))
    st.set_inplace(rec, "entity", VT(ident))
    st.set_inplace(e, "record", rec)
    return e


def _as_elem(self, ex, st, v, sort):
    if isinstance(v, VObj) and st.get(v, "ident") is not None and sort == INT:
        return st.get(v, "ident").t
    return BioModels.as_elem(self, ex, st, v, sort)


def _from_elem(self, ex, st, t):
    if t.sort == INT and getattr(self, "elem_kind", None):
        return abstract_entity(st, self.elem_kind, t)
    return VT(t)


MocloModels.as_elem = _as_elem
MocloModels.from_elem = _from_elem
MocloModels.elem_kind = None

# ---------------------------------------------------------------------- python dict with symbolic Seq keys
MAP = tm.arr_sort(STR, INT)


def map_arr(st, d):
    a = st.get(d, "arr")
    if a is not None:
        return a.t
    if st.get(d, "items"):
        raise Unsupported("dict with both constant and symbolic keys")
    return tm.constarr(MAP, ABSENT)


def key_text(ex, st, k):
    return ex.models.text(st, k)


def _wrap_dict_method(name, orig):
    def fn(ex, st, fr, self, args, kwargs):
        k = args[0] if args else None
        symbolic = st.get(self, "arr") is not None or (isinstance(k, VObj) and k.kind == "Seq")
        if not symbolic:
            return orig(ex, st, fr, self, args, kwargs)
        ex.used_models.add("D-SEQ")
        arr = map_arr(st, self)
        if name == "values":
            o = VObj("MapValues")
            return [(st.set(o, "arr", VT(arr)), "ok", o)]
        kt = key_text(ex, st, k)
        cur = tm.select(arr, kt)
        absent = tm.eq(cur, ABSENT)
        kind = ex.models.elem_kind
        if name == "setdefault":
            v = args[1]
            vt = ex.models.as_elem(ex, st, v, INT)
            s1 = st.assume(absent).set(self, "arr", VT(tm.store(arr, kt, vt)))
            keys = st.ghost.get("map_keys:%d" % self.oid, {})
            s2 = st.assume(tm.not_(absent)).fork()
            return [(s1, "ok", v), (s2, "ok", ex.models.from_elem(ex, s2, cur))]
        if name == "get":
            default = args[1] if len(args) > 1 else NONE
            s2 = st.assume(tm.not_(absent)).fork()
            return [(st.assume(absent), "ok", default), (s2, "ok", ex.models.from_elem(ex, s2, cur))]
        if name == "__getitem__":
            s2 = st.assume(tm.not_(absent)).fork()
            return ex.raise_(st.assume(absent), "KeyError", k) + [(s2, "ok", ex.models.from_elem(ex, s2, cur))]
        if name == "pop":
            # finite-map law (D-DICT): removing a present key makes the number of keys one smaller, never negative
            arr2 = tm.store(arr, kt, ABSENT)
            s2 = st.assume(tm.not_(absent), tm.eq(tm.app("card", INT, arr2), tm.sub(tm.app("card", INT, arr), 1)),
                           tm.le(0, tm.app("card", INT, arr2))).fork()
            s2.set_inplace(self, "arr", VT(arr2))
            ex.used_models.add("D-DICT")
            res = [(s2, "ok", ex.models.from_elem(ex, s2, cur))]
            if len(args) > 1:
                res.append((st.assume(absent), "ok", args[1]))
            else:
                res.extend(ex.raise_(st.assume(absent), "KeyError", k))
            return res
        raise Unsupported("dict.%s with a symbolic key" % name)

    return fn


M.dm_get = _wrap_dict_method("get", M.dm_get)
M.dm_setdefault = _wrap_dict_method("setdefault", M.dm_setdefault)
M.dm_pop = _wrap_dict_method("pop", M.dm_pop)
M.dm_values = _wrap_dict_method("values", M.dm_values)

_orig_value_method = MocloModels.value_method


def _value_method(self, ex, st, v, attr):
    if isinstance(v, VDict):
        fn = {"get": M.dm_get, "items": M.dm_items, "values": M.dm_values, "setdefault": M.dm_setdefault,
              "pop": M.dm_pop}.get(attr)
        if fn is not None:
            return VModel("dict." + attr, fn, self_val=v)
    return _orig_value_method(self, ex, st, v, attr)


MocloModels.value_method = _value_method


def _custom_iter(self, ex, st, fr, node, it, ordinal):
    """`for key in d` over a dict with symbolic Seq keys: an arbitrary not-yet-seen key per iteration.
    ghost: seen : Array String Bool.  The loop spec's invariant may mention ctx['seen'] and ctx['key']."""
    if not (isinstance(it, VDict) and st.get(it, "arr") is not None):
        return None
    spec = ex.loopspecs.get(ordinal) if ordinal is not None else None
    if spec is None:
        raise Unsupported("dict iteration without invariant")
    if hasattr(spec, "accepts") and not spec.accepts(node):
        raise Unsupported("loop %s does not have the shape its invariant was written for" % ordinal)
    arr = st.get(it, "arr").t
    SEEN = tm.arr_sort(STR, BOOL)
    tag = "%s::loop%d" % (ex.root[1] if ex.root else fr.qual, ordinal)
    ctx = dict(pre=st, arr=arr, seen=tm.constarr(SEEN, tm.FALSE), ordinal=ordinal, dict=it)
    for (label, inv) in spec.invariant(ex, st, ctx):
        ex.emit("%s:init:%s" % (tag, label), st, inv, text="loop invariant holds on entry")
    modified = ex.assigned_names(node.body) | {node.target.id}
    sh = spec.havoc(ex, st, ctx, modified)
    seen = tm.fresh("seen", SEEN)
    ctx = dict(ctx, seen=seen)
    sv = tm.V("s_", STR)
    sh = sh.assume(tm.forall([sv], tm.implies(tm.select(seen, sv), tm.ne(tm.select(arr, sv), ABSENT))))
    sh = sh.assume(*[t for (_, t) in spec.invariant(ex, sh, ctx)])
    res = []
    # exit: every key seen
    s_exit = sh.assume(tm.forall([sv], tm.implies(tm.ne(tm.select(arr, sv), ABSENT), tm.select(seen, sv))))
    res.append((s_exit, "ok", None))
    # one more iteration on an unseen key
    key = tm.fresh("key", STR)
    s_it = sh.assume(tm.ne(tm.select(arr, key), ABSENT), tm.not_(tm.select(seen, key))).fork()
    kobj = self.mk_seq(s_it, key)
    for (s1, _, _) in ex.assign(node.target, kobj, s_it, fr):
        for (s2, btag, v) in ex.block(node.body, s1, fr):
            if btag in ("ok", "continue"):
                cur = s2.get(it, "arr").t
                ex.emit("%s:dict-not-resized" % tag, s2, tm.eq(cur, arr), text="the dict is not modified while iterated")
                ctx2 = dict(ctx, seen=tm.store(seen, key, tm.TRUE), key=key)
                for (label, inv) in spec.invariant(ex, s2, ctx2):
                    ex.emit("%s:preserve:%s" % (tag, label), s2, inv, text="loop invariant preserved")
            elif btag == "break":
                res.append((s2, "ok", None))
            else:
                res.append((s2, btag, v))
    return res


MocloModels.custom_iter = _custom_iter


_orig_comprehension = MocloModels.comprehension


def _comprehension(self, ex, st, fr, node, gen, it, what):
    """`mod.record.id for mod in self.modules` (generator fed to ", ".join): the ids of the modules in order"""
    import ast
    if what == "gen" and isinstance(it, VT) and it.t.sort == tm.seq_sort(INT) and isinstance(gen.target, ast.Name):
        if ast.unparse(node.elt) == "%s.record.id" % gen.target.id:
            o = VObj("IdGen")
            return [(st.set(o, "M", it), "ok", o)]
    return _orig_comprehension(self, ex, st, fr, node, gen, it, what)


def _join_of(self, ex, st, fr, sep, v):
    if isinstance(v, VObj) and v.kind == "IdGen" and tm.is_const(sep.t) and tm.cval(sep.t) == ", ":
        return [(st, "ok", VT(tm.app("join_ids", STR, st.get(v, "M").t)))]
    return None


MocloModels.comprehension = _comprehension
MocloModels.join_of = _join_of


# ---------------------------------------------------------------------- registries: dict with symbolic *string* keys,
# abstract items, sets of labels (D-SET), abstract file system (D-FS)
M.ASSUMPTIONS["D-DICT"] = ("python dict: setdefault/get/[]/in/pop/len/iteration as documented; keys compared by == and hash "
                           "(str: exact text)")
M.ASSUMPTIONS["D-SET"] = ("python set: set(x) holds the elements of x; a.intersection(b) holds exactly the elements of a that are "
                          "keys of b; len is their number; pop() returns one of them")
M.ASSUMPTIONS["D-FS"] = ("pyfilesystem2: isfile(p) iff p (normalised) is a file of the file system, at any depth; "
                         "filterdir('/', files=patterns, exclude_dirs=['*']) yields each root-level file whose name matches a "
                         "pattern exactly once -- and possibly root-level files matching a pattern only up to letter case (fs 2.x "
                         "matches case-insensitively on OS directories); fs.path.splitext(x + '.' + e) = (x, '.' + e) when e contains neither '.' nor '/'")
M.ASSUMPTIONS["D-IO"] = ("Bio.SeqIO.read(handle, 'genbank') returns the record stored in the file or raises ValueError")

_orig_wrap = _wrap_dict_method


def _wrap_dict_method2(name, orig):
    inner = _orig_wrap(name, orig)

    def fn(ex, st, fr, self, args, kwargs):
        k = args[0] if args else None
        if isinstance(k, VT) and k.t.sort == STR and not tm.is_const(k.t) and (st.get(self, "arr") is not None or not st.get(self, "items")):
            # a symbolic str key: same array model, the key is its own text
            st = st.fork()
            o = ex.models.mk_seq(st, k.t)
            ex.used_models.add("D-DICT")
            return inner(ex, st, fr, self, [o] + list(args[1:]), kwargs)
        return inner(ex, st, fr, self, args, kwargs)

    return fn


M.dm_get = _wrap_dict_method2("get", M.dm_get)
M.dm_setdefault = _wrap_dict_method2("setdefault", M.dm_setdefault)
M.dm_pop = _wrap_dict_method2("pop", M.dm_pop)


def abstract_item(st, ident):
    o = VObj("Item")
    st.set_inplace(o, "ident", VT(ident))
    st.set_inplace(o, "id", VT(tm.app("item_id", STR, ident)))
    return o


_prev_from_elem = MocloModels.from_elem


def _from_elem2(self, ex, st, t):
    if t.sort == INT and getattr(self, "elem_kind", None) == "Item":
        return abstract_item(st, t)
    if t.sort == INT and getattr(self, "elem_kind", None) == "FeatureAbs":
        o = VObj("FeatureAbs")
        st.set_inplace(o, "ident", VT(t))
        q = VObj("QualsAbs")
        st.set_inplace(q, "ident", VT(t))
        st.set_inplace(o, "qualifiers", q)
        return o
    return _prev_from_elem(self, ex, st, t)


MocloModels.from_elem = _from_elem2


def km_qualsabs_get(ex, st, fr, self, args, kwargs):
    key = args[0]
    if isinstance(key, VT) and tm.is_const(key.t) and tm.cval(key.t) == "label":
        o = VObj("LabelList")
        return [(st.set(o, "ident", st.get(self, "ident")), "ok", o)]
    raise Unsupported("qualifiers.get(%r)" % (key,))


def m_set(ex, st, fr, args, kwargs):
    ex.used_models.add("D-SET")
    (v,) = args
    if isinstance(v, VObj) and v.kind == "LabelList":
        o = VObj("LabelSet")
        return [(st.set(o, "ident", st.get(v, "ident")), "ok", o)]
    raise Unsupported("set(%r)" % (v,))


def km_labelset_intersection(ex, st, fr, self, args, kwargs):
    ex.used_models.add("D-SET")
    (other,) = args
    if not isinstance(other, VDict):
        raise Unsupported("intersection with %r" % (other,))
    keys = [k for k in st.get(other, "items") if isinstance(k, str)]
    o = VObj("CassSet")
    fid = st.get(self, "ident").t
    n = tm.app("ncass", INT, fid)
    st = st.assume(tm.le(0, n)).set(o, "ident", VT(fid)).set(o, "len", VT(n)).set(o, "keys", VOpaque(keys))
    o.keys = keys
    return [(st, "ok", o)]


def km_cassset_len(ex, st, fr, self, args, kwargs):
    return [(st, "ok", st.get(self, "len"))]


def km_cassset_pop(ex, st, fr, self, args, kwargs):
    ex.used_models.add("D-SET")
    fid = st.get(self, "ident").t
    c = tm.app("cass", STR, fid)
    res = ex.raise_(st.assume(tm.eq(st.get(self, "len").t, 0)), "KeyError")
    st2 = st.assume(tm.lt(0, st.get(self, "len").t), tm.or_(*[tm.eq(c, tm.S(k)) for k in self.keys]))
    return res + [(st2, "ok", VT(c))]


M.KIND_METHODS.update({
    ("QualsAbs", "get"): km_qualsabs_get,
    ("LabelSet", "intersection"): km_labelset_intersection,
    ("CassSet", "__len__"): km_cassset_len,
    ("CassSet", "pop"): km_cassset_pop,
})

_prev_builtin = MocloModels.builtin


def _builtin(self, name):
    if name == "set":
        return VModel("set", m_set)
    return _prev_builtin(self, name)


MocloModels.builtin = _builtin


def km_member_values(ex, st, fr, self, args, kwargs):
    return [(st, "ok", st.get(self, "_values"))]


M.KIND_METHODS[("MemberRegistry", "values")] = km_member_values


# ---------------------------------------------------------------------- abstract file system (D-FS, D-IO)
def km_fs_isfile(ex, st, fr, self, args, kwargs):
    ex.used_models.add("D-FS")
    (name,) = args
    return [(st, "ok", VT(tm.app("fs_isfile", BOOL, name.t)))]


def km_fs_open(ex, st, fr, self, args, kwargs):
    ex.used_models.add("D-FS")
    o = VObj("ctx:transparent")
    return [(st.set(o, "path", args[0]), "ok", o)]


def m_seqio_read(ex, st, fr, args, kwargs):
    ex.used_models.add("D-IO")
    handle = args[0]
    path = st.get(handle, "path").t
    st = st.fork()
    k = next(tm._fresh)
    rec = ex.models.sym_record(st, "SeqRecord", "file%d" % k, ann_keys=("topology",))
    st.set_inplace(rec, "file", VT(path))
    bad = tm.app("fs_unparsable", BOOL, path)
    return ex.raise_(st.assume(bad), "ValueError") + [(st.assume(tm.not_(bad)), "ok", rec)]


def m_splitext(ex, st, fr, args, kwargs):
    ex.used_models.add("D-FS")
    (name,) = args
    return [(st, "ok", VTuple([VT(tm.app("path_stem", STR, name.t)), VT(tm.app("path_ext", STR, name.t))]))]


def inst_item(ex, st, fr, args, kwargs):
    o = VObj("Item")
    st = st.fork()
    for k in ("id", "name", "entity", "resistance"):
        if k in kwargs:
            st.set_inplace(o, k, kwargs[k])
    return [(st, "ok", o)]


# python set of strings built by add(): characteristic function (D-SET)
STRSET = tm.arr_sort(STR, BOOL)


def m_emptyset(ex, st, fr, args, kwargs):
    if args or kwargs:
        return m_set(ex, st, fr, args, kwargs)      # set(x): the label-set model above
    ex.used_models.add("D-SET")
    o = VObj("PySet")
    return [(st.set(o, "arr", VT(tm.constarr(STRSET, tm.FALSE))), "ok", o)]


def km_set_contains(ex, st, fr, self, args, kwargs):
    (x,) = args
    if not (isinstance(x, VT) and x.t.sort == STR):
        raise Unsupported("set membership of %r" % (x,))
    return [(st, "ok", VT(tm.select(st.get(self, "arr").t, x.t)))]


def km_set_add(ex, st, fr, self, args, kwargs):
    (x,) = args
    if not (isinstance(x, VT) and x.t.sort == STR):
        raise Unsupported("set.add of %r" % (x,))
    return [(st.set(self, "arr", VT(tm.store(st.get(self, "arr").t, x.t, tm.TRUE))), "ok", NONE)]


M.KIND_METHODS[("PySet", "__contains__")] = km_set_contains
M.KIND_METHODS[("PySet", "add")] = km_set_add
M.ASSUMPTIONS["D-SET"] = M.ASSUMPTIONS.get("D-SET", "") + "; set() is empty, add(x) adds x, `in` is membership (hash/eq of str: exact text)"

_prev_builtin2 = MocloModels.builtin


def _builtin2(self, name):
    if name == "set":
        return VModel("set", m_emptyset)
    return _prev_builtin2(self, name)


MocloModels.builtin = _builtin2


def fs_listing(exts):
    """the sequence of directory entries filterdir('/') yields for the patterns *.<ext>, ext in exts (a constant of
    the file system and of the pattern list)"""
    return tm.app("fs_listing:" + ",".join(exts), tm.seq_sort(INT))


def fname(e):
    return tm.app("fs_entry_name", STR, e)


def km_fs_filterdir(ex, st, fr, self, args, kwargs):
    """D-FS: filterdir('/', files=['*.e1', '*.e2', ...], exclude_dirs=['*']) yields each root-level file whose name
    matches a pattern exactly once (facts: see listing_facts)"""
    ex.used_models.add("D-FS")
    path = args[0] if args else kwargs.get("path")
    files = kwargs.get("files")
    excl = kwargs.get("exclude_dirs")
    if not (isinstance(path, VT) and tm.is_const(path.t) and tm.cval(path.t) == "/"):
        raise Unsupported("filterdir on a path other than '/'")
    if not isinstance(excl, VList) or [tm.cval(x.t) for x in st.get(excl, "items") if isinstance(x, VT) and tm.is_const(x.t)] != ["*"]:
        raise Unsupported("filterdir without exclude_dirs=['*']")
    if not isinstance(files, VList):
        raise Unsupported("filterdir(files=%r)" % (files,))
    pats = []
    for x in st.get(files, "items"):
        if not (isinstance(x, VT) and tm.is_const(x.t)):
            raise Unsupported("filterdir with a symbolic pattern")
        pat = tm.cval(x.t)
        if not pat.startswith("*.") or any(c in pat[2:] for c in "*?[]./"):
            raise Unsupported("filterdir pattern %r is not of the form *.<ext>" % pat)
        pats.append(pat[2:])
    F = fs_listing(pats)
    st = st.assume(*listing_facts(F, pats))
    ex.models.elem_kind = "FsEntry"
    return [(st, "ok", VT(F, "list"))]


def listing_facts(F, exts):
    """D-FS about the listing F for the extensions exts"""
    i, j, nm_ = tm.V("i_", INT), tm.V("j_", INT), tm.V("nm_", STR)
    n = tm.seqlen(F)
    has_ext = lambda nm: tm.or_(*[tm.and_(tm.eq(tm.app("path_ext", STR, nm), tm.S("." + e)),
                                           tm.eq(nm, tm.concat(tm.app("path_stem", STR, nm), "." + e))) for e in exts])
    # what filterdir LISTS: pyfilesystem2 matches the patterns without regard to letter case on file systems it takes for
    # case-insensitive (fs 2.x takes every OS directory for one): the extension of a listed file is one of the requested
    # ones *up to case*.  What it is sure to list: every root-level file with exactly a requested extension.
    has_ext_ci = lambda nm: tm.or_(*[tm.and_(tm.eq(tm.lower(tm.app("path_ext", STR, nm)), tm.S("." + e)),
                                              tm.prefixof(".", tm.app("path_ext", STR, nm)), tm.eq(tm.slen(tm.app("path_ext", STR, nm)), len(e) + 1),
                                              tm.eq(nm, tm.concat(tm.app("path_stem", STR, nm), tm.app("path_ext", STR, nm)))) for e in exts])
    return [
        # each file once: entries are pairwise distinct files, i.e. have pairwise distinct names
        tm.forall([i, j], tm.implies(tm.and_(tm.le(0, i), tm.lt(i, j), tm.lt(j, n)),
                                     tm.ne(fname(tm.seqnth(F, i)), fname(tm.seqnth(F, j))))),
        # every entry is a root-level file whose name is <stem>.<ext> for a listed extension
        tm.forall_range(i, 0, n, tm.and_(has_ext_ci(fname(tm.seqnth(F, i))), tm.app("fs_isfile", BOOL, fname(tm.seqnth(F, i))),
                                         tm.not_(tm.contains(fname(tm.seqnth(F, i)), "/")))),
        # ... and every such file is listed (fs_index: where)
        tm.forall([nm_], tm.implies(tm.and_(tm.app("fs_isfile", BOOL, nm_), tm.not_(tm.contains(nm_, "/")), has_ext(nm_)),
                                    tm.and_(tm.le(0, tm.app("fs_index", INT, nm_)), tm.lt(tm.app("fs_index", INT, nm_), n),
                                            tm.eq(fname(tm.seqnth(F, tm.app("fs_index", INT, nm_))), nm_)))),
    ]


def _from_elem_fs(self, ex, st, t):
    if t.sort == INT and getattr(self, "elem_kind", None) == "FsEntry":
        o = VObj("FsEntry")
        st.set_inplace(o, "ident", VT(t))
        st.set_inplace(o, "name", VT(fname(t)))
        return o
    return _prev_fe_fs(self, ex, st, t)


_prev_fe_fs = MocloModels.from_elem
MocloModels.from_elem = _from_elem_fs

M.KIND_METHODS[("FSAbs", "filterdir")] = km_fs_filterdir
M.KIND_METHODS[("FSAbs", "isfile")] = km_fs_isfile
M.KIND_METHODS[("FSAbs", "open")] = km_fs_open
M.INSTANTIATE["Item"] = inst_item

_prev_external = MocloModels.external


def _external(self, base, attr):
    name = "%s.%s" % (base, attr) if base else attr
    table = {
        "Bio.SeqIO": VModule("Bio.SeqIO", attrs={"read": VModel("Bio.SeqIO.read", m_seqio_read)}),
        "fs.path.splitext": VModel("fs.path.splitext", m_splitext),
        "fs.wrap.read_only": VModel("fs.wrap.read_only", M.m_identity),
        "fs": VModule("fs"), "io": VModule("io"), "tarfile": VModule("tarfile"), "pkg_resources": VModule("pkg_resources"),
        "Bio": VModule("Bio", attrs={"SeqIO": VModule("Bio.SeqIO", attrs={"read": VModel("Bio.SeqIO.read", m_seqio_read)})}),
        "typing.NamedTuple": VModel("typing.NamedTuple", M.m_noop), "typing.Text": VOpaque("Text"),
        "typing.Union": VOpaque("Union"), "typing.Mapping": VOpaque("Mapping"),
    }
    if name in table:
        return table[name]
    return _prev_external(self, base, attr)


_prev_module = MocloModels.module


def _module(self, dotted):
    if dotted == "Bio":
        return _external(self, "", "Bio")
    if dotted in ("Bio.SeqIO",):
        return _external(self, "Bio", "SeqIO")
    return _prev_module(self, dotted)


MocloModels.external = _external
MocloModels.module = _module


_prev_init_object = MocloModels.init_object


def _init_object(self, ex, st, fr, obj, args, kwargs):
    if obj.kind == "Item":   # typing.NamedTuple subclass: the constructor stores its fields
        st = st.fork()
        names = ["id", "name", "entity", "resistance"]
        for k, v in list(zip(names, args)) + list(kwargs.items()):
            st.set_inplace(obj, k, v)
        # identity of the new item (what a mapping keyed by id stores) and the spec functions describing it
        ident = tm.fresh("item", INT)
        st.set_inplace(obj, "ident", VT(ident))
        facts = [tm.le(0, ident)]
        iid, res, ent = st.get(obj, "id"), st.get(obj, "resistance"), st.get(obj, "entity")
        if isinstance(iid, VT) and iid.t.sort == STR:
            facts.append(tm.eq(tm.app("item_id", STR, ident), iid.t))
        if isinstance(res, VT) and res.t.sort == STR:
            facts.append(tm.eq(tm.app("item_res", STR, ident), res.t))
        rec = st.get(ent, "record") if isinstance(ent, VObj) else None
        if isinstance(rec, VObj):
            rid = st.get(rec, "id")
            if isinstance(rid, VT) and rid.t.sort == STR:
                facts.append(tm.eq(tm.app("item_recid", STR, ident), rid.t))
            facts.append(tm.eq(tm.app("item_circ", BOOL, ident), tm.B(rec.kind == "CircularRecord")))
            facts.append(tm.eq(tm.app("item_wraps", BOOL, ident), tm.TRUE))
        st = st.assume(*facts)
        return [(st, "ok", obj)]
    return _prev_init_object(self, ex, st, fr, obj, args, kwargs)


MocloModels.init_object = _init_object


# ---------------------------------------------------------------------- characterize: candidate classes
_prev_from_elem3 = MocloModels.from_elem


def _from_elem3(self, ex, st, t):
    if t.sort == INT and getattr(self, "elem_kind", None) == "PartClass":
        return self.sym_class("AbstractPart", t)
    return _prev_from_elem3(self, ex, st, t)


MocloModels.from_elem = _from_elem3
_prev_as_elem3 = MocloModels.as_elem


def _as_elem3(self, ex, st, v, sort):
    if isinstance(v, VClass) and hasattr(v, "sym") and sort == INT:
        return v.sym
    return _prev_as_elem3(self, ex, st, v, sort)


MocloModels.as_elem = _as_elem3
_prev_class_cell2 = MocloModels.class_cell


def _class_cell2(self, ex, st, cls, attr):
    if hasattr(cls, "sym") and attr == "__subclasses__" and hasattr(cls, "subclasses"):
        subs = cls.subclasses
        return [(st, "ok", VModel("cls.__subclasses__", lambda ex_, s, fr, a, k: [(s, "ok", VT(subs, "list"))]))]
    return _prev_class_cell2(self, ex, st, cls, attr)


MocloModels.class_cell = _class_cell2
_prev_instantiate = MocloModels.instantiate


def _instantiate(self, ex, st, fr, cls, args, kwargs):
    if hasattr(cls, "sym"):
        # an instance of a symbolic part class wrapping the record; whether the class accepts it is accepts(cls, record)
        st = st.fork()
        e = VObj(cls.symbase)
        st.set_inplace(e, "__class__", cls)
        st.set_inplace(e, "record", args[0])
        st.set_inplace(e, "candidate", VT(cls.sym))
        return [(st, "ok", e)]
    return _prev_instantiate(self, ex, st, fr, cls, args, kwargs)


MocloModels.instantiate = _instantiate


# reflection used by moclo._utils.isabstract (assumed meaning of the three library functions; D-REFLECT)
def m_inspect_isabstract(ex, st, fr, args, kwargs):
    (c,) = args
    if not (isinstance(c, VClass) and hasattr(c, "sym")):
        raise Unsupported("inspect.isabstract(%r)" % (c,))
    ex.used_models.add("D-REFLECT")
    return [(st, "ok", VT(tm.app("abc_abstract", BOOL, c.sym)))]


def m_dir(ex, st, fr, args, kwargs):
    (c,) = args
    if not (isinstance(c, VClass) and hasattr(c, "sym")):
        raise Unsupported("dir(%r)" % (c,))
    ex.used_models.add("D-REFLECT")
    return [(st, "ok", VT(tm.app("cls_dir", tm.seq_sort(STR), c.sym), "list"))]


def m_getattr3(ex, st, fr, args, kwargs):
    from .values import VNotImplemented
    if len(args) in (2, 3) and isinstance(args[1], VT) and tm.is_const(args[1].t) and args[1].t.sort == STR and not (
            isinstance(args[0], VClass) and hasattr(args[0], "sym")):
        name = tm.cval(args[1].t)
        obj = args[0]
        if isinstance(obj, (VNotImplemented, VNone)):
            # the NotImplemented / None singletons have the attributes of `object` only
            if hasattr(NotImplemented if isinstance(obj, VNotImplemented) else None, name):
                raise Unsupported("getattr(%s, %r)" % (type(obj).__name__, name))
            if len(args) == 3:
                return [(st, "ok", args[2])]
            return ex.raise_(st, "AttributeError", VT(tm.S("object has no attribute '%s'" % name)))
        if isinstance(obj, VClass) and name == "__name__":
            return ex.getattr(obj, name, st, fr)
        if isinstance(obj, VObj) and st.get(obj, name) is not None:
            return [(st, "ok", st.get(obj, name))]
        raise Unsupported("getattr(%r, %r%s)" % (obj, name, ", default" if len(args) == 3 else ""))
    if len(args) != 3 or not (isinstance(args[0], VClass) and hasattr(args[0], "sym")) or not (
            isinstance(args[1], VT) and args[1].t.sort == STR) or not isinstance(args[2], VNone):
        raise Unsupported("getattr%r" % (tuple(args),))
    ex.used_models.add("D-REFLECT")
    o = VObj("ClassAttrValue")
    return [(st.set(o, "is_notimpl", VT(tm.app("attr_is_notimplemented", BOOL, args[0].sym, args[1].t))), "ok", o)]


M.ASSUMPTIONS["D-REFLECT"] = ("inspect.isabstract(cls), dir(cls) and getattr(cls, name, None) are functions of the class: abc_abstract(cls), "
                              "the sequence cls_dir(cls) of attribute names, and whether the value found is the NotImplemented singleton")

_prev_builtin3 = MocloModels.builtin


def _builtin3(self, name):
    if name == "dir":
        return VModel("dir", m_dir)
    if name == "getattr":
        return VModel("getattr", m_getattr3)
    return _prev_builtin3(self, name)


MocloModels.builtin = _builtin3

_prev_external_r = MocloModels.external


def _external_r(self, base, attr):
    name = "%s.%s" % (base, attr) if base else attr
    if name == "inspect.isabstract":
        return VModel("inspect.isabstract", m_inspect_isabstract)
    return _prev_external_r(self, base, attr)


MocloModels.external = _external_r

_prev_identical_r = MocloModels.identical


def _identical_r(self, ex, st, a, b):
    from .values import VNotImplemented
    for x, y in ((a, b), (b, a)):
        if isinstance(x, VObj) and x.kind == "ClassAttrValue" and isinstance(y, VNotImplemented):
            return st.get(x, "is_notimpl").t
    return _prev_identical_r(self, ex, st, a, b)


MocloModels.identical = _identical_r


def m_isabstract(ex, st, fr, args, kwargs):
    """moclo._utils.isabstract(cls) (inspect.isabstract or a NotImplemented attribute): a constant of the class"""
    (c,) = args
    if isinstance(c, VClass) and hasattr(c, "is_abstract"):
        return [(st, "ok", VT(c.is_abstract))]
    if isinstance(c, VClass) and hasattr(c, "sym"):
        return [(st, "ok", VT(tm.app("isabstract", BOOL, c.sym)))]
    raise Unsupported("isabstract(%r)" % (c,))


# ---------------------------------------------------------------------- citations (pointwise): wiring
from . import models_cit as MC   # noqa: E402


def _int_of(self, ex, st, fr, v):
    if isinstance(v, VT) and v.t.sort == STR:
        n = T("str.to_int", (v.t,), INT)
        return ex.raise_(st.assume(tm.lt(n, 0)), "ValueError") + [(st.assume(tm.le(0, n)), "ok", VT(n))]
    return None


def _list_of(self, ex, st, fr, v):
    if isinstance(v, VObj) and v.kind == "CitList":
        st2, o = MC.citlist_copy(st, v)
        return [(st2, "ok", o)]
    return None


def _slice_assign(self, ex, st, target, value):
    return MC.citlist_assign_all(ex, st, target, value)


MocloModels.int_of = _int_of
MocloModels.list_of = _list_of
MocloModels.slice_assign = _slice_assign
_prev_from_elem4 = MocloModels.from_elem


def _from_elem4(self, ex, st, t):
    if t.sort == INT and getattr(self, "elem_kind", None) == "Reference":
        return MC.mk_reference(st, t)
    return _prev_from_elem4(self, ex, st, t)


MocloModels.from_elem = _from_elem4
_prev_custom_iter = MocloModels.custom_iter


def _custom_iter2(self, ex, st, fr, node, it, ordinal):
    """`for i, ref in enumerate(citation_list)`: pointwise over the generic entry; the body may store into position i"""
    if isinstance(it, VObj) and it.kind == "enumerate" and isinstance(st.get(it, "inner"), VObj) and st.get(st.get(it, "inner"), "rep") is not None \
            and st.get(it, "inner").kind == "CitList":
        cl = st.get(it, "inner")
        k = tm.fresh("ci", INT)
        rng_terms = (tm.le(0, k), tm.lt(k, st.get(cl, "length").t))
        s0 = st.assume(*rng_terms).fork()
        s0.ghost["cit_loop"] = (cl.oid, k)
        res, normal = [], []
        for (s1, _, _) in ex.assign(node.target, VTuple([VT(k), st.get(cl, "rep")]), s0, fr):
            for (s2, tag, v) in ex.block(node.body, s1, fr):
                if tag in ("ret", "raise"):
                    res.append((s2, tag, v))
                elif tag == "break":
                    raise Unsupported("break in a pointwise loop")
                else:
                    normal.append(s2)
        if not normal:
            # every element leaves through an exit: the loop completes only when the list is empty
            res.append((st.assume(tm.eq(st.get(cl, "length").t, 0)), "ok", None))
            return res
        if len(normal) > 1 and any(n_.heap != normal[0].heap for n_ in normal[1:]):
            raise Unsupported("pointwise citation loop with several normal paths and different effects")
        # the final state of the single normal path is the state after the loop: what it says about `rep` holds for every
        # entry that exists (the index range of the generic entry is dropped: the list may be empty, and then `rep`
        # describes nothing)
        s2 = normal[0].fork()
        s2.env = dict(st.env)
        s2.ghost.pop("cit_loop", None)
        s2.pc = tuple(c for c in s2.pc if c not in rng_terms)
        res.append((s2, "ok", None))
        return res
    return _prev_custom_iter(self, ex, st, fr, node, it, ordinal)


MocloModels.custom_iter = _custom_iter2


_prev_from_elem5 = MocloModels.from_elem


def _from_elem5(self, ex, st, t):
    if t.sort == INT and getattr(self, "elem_kind", None) == "CitFeature":
        return MC.mk_citfeature(st, t)
    return _prev_from_elem5(self, ex, st, t)


MocloModels.from_elem = _from_elem5
_prev_custom_iter3 = MocloModels.custom_iter


def _custom_iter3(self, ex, st, fr, node, it, ordinal):
    """`for i, ref in enumerate(<indexed citation list>)`: an index loop with a sidecar invariant; the entry at position i
    (not yet rewritten) is the Reference cite(f, i)"""
    inner = st.get(it, "inner") if isinstance(it, VObj) and it.kind == "enumerate" else None
    if isinstance(inner, VObj) and inner.kind == "CitListIdx":
        spec = ex.loopspecs.get(ordinal) if ordinal is not None else None
        if spec is None:
            raise Unsupported("indexed citation loop without invariant")
        fid = st.get(inner, "ident").t

        def elem(ex_, s, k):
            s_ = s
            return VTuple([VT(k), MC.mk_reference(s_, MC.cite(fid, k))])

        index = dict(var=node.target, lo=tm.I(0), hi=tm.imax(MC.ncit(fid), 0), elem=elem)
        return ex.invariant_loop(node, st, fr, spec, ordinal, index=index)
    return _prev_custom_iter3(self, ex, st, fr, node, it, ordinal)


MocloModels.custom_iter = _custom_iter3


# ---------------------------------------------------------------------- embedded archives (D-TAR)
# An embedded registry reads a tar archive shipped as package data.  The archive named by a resource is a constant
# of the installed package: T = tar_listing(file), a sequence of members (integers); member e has a name tar_name(e)
# and holds one GenBank record whose id is tar_recid(e) (name tar_recname(e)).
M.ASSUMPTIONS["D-TAR"] = (
    "pkg_resources.resource_stream(module, file) opens the package data file `file` (the same bytes at every call); "
    "tarfile.open(fileobj=stream, mode 'r:gz' or transparent) reads the same member sequence T(file); "
    "iter(tar.next, None) yields the members of T in order and stops after the last one (a member is never None); "
    "tar.getmembers() is a list of the same members; member.name is the member's name; extractfile(member) + "
    "io.TextIOWrapper give the text of a regular member; Bio.SeqIO.read(text, 'gb') returns the one record stored in it "
    "(a new object at every call, equal fields) or raises ValueError; context managers only close what they opened")
TARSEQ = tm.seq_sort(INT)
MocloModels.TRANSPARENT_CTX = ("TarAbs",)


def tar_listing(file_t):
    return tm.app("tar_listing", TARSEQ, file_t)


def tar_name(e):
    return tm.app("tar_name", STR, e)


def tar_recid(e):
    return tm.app("tar_recid", STR, e)


def m_resource_stream(ex, st, fr, args, kwargs):
    ex.used_models.add("D-TAR")
    if len(args) != 2 or not (isinstance(args[1], VT) and args[1].t.sort == STR):
        raise Unsupported("resource_stream%r" % (args,))
    o = VObj("ctx:transparent")
    return [(st.set(o, "resource", args[1]), "ok", o)]


def m_tarfile_open(ex, st, fr, args, kwargs):
    ex.used_models.add("D-TAR")
    rs = kwargs.get("fileobj")
    mode = kwargs.get("mode")
    if args or not isinstance(rs, VObj) or st.get(rs, "resource") is None or set(kwargs) - {"fileobj", "mode"}:
        raise Unsupported("tarfile.open(%r, %r)" % (args, sorted(kwargs)))
    if mode is not None and not (isinstance(mode, VT) and tm.is_const(mode.t) and tm.cval(mode.t) in ("r", "r:*", "r:gz")):
        raise Unsupported("tarfile.open(mode=%r)" % (mode,))
    o = VObj("TarAbs")
    return [(st.set(o, "resource", st.get(rs, "resource")), "ok", o)]


def _tar_members(ex, st, self):
    ex.used_models.add("D-TAR")
    ex.models.elem_kind = "TarEntry"
    return VT(tar_listing(st.get(self, "resource").t), "list")


def km_tar_next(ex, st, fr, self, args, kwargs):
    raise Unsupported("tar.next() called directly (only iter(tar.next, None) is modelled)")


def km_tar_getmembers(ex, st, fr, self, args, kwargs):
    return [(st, "ok", _tar_members(ex, st, self))]


def km_tar_extractfile(ex, st, fr, self, args, kwargs):
    ex.used_models.add("D-TAR")
    (entry,) = args
    if not (isinstance(entry, VObj) and entry.kind == "TarEntry"):
        raise Unsupported("extractfile(%r)" % (entry,))
    o = VObj("ctx:transparent")
    return [(st.set(o, "member", st.get(entry, "ident")), "ok", o)]


def m_textiowrapper(ex, st, fr, args, kwargs):
    if len(args) != 1 or kwargs or not isinstance(args[0], VObj) or st.get(args[0], "member") is None:
        raise Unsupported("io.TextIOWrapper%r" % (args,))
    return [(st, "ok", args[0])]


M.KIND_METHODS[("TarAbs", "next")] = km_tar_next
M.KIND_METHODS[("TarAbs", "getmembers")] = km_tar_getmembers
M.KIND_METHODS[("TarAbs", "extractfile")] = km_tar_extractfile

_prev_m_iter = M.m_iter


def m_iter2(ex, st, fr, args, kwargs):
    if len(args) == 2 and isinstance(args[0], VModel) and args[0].name == "TarAbs.next" and isinstance(args[1], VNone):
        return [(st, "ok", _tar_members(ex, st, args[0].self_val))]
    return _prev_m_iter(ex, st, fr, args, kwargs)


def m_hash(ex, st, fr, args, kwargs):
    """hash of a (class, str) tuple: a function of the class and of the text (D-HASH)"""
    (v,) = args
    if isinstance(v, VTuple) and len(v.items) == 2 and isinstance(v.items[0], VClass) and isinstance(v.items[1], VT) and v.items[1].t.sort == STR:
        ex.used_models.add("D-HASH")
        return [(st, "ok", VT(tm.app("py_hash:" + v.items[0].name, INT, v.items[1].t)))]
    raise Unsupported("hash(%r)" % (v,))


M.ASSUMPTIONS["D-HASH"] = "hash((C, s)) for a class C and a str s is a function of C and of the text of s"
_prev_builtin_tar = MocloModels.builtin


def _builtin_tar(self, name):
    if name == "iter":
        return VModel("iter", m_iter2)
    if name == "hash":
        return VModel("hash", m_hash)
    return _prev_builtin_tar(self, name)


MocloModels.builtin = _builtin_tar

_prev_seqio_read = m_seqio_read


def m_seqio_read2(ex, st, fr, args, kwargs):
    handle = args[0]
    if isinstance(handle, VObj) and st.get(handle, "member") is not None:
        ex.used_models.add("D-TAR")
        fmt = args[1] if len(args) > 1 else None
        if not (isinstance(fmt, VT) and tm.is_const(fmt.t) and tm.cval(fmt.t) in ("gb", "genbank")):
            raise Unsupported("SeqIO.read format %r" % (fmt,))
        e = st.get(handle, "member").t
        st = st.fork()
        rec = ex.models.sym_record(st, "SeqRecord", "member%d" % next(tm._fresh), ann_keys=("topology",))
        st.set_inplace(rec, "id", VT(tar_recid(e)))
        st.set_inplace(rec, "name", VT(tm.app("tar_recname", STR, e)))
        st.set_inplace(rec, "member", VT(e))
        bad = tm.app("tar_unparsable", BOOL, e)
        return ex.raise_(st.assume(bad), "ValueError") + [(st.assume(tm.not_(bad)), "ok", rec)]
    return _prev_seqio_read(ex, st, fr, args, kwargs)


_prev_from_elem_tar = MocloModels.from_elem


def _from_elem_tar(self, ex, st, t):
    if t.sort == INT and getattr(self, "elem_kind", None) == "TarEntry":
        o = VObj("TarEntry")
        st.set_inplace(o, "ident", VT(t))
        st.set_inplace(o, "name", VT(tar_name(t)))
        return o
    return _prev_from_elem_tar(self, ex, st, t)


MocloModels.from_elem = _from_elem_tar
_prev_external_tar = MocloModels.external


def _external_tar(self, base, attr):
    name = "%s.%s" % (base, attr) if base else attr
    table = {
        "pkg_resources.resource_stream": VModel("pkg_resources.resource_stream", m_resource_stream),
        "tarfile.open": VModel("tarfile.open", m_tarfile_open),
        "io.TextIOWrapper": VModel("io.TextIOWrapper", m_textiowrapper),
        "Bio.SeqIO.read": VModel("Bio.SeqIO.read", m_seqio_read2),
    }
    if name in table:
        return table[name]
    r = _prev_external_tar(self, base, attr)
    if isinstance(r, VModule) and r.name == "Bio.SeqIO":
        r.attrs["read"] = table["Bio.SeqIO.read"]
    if isinstance(r, VModule) and r.name == "Bio" and "SeqIO" in r.attrs:
        r.attrs["SeqIO"].attrs["read"] = table["Bio.SeqIO.read"]
    return r


MocloModels.external = _external_tar


# dict with symbolic str keys: item store (the array model of the dict; values by identity)
def _store_item(self, ex, st, fr, o, k, v):
    if isinstance(o, VDict) and isinstance(k, VT) and k.t.sort == STR and (st.get(o, "arr") is not None or not st.get(o, "items")):
        ex.used_models.add("D-DICT")
        arr = map_arr(st, o)
        vt = ex.models.as_elem(ex, st, v, INT)
        return [(st.set(o, "arr", VT(tm.store(arr, k.t, vt))), "ok", None)]
    return None


MocloModels.store_item = _store_item


# comprehension over a symbolic sequence: pointwise map (the element expression must be pure, total and a string)
_prev_comprehension = MocloModels.comprehension


def _comprehension_sym(self, ex, st, fr, node, gen, it, what):
    if isinstance(it, VT) and it.t.sort == TARSEQ and what in ("gen", "list") and getattr(self, "elem_kind", None) == "TarEntry":
        j = tm.V("j_map", INT)
        s0 = st.assume(tm.le(0, j), tm.lt(j, tm.seqlen(it.t))).fork()
        elem = self.from_elem(ex, s0, tm.seqnth(it.t, j))
        outs = [(s2, t2, v2) for (s1, _, _) in ex.assign(gen.target, elem, s0, fr) for (s2, t2, v2) in ex.eval(node.elt, s1, fr)]
        if len(outs) != 1 or outs[0][1] != "ok" or not (isinstance(outs[0][2], VT) and outs[0][2].t.sort == STR):
            raise Unsupported("map over a symbolic sequence with an element expression that is not a total string expression")
        R = tm.fresh("mapped", tm.seq_sort(STR))
        st2 = st.assume(tm.eq(tm.seqlen(R), tm.seqlen(it.t)),
                        tm.forall_range(j, 0, tm.seqlen(it.t), tm.eq(tm.seqnth(R, j), outs[0][2].t)))
        st2.ghost["map_source"] = (R, it.t)
        return [(st2, "ok", VT(R, "list"))]
    return _prev_comprehension(self, ex, st, fr, node, gen, it, what)


MocloModels.comprehension = _comprehension_sym


m_seqio_read = m_seqio_read2      # the tables built by _external look the name up when they are built


_prev_class_cell_ovr = MocloModels.class_cell


def _class_cell_ovr(self, ex, st, cls, attr):
    if attr in getattr(cls, "attrs_override", {}):      # a class attribute fixed by the contract under verification
        return [(st, "ok", cls.attrs_override[attr])]
    return _prev_class_cell_ovr(self, ex, st, cls, attr)


MocloModels.class_cell = _class_cell_ovr


def m_open_fs(ex, st, fr, args, kwargs):
    """D-FS: fs.open_fs(url) opens the directory named by the url"""
    ex.used_models.add("D-FS")
    o = VObj("FSAbs")
    return [(st.set(o, "url", args[0]), "ok", o)]


_prev_external_fs = MocloModels.external


def _external_fs(self, base, attr):
    if (base, attr) == ("fs", "open_fs"):
        return VModel("fs.open_fs", m_open_fs)
    return _prev_external_fs(self, base, attr)


MocloModels.external = _external_fs
