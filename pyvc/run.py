# coding: utf-8
"""Property runner: obligations -> portfolio -> replay -> bounded stand-in -> evidence, exit code.

Exit codes (DESIGN 2.8): 0 held / 1 violation / 2 undecided / 3 checker failure.
"""
from __future__ import annotations

import importlib
import json
import os
import re
import shutil
import sys
import tempfile
import time
import traceback

from . import term as tm
from .repo import Repo
from .models_moclo import MocloModels
from .models import ASSUMPTIONS
from .symex import Executor
from .contract import verify_function
from .solve import Obligation, solve, solve_all

VERIF = os.path.dirname(os.path.dirname(os.path.abspath(__file__)))


def all_contracts():
    cons = {}
    for modname in ("regex_c", "record_c", "structured_c", "entities_c", "assembly_c", "parts_c", "registry_c", "errors_c"):
        try:
            mod = importlib.import_module("contracts." + modname)
        except ImportError as e:
            if "contracts." + modname in str(e) or modname in str(e):
                continue
            raise
        for c in mod.CONTRACTS:
            cons[(c.file, c.qual)] = c
    return cons


class Ctx(object):
    def __init__(self, prop, tier, seed, repo_root):
        self.prop = prop
        self.tier = tier
        self.seed = seed
        self.repo_root = repo_root
        self.repo = Repo(repo_root)
        self.contracts = all_contracts()
        self.test_outcomes = {}
        self.timeout = 60 if tier == "quick" else 240
        self.outdir = os.path.join(VERIF, "out", prop if repo_root == "/repo" else "%s-scratch-%s" % (
            prop, re.sub(r"[^A-Za-z0-9]+", "", os.path.basename(os.path.normpath(repo_root)))[-12:]))
        shutil.rmtree(self.outdir, ignore_errors=True)   # replay files of earlier runs are not this run's
        os.makedirs(self.outdir, exist_ok=True)
        self.workdir = tempfile.mkdtemp(prefix="pyvc-%s-" % prop)
        self.fun_info = []
        self.used_models = set()
        self.used_contracts = set()
        self.inlined = set()

    def executor(self):
        return Executor(self.repo, MocloModels(), self.contracts)

    def verify(self, keys, closure=True):
        """A-obligations for the listed (file, qual) functions under contract -- and, transitively, for every in-repo
        function whose contract was used at one of their call sites (verification is modular: a caller is checked against
        the callee's contract, so the callee's own body must be checked in the same run for the property to be decided
        by it; `trusted_body` contracts -- abstract hooks -- are reported as assumed)"""
        obs = []
        todo = list(keys)
        done = set()
        while todo:
            key = todo.pop(0)
            if key in done:
                continue
            done.add(key)
            con = self.contracts.get(key)
            if con is None:
                self.fun_info.append(dict(function="%s::%s" % key, unreached="no contract"))
                continue
            ex = self.executor()
            o, info = verify_function(ex, con, prop=self.prop)
            if key not in keys:
                info["dependency"] = True
                for ob in o:
                    ob.meta["dependency_of_listed_functions"] = True
            obs.extend(o)
            info.pop("_why", None)
            if "skipped_clauses" in info:
                info["skipped_clauses"] = sorted(info["skipped_clauses"])
            self.fun_info.append(info)
            self.used_models |= ex.used_models
            self.used_contracts |= ex.used_contracts
            self.inlined |= ex.inlined
            for k_, v_ in ex.test_outcomes.items():
                self.test_outcomes.setdefault(k_, set()).update(v_)
            if closure:
                for name in sorted(ex.used_contracts):
                    rel, qual = name.split("::", 1)
                    if (rel, qual) not in done and (rel, qual) in self.contracts:
                        todo.append((rel, qual))
        self._override_census(done)
        return obs

    def _override_census(self, verified):
        """a method under contract that a subclass re-defines without a contract of its own: calls on instances of that
        subclass run the override, which nothing here has looked at -> reported as unreached (the bounded part decides)"""
        try:
            ex = self.executor()
            by_method = {}
            for (rel, qual) in verified:
                if "." in qual:
                    c_, m_ = qual.split(".", 1)
                    by_method.setdefault(m_, set()).add(c_)
            have = {q.split(".", 1)[0] + "." + q.split(".", 1)[1] for (_, q) in self.contracts if "." in q}
            seen = getattr(self, "_override_seen", set())
            skip = ("__init__", "__new__", "structure")     # (structure() literals of the kits: kind-C obligations on every concrete class)
            for mi in self.repo.modules.values():
                for cname, ci in mi.classes.items():
                    mro = [c for c in ex.kind_mro(cname) if hasattr(c, "methods")]
                    names = [c.name for c in mro]
                    for m_, owners in by_method.items():
                        if m_ in skip or not any(o in names for o in owners):
                            continue
                        # the definition python picks for instances of this class: the first one along its MRO
                        first = next((c for c in mro if m_ in c.methods), None)
                        if first is None or first.name in owners or "%s.%s" % (first.name, m_) in have:
                            continue
                        key = (first.name, m_)
                        if key not in seen:
                            seen.add(key)
                            self.fun_info.append(dict(function="%s::%s.%s" % (first.module.relpath, first.name, m_),
                                                      unreached="is what instances of %s run instead of %s.%s, which is under contract, and has no contract of its own" % (
                                                          cname, sorted(o for o in owners if o in names)[0], m_)))
            self._override_seen = seen
        except Exception:
            pass

    def part(self, fn, label=None):
        """one group of property-level obligations (lemmas, literal tables, census ...): a crash of its generator on a
        changed tree is not a verdict about the code and must not take the other groups down with it -> DEGRADED"""
        try:
            return list(fn(self))
        except Exception:
            self.fun_info.append(dict(function="%s::%s" % (self.prop, label or getattr(fn, "__name__", "obligations")),
                                      unreached="generator of this group of obligations failed on this tree: " +
                                      traceback.format_exc(limit=-3).strip().replace("\n", " | ")[-600:], crash=True))
            return []

    def cleanup(self):
        shutil.rmtree(self.workdir, ignore_errors=True)


def load_known():
    path = os.path.join(VERIF, "known_findings.json")
    if not os.path.exists(path):
        return dict(findings=[], fixed=[])
    return json.load(open(path))


def finding_matches(f, prop, what):
    return f.get("property") == prop and re.search(f.get("match", "$^"), what) is not None


def write_replay(ctx, name, payload):
    safe = re.sub(r"[^A-Za-z0-9_.-]+", "_", name)[:150]
    path = os.path.join(ctx.outdir, "replay_%s.json" % safe)
    with open(path, "w") as f:
        json.dump(payload, f, indent=1, default=repr)
    return path


def run_property(prop, tier="quick", seed=0, repo_root=None, only=None):
    t0 = time.time()
    repo_root = repo_root or os.environ.get("VERIF_REPO", "/repo")
    pm = importlib.import_module("props." + prop)
    ctx = Ctx(prop, tier, seed, repo_root)
    lines = []
    status = dict(violations=[], known=[], undecided=[], errors=[], degraded=[])
    obs = []
    bounded = None
    try:
        try:
            obs = pm.obligations(ctx)
        except Exception:
            status["errors"].append("obligation generator crashed: " + traceback.format_exc(limit=-6))
            obs = []
        if only:
            obs = [o for o in obs if re.search(only, o.name)]
        for o in obs:
            o.prop = prop
        solve_all(obs, timeout_s=ctx.timeout, workdir=ctx.workdir, jobs=int(os.environ.get("PYVC_JOBS", "12")),
                  wait_all=(tier == "thorough"))
        known = load_known()
        # lemma dependencies: a result that used a lemma counts only if that lemma is discharged in this run
        by_name = {o.name: o for o in obs}
        for o in obs:
            for dep in o.meta.get("uses", []):
                d = by_name.get(dep)
                if (d is None or d.result["status"] != "unsat") and o.result["status"] == "unsat":
                    o.result["status"] = "unknown"
                    o.result["ok"] = False
                    o.result["verdicts"]["_dependency"] = "lemma %s not discharged" % dep
        n_valid = n_dis = 0
        per_backend = {}
        solver_time = 0.0
        for o in obs:
            r = o.result
            solver_time += r["time"]
            for b in (r.get("by") or []):
                per_backend[b] = per_backend.get(b, 0) + 1
            if o.expect == "valid":
                n_valid += 1
                if r["status"] == "unsat":
                    n_dis += 1
                elif r["status"] == "sat":
                    handle_refuted(ctx, pm, o, known, status)
                elif r["status"] == "sat-relaxed":
                    # candidate counter-model of a weakened query: a violation only if it replays
                    if not handle_refuted(ctx, pm, o, known, status, candidate=True):
                        status["undecided"].append(o.name)
                elif r["status"] == "conflict":
                    status["errors"].append("solver disagreement on %s: %s" % (o.name, r["verdicts"]))
                else:
                    status["undecided"].append(o.name)
            else:
                n_valid += 1
                if r["status"] == "sat":
                    n_dis += 1
                elif r["status"] == "unsat":
                    status["errors"].append("vacuity: cover %s is unsatisfiable" % o.name)
                else:
                    status["undecided"].append(o.name)
        for i in ctx.fun_info:
            for c_ in sorted(i.get("skipped_clauses", ())):
                status["degraded"].append("clause not decided on this tree (its subject is not shown in the form the clause speaks of): %s::%s" % (i["function"].split("::")[0], c_))
        unreached = [i for i in ctx.fun_info if i.get("unreached")]
        for i in unreached:
            # a function that left the modelled subset (or that the generator cannot digest) is *unreached*: the
            # bounded stand-in decides; never an alarm, never a silent pass (a DEGRADED line is printed)
            status["degraded"].append("%s unreached%s: %s" % (i["function"], " (generator error)" if i.get("crash") else "",
                                                             i["unreached"]))
        # `if` tests that came out as one and the same constant on every explored path although they did not on the unchanged
        # tree (const_tests_baseline.json): the executor may have lost a branch (a gap of a model, not a fact about the code)
        one_sided = sorted("%s: %s is always %s" % (f_, t_, "true" if o_ == {"T"} else "false")
                           for (f_, t_), o_ in ctx.test_outcomes.items() if o_ in ({"T"}, {"F"}))
        try:
            base_ct = json.load(open(os.path.join(VERIF, "const_tests_baseline.json"))).get(prop, [])
        except Exception:
            base_ct = None
        ctx.one_sided = one_sided
        if base_ct is not None and not only:
            for x_ in one_sided:
                if x_ not in base_ct:
                    status["degraded"].append("branch test constant on every explored path (not so on the unchanged tree): %s" % x_)
        if not obs and not only:
            status["errors"].append("zero obligations generated")
        # bounded stand-in
        if hasattr(pm, "bounded") and not only:
            try:
                bounded = pm.bounded(ctx)
                if tier == "thorough":
                    # thorough: the randomised part of the stand-in is repeated with further seeds (same enumerations, other
                    # random plasmids, rotations, spellings); counts are summed, violations merged
                    base_seed = ctx.seed
                    for extra in (1, 2):
                        ctx.seed = base_seed + 1000 * extra
                        more = pm.bounded(ctx)
                        for k_ in ("evaluations", "distinct_nontrivial", "n_violations"):
                            if isinstance(bounded.get(k_), int) and isinstance(more.get(k_), int):
                                bounded[k_] += more[k_]
                        bounded["violations"] = list(bounded.get("violations", [])) + list(more.get("violations", []))
                    ctx.seed = base_seed
                    bounded["seeds"] = [base_seed, base_seed + 1000, base_seed + 2000]
                for v in bounded.get("violations", [])[:5]:
                    what = v["what"]
                    kf = [f for f in known.get("findings", []) if finding_matches(f, prop, what)]
                    if kf:
                        status["known"].append((kf[0], what))
                    else:
                        path = write_replay(ctx, "bounded_" + v.get("name", "case"), dict(
                            property=prop, source="bounded stand-in", what=what, case=v.get("case"),
                            expected=v.get("expected"), observed=v.get("observed"), replay=v.get("replay")))
                        status["violations"].append((what, path, True))
            except Exception as e_b:
                # where was the exception raised?  Inside the library under test (a call of the scenario failed where the
                # unchanged tree does not fail: a finding, with the traceback as the replay) or in the stand-in itself
                # (it reaches into something a refactoring renamed: it cannot run on this tree -> undecided, exit 2)
                tb = traceback.extract_tb(e_b.__traceback__)
                inner = tb[-1].filename if tb else ""
                root = os.path.realpath(ctx.repo_root)
                if os.path.realpath(inner).startswith(root + os.sep):
                    what = "the bounded stand-in's scenario made the library raise %r at %s:%d (%s)" % (
                        e_b, os.path.relpath(inner, root), tb[-1].lineno, tb[-1].name)
                    path = write_replay(ctx, "bounded_library_raised", dict(property=prop, source="bounded stand-in", what=what,
                                                                            traceback=traceback.format_exc(limit=-8)))
                    status["violations"].append((what, path, True))
                    bounded = dict(evaluations=1, distinct_nontrivial=0, rule="aborted by an exception of the library", violations=[])
                else:
                    status["degraded"].append("bounded stand-in could not run on this tree: " + traceback.format_exc(limit=-4).replace("\n", " | "))
                    bounded = None
        # CPython cross-check of the executor's encoding (soundness guard of the generator itself)
        cross = None
        if getattr(pm, "CROSSCHECK", False) and not only:
            try:
                from . import crosscheck
                n_cc, pb_cc = crosscheck.run(ctx)
                cross = dict(inputs=n_cc, disagreements=len(pb_cc), samples=pb_cc[:3])
                if pb_cc:
                    status["errors"].append("executor disagrees with CPython on %d of %d concrete inputs, e.g. %r" % (len(pb_cc), n_cc, pb_cc[0]))
            except Exception as e_:
                cross = dict(skipped="not applicable to this tree: %r" % (e_,))
        for name in status["undecided"]:
            status["degraded"].append("obligation undecided: " + name)
        # ------------------------------------------------------------------ report
        for (f, what) in status["known"]:
            lines.append("KNOWN-FINDING: property=%s %s" % (prop, f.get("what", what)))
        seen = set()
        seen_clause = set()
        for (what, path, with_input) in status["violations"]:
            if path in seen:
                continue
            # one line per (function, clause): variants and paths of the same clause are one violation
            m_ = re.match(r"(\S+?)::(\S+?)\[[^\]]*\]::(?:\S+?::)?([a-z-]+:[^#\s]+)", what)
            key_ = m_.groups() if m_ else what
            if key_ in seen_clause:
                continue
            seen_clause.add(key_)
            seen.add(path)
            lines.append("VIOLATION property=%s replay=%s%s" % (prop, path, "" if with_input else " no-failing-input-found"))
        for d in status["degraded"]:
            lines.append("DEGRADED property=%s %s" % (prop, d))
        for e in status["errors"]:
            lines.append("CHECKER-ERROR property=%s %s" % (prop, e.replace("\n", " | ")))
        if status["violations"]:
            code = 1
        elif status["errors"]:
            code = 3
        elif status["degraded"] and (bounded is None or not bounded.get("evaluations")):
            code = 2
        else:
            code = 0
        level = getattr(pm, "LEVEL", "proof")
        if status["degraded"] and level == "proof":
            level = "other"
        samples = []
        for o in obs[:3] + [o for o in obs if o.kind == "B"][:3]:
            samples.append(dict(obligation=o.name, kind=o.kind, text=o.text, status=o.result["status"],
                                by=o.result.get("by"), goal=repr(o.goal)[:400]))
        cov = dict(
            obligations=n_valid, discharged=n_dis,
            checker_cmd="./check %s --tier %s" % (prop, tier),
            trusted_base=sorted(set(getattr(pm, "TRUSTED", [])) | {
                "pyvc executor encoding of the Python subset (DESIGN 2.2)", "cvc5 1.0.3", "z3 5.1.0",
                "map-loop rule and loop-invariant rule (induction over iterations)"}),
            by_backend=per_backend, solver_time_s=round(solver_time, 2),
            decided_by_two_backends=sum(1 for o in obs if len(o.result.get("by") or []) >= 2),
            functions_under_contract=[i["function"] for i in ctx.fun_info if not i.get("unreached")],
            paths={i["function"]: i.get("paths") for i in ctx.fun_info},
            unreached=[dict(function=i["function"], reason=i["unreached"]) for i in unreached],
            contracts_used_at_call_sites=sorted(ctx.used_contracts),
            inlined=sorted(ctx.inlined),
            kinds={k: sum(1 for o in obs if o.kind == k) for k in "ABCFV"},
            undecided=status["undecided"],
            samples=samples,
            explanation=getattr(pm, "EXPLANATION", ""),
            source_sha={rel: mi.sha for rel, mi in ctx.repo.modules.items() if rel in getattr(pm, "FILES", [])},
        )
        if cross is not None:
            cov["executor_vs_cpython"] = cross
        if bounded is not None:
            cov["bounded"] = {k: v for k, v in bounded.items() if k != "violations"}
            cov["evaluations"] = bounded.get("evaluations", 0)
            cov["distinct_nontrivial"] = bounded.get("distinct_nontrivial", 0)
            cov["rule"] = bounded.get("rule", "")
            if bounded.get("exhaustive"):
                cov["exhaustive_part"] = bounded.get("exhaustive")
        assumptions = [ASSUMPTIONS[k] if k in ASSUMPTIONS else k for k in sorted(
            {m for m in ctx.used_models if m in ASSUMPTIONS} | set(getattr(pm, "ASSUMES", [])))]
        assumptions = ["%s" % a for a in assumptions]
        assumptions.append("integers are mathematical (exact for Python); str/Seq are SMT strings; "
                           "evaluation order and exception propagation per the language reference")
        ev = dict(property_id=prop, tier=tier, seed=seed, level=level, coverage=cov, assumptions=assumptions,
                  wall_s=round(time.time() - t0, 2), violations=len(seen),
                  known_findings=[f.get("what") for (f, _) in status["known"]],
                  exit_code=code)
        if not os.environ.get("VERIF_NO_EVIDENCE") and not only:
            os.makedirs(os.path.join(VERIF, "evidence"), exist_ok=True)
            with open(os.path.join(VERIF, "evidence", prop + ".json"), "w") as f:
                json.dump(ev, f, indent=1, default=repr)
        print("\n".join(lines))
        print("%s tier=%s obligations=%d discharged=%d undecided=%d violations=%d known=%d wall=%.1fs exit=%d" % (
            prop, tier, n_valid, n_dis, len(status["undecided"]), len(seen), len(status["known"]),
            time.time() - t0, code))
        return code
    finally:
        ctx.cleanup()


PROOF_ANNOTATION = re.compile(r":(init|preserve):|::call-pre:|:decreases\b|::(ensures|exc-frame):shape:|::divisor-positive@")


def handle_refuted(ctx, pm, o, known, status, candidate=False):
    """a valid-expected obligation came back sat: known finding / replayed violation / unreplayed violation"""
    prop = ctx.prop
    r = o.result
    what = "%s model=%s" % (o.name, json.dumps(r.get("model"), sort_keys=True, default=repr))
    kf = [f for f in known.get("findings", []) if finding_matches(f, prop, o.name)]
    if kf:
        status["known"].append((kf[0], what))
        return True
    replayed = None
    detail = None
    try:
        fn = getattr(pm, "replay", None)
        if r.get("model") is not None or o.kind in ("C", "F"):
            if fn is not None:
                replayed, detail = fn(ctx, o, r.get("model") or {})
            if replayed is None and r.get("model") is not None:
                # the property module has no harness for this function: the shared ones (contracts/replays.py)
                from contracts.replays import replay as shared
                r2, d2 = shared(ctx, o, r["model"])
                if r2 is not None:
                    replayed, detail = r2, d2
    except Exception:
        detail = "replay crashed: " + traceback.format_exc(limit=4)
        replayed = None
    if candidate and not replayed:
        return False
    if PROOF_ANNOTATION.search(o.name) and not replayed:
        # a loop invariant that is not established / preserved, a callee's precondition not met at a call site, a variant that
        # does not decrease: the *annotation* no longer fits the code.  That is a failed proof, not a counterexample to the
        # property -- the postconditions of the function are simply not established by this run (undecided); what the statement
        # asks is then decided by the bounded stand-in alone
        status["undecided"].append(o.name)
        status["degraded"].append("proof annotation no longer fits the code: %s (postconditions of this function are not established by this run)" % o.name)
        return True
    from .solve import tainted
    approx_ = tainted(o)
    if approx_ and not replayed:
        # the counter-model assigns a value the executor over-approximates (text of a format, of str(obj) ...): it is
        # not a behaviour of the code unless it replays -> undecided, the bounded stand-in decides
        status["undecided"].append(o.name)
        status["degraded"].append("refutation of %s not believed: it depends on over-approximated value(s) %s" % (o.name, ", ".join(approx_[:3])))
        return True
    smt_path = None
    for run in r["runs"]:
        if run["verdict"] == "sat":
            smt_path = os.path.join(ctx.outdir, os.path.basename(run["path"]))
            try:
                shutil.copy(run["path"], smt_path)
            except Exception:
                pass
            break
    payload = dict(property=prop, obligation=o.name, kind=o.kind, clause=o.text, meta=o.meta, model=r.get("model"),
                   solver_verdicts=r["verdicts"], solver_output=[run["out"][:2000] for run in r["runs"]],
                   smt2=smt_path, replayed_on_real_code=bool(replayed), replay_detail=detail)
    path = write_replay(ctx, o.name, payload)
    status["violations"].append((what, path, bool(replayed)))
    return True
