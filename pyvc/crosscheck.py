# coding: utf-8
"""CPython cross-check of the executor's encoding (DESIGN 2.7 / 0.3).

For loop-free, string-level functions the symbolic paths (path condition, result term) are evaluated *natively*
on enumerated concrete inputs: exactly one path condition must be true and its result term must equal what CPython
returns for the real function on real objects.  A disagreement is a bug of the encoding (exit 3), not a verdict
about the code.  Run by `./check --selfcheck` and by the thorough tier of C15/C16/C13."""
from __future__ import annotations

import itertools

from . import term as tm
from .term import STR, INT
from .values import State, VT, VObj, VNone, VTuple
from .symex import Frame, Unsupported
from .repo import strip_docstring


def symbolic_paths(ex, con, variant):
    node, ci = ex.repo.function(con.file, con.qual)
    mod = ex.repo.module(con.file)
    ex.obligs = []
    ex.root = (con.file, con.qual)
    st = State()
    a = con.setup(ex, st, variant)
    ex.loopspecs = dict(con.loops)
    ex.index_loops(node)
    st0 = st.assume(*([t for (_, t) in con.requires(ex, st, a)] + list(con.assumes(ex, st, a))))
    fr = Frame(mod, ci, "<root>", depth=0)
    ex.root_pending = True
    selfv = a.get("self")
    rest = {k: v for k, v in a.items() if k not in ("self", "cls")}
    outs = []
    for (s_, tag_, f_) in ex.class_attr(selfv.kind, node.name, st0, fr, self_val=selfv):
        for (s2_, tag2_, v_) in ex.call(f_, [], rest, s_, fr):
            outs.append((s2_, tag2_, v_))
    return st0, a, outs


def result_text_term(ex, st, v):
    if isinstance(v, VT):
        return v.t
    if isinstance(v, VObj):
        try:
            return ex.models.text(st, v)
        except Unsupported:
            return None
    return None


def _holds(c, env, funcs, lenient):
    try:
        return bool(tm.ev(c, env, funcs))
    except tm.EvalError:
        if lenient:
            return True     # a fact about a fresh symbol introduced by a callee's contract: not evaluable, not a branch
        raise


def eval_paths(ex, st0, outs, env, funcs, lenient=False):
    """-> list of (tag, value) for the paths whose condition holds under env"""
    hits = []
    base = len(st0.pc)
    for (s, tag, v) in outs:
        try:
            if all(_holds(c, env, funcs, lenient) for c in s.pc):
                t = result_text_term(ex, s, v) if tag == "ok" else None
                try:
                    val = tm.ev(t, env, funcs) if t is not None else None
                except tm.EvalError:
                    if not lenient:
                        raise
                    val = None
                kind = tag if tag == "ok" else (s.get(v, "__mro__") or ["?"])[0]
                hits.append((kind, val))
        except tm.EvalError as e:
            hits.append(("eval-error", str(e)))
    return hits


def check_group(ctx):
    from contracts.replays import StubMatch, mk_target, text_of
    from pyvc import native
    ns = native.load(ctx.repo_root)
    con = ctx.contracts[("moclo/moclo/regex.py", "SeqMatch.group")]
    problems, n = [], 0
    for variant in ("Seq", "SeqRecord"):   # (the CircularRecord variant goes through the slice contract: fresh symbols)
        ex = ctx.executor()
        st0, a, outs = symbolic_paths(ex, con, variant)
        for rec in ("A", "AC", "ACG", "ACGT", "ACGTA"):
            L = len(rec)
            for start in range(L):
                for ln in range(0, L + 1):
                    for r0 in range(0, ln + 1):
                        for r1 in range(r0, ln + 1):
                            n += 1
                            s0, s1 = start + r0, start + r1
                            env = {"rec.seq": rec, "index": 1, "m.start": start, "m.len": ln, "m.pat": "p", "m.w": "w"}
                            funcs = {"re_s0": lambda p, w, i, r0=r0: r0, "re_s1": lambda p, w, i, r1=r1: r1, "shape3": lambda p: False,
                                     "re_len": lambda p, w, ln=ln: ln}
                            hits = eval_paths(ex, st0, outs, env, funcs)
                            sm = ns["moclo.regex"].SeqMatch(StubMatch(start, start + ln, {1: (s0, s1)}), mk_target(ns, variant, rec))
                            try:
                                real = ("ok", text_of(sm.group(1)))
                            except Exception as e:
                                real = (type(e).__name__, None)
                            if len(hits) != 1 or hits[0] != real:
                                problems.append(dict(function="SeqMatch.group[%s]" % variant, input=dict(rec=rec, span=(s0, s1), start=start, len=ln),
                                                     executor=hits, cpython=real))
    return n, problems


def check_record_ops(ctx):
    from pyvc import native
    from Bio.Seq import Seq
    ns = native.load(ctx.repo_root)
    CircularRecord = ns["moclo.record"].CircularRecord
    problems, n = [], 0
    F = "moclo/moclo/record.py"
    # __getitem__ : every slice bound in [-n-2, n+2]
    con = ctx.contracts[(F, "CircularRecord.__getitem__")]
    ex = ctx.executor()
    st0, a, outs = symbolic_paths(ex, con, "slice-no-topology")
    for rec in ("A", "ACG", "ACGTA"):
        L = len(rec)
        for lo in range(-L - 2, L + 3):
            for hi in range(-L - 2, L + 3):
                n += 1
                env = {"self.seq": rec, "lo": lo, "hi": hi, "self.id": "i", "self.name": "n", "self.description": "d",
                       "self.letan": ""}
                hits = eval_paths(ex, st0, outs, env, {})
                real = ("ok", str(CircularRecord(Seq(rec))[lo:hi].seq))
                if len(hits) != 1 or hits[0] != real:
                    problems.append(dict(function="CircularRecord.__getitem__", input=dict(seq=rec, lo=lo, hi=hi), executor=hits, cpython=real))
    # __contains__
    con = ctx.contracts[(F, "CircularRecord.__contains__")]
    ex = ctx.executor()
    st0, a, outs = symbolic_paths(ex, con, "str")
    for rec in ("A", "AC", "ACA", "ACGA"):
        for m in range(0, 6):
            for q in itertools.product("AC", repeat=m):
                n += 1
                q = "".join(q)
                env = {"self.seq": rec, "char": q, "self.ann.topology": "circular"}
                hits = eval_paths(ex, st0, outs, env, {})
                hits = [(k, bool(v)) for (k, v) in hits]
                real = ("ok", q in CircularRecord(Seq(rec)))
                if len(hits) != 1 or hits[0] != real:
                    problems.append(dict(function="CircularRecord.__contains__", input=dict(seq=rec, query=q), executor=hits, cpython=real))
    # __rshift__ / __lshift__ : sequence and letter annotations (no features)
    for qual, op in (("CircularRecord.__rshift__", lambda r, k: r >> k), ("CircularRecord.__lshift__", lambda r, k: r << k)):
        con = ctx.contracts[(F, qual)]
        ex = ctx.executor()
        variant = "loc-none" if "rshift" in qual else "default"
        st0, a, outs = symbolic_paths(ex, con, variant)
        for rec in ("A", "AC", "ACG", "ACGTR"):
            L = len(rec)
            for k in range(-2 * L - 1, 2 * L + 2):
                n += 1
                env = {"self.seq": rec, "index": k, "self.ann.topology": "circular", "self.letan": "", "self.id": "i", "self.name": "n",
                       "self.description": "d", "nfeatures": 0, "f.type": "x", "f.id": "y"}
                # results produced through the constructor / rotation contracts are fresh symbols: only the branch
                # structure (exactly one feasible normal path) is compared
                try:
                    hits = eval_paths(ex, st0, outs, env, {}, lenient=True)
                except tm.EvalError as e_:
                    hits = [("eval-error", str(e_))]
                hits = [(h[0], None) if h[0] == "ok" else h for h in hits]
                real = ("ok", None)
                if len(hits) != 1 or hits[0][0] != "ok":
                    problems.append(dict(function=qual, input=dict(seq=rec, k=k), executor=hits, cpython=real))
    return n, problems


def run(ctx):
    total, problems = 0, []
    for fn in (check_group, check_record_ops):
        n, pb = fn(ctx)
        total += n
        problems += pb
    return total, problems
