# coding: utf-8
"""Assumed contracts of Biopython records (D-REC-*, D-LOC, D-COPY) for the executor.

Abstract data model (DESIGN 2.3):

* record  = VObj kind SeqRecord|CircularRecord with fields seq (Seq object), id, name, description (String),
  dbxrefs (term of the uninterpreted sort Dbx or a python list), features (term of the uninterpreted sort
  Feats, or a pointwise list VRepList of feature objects, or a concrete python list), annotations (python
  dict with the *tracked* constant keys; other keys are never touched by the code under contract -- census),
  letter_annotations (VObj LetAnn: pointwise map with one representative track `rep : (Seq Int)`).
* Feats transformers are uninterpreted at this level: feats_slice, feats_shift, feats_cat, feats_flip,
  feats_snoc_source; their pointwise meaning is given to the lemma layer (props), not to the executor.
"""
from __future__ import annotations

from . import term as tm
from .term import T, INT, BOOL, STR
from .values import (VT, VNone, NONE, VTuple, VList, VDict, VRepList, VObj, VClass, VModel, VSlice, VOpaque, State)
from .symex import Unsupported
from . import models as M

FEATS = "Feats"
DBX = "Dbx"
ELEMS = STR  # a per-letter annotation track: its values are opaque to the code (only sliced and concatenated), so by parametricity a String (sequence of code points) stands for a sequence of any element type


class BioModels(M.Models):
    def __init__(self):
        super(BioModels, self).__init__()
        self.sorts += [FEATS, DBX, "Ref", "Quals", "Feat"]
        self.decl("feats_snoc", [FEATS, "Feat"], FEATS)
        self.decl("feat", [STR, INT, INT, INT, "Quals"], "Feat")
        self.decl("ref_none", [], "Ref")
        self.decl("quals_empty", [], "Quals")
        self.decl("feats_rot", [FEATS, INT, INT], FEATS)          # table, shift i in (0,n), length n
        self.decl("seq_rev", [ELEMS], ELEMS)
        self.decl("feats_slice", [FEATS, INT, INT, INT], FEATS)   # table, start, stop, parent length
        self.decl("feats_shift", [FEATS, INT], FEATS)
        self.decl("feats_cat", [FEATS, FEATS], FEATS)
        self.decl("feats_flip", [FEATS, INT], FEATS)
        self.decl("feats_empty", [], FEATS)
        self.decl("strided_text", [STR, INT, INT, INT], STR)      # D-REC-SLICE: text[lo:hi:step]
        self.decl("strided_elems", [ELEMS, INT, INT, INT], ELEMS)
        self.decl("feats_snoc_source", [FEATS, INT, STR], FEATS)  # table, length covered, plasmid id
        self.decl("dbx_empty", [], DBX)
        self.decl("dbx_union", [DBX, DBX], DBX)

    # -- factories ------------------------------------------------------------
    def sym_record(self, st, kind, prefix, ann_keys=("topology",), feats=None):
        o = super(BioModels, self).sym_record(st, kind, prefix)
        st.set_inplace(o, "features", feats if feats is not None else VT(tm.V(prefix + ".features", FEATS), "list"))
        st.set_inplace(o, "dbxrefs", VT(tm.V(prefix + ".dbxrefs", DBX), "list"))
        d = VDict(M.new_oid())
        st.set_inplace(d, "items", {k: VT(tm.V("%s.ann.%s" % (prefix, k), STR)) for k in ann_keys})
        st.set_inplace(o, "annotations", d)
        la = VObj("LetAnn")
        st.set_inplace(la, "rep", VT(tm.V(prefix + ".letan", ELEMS), "list"))
        st.set_inplace(o, "letter_annotations", la)
        return o

    def feats_term(self, st, v):
        if isinstance(v, VT) and v.t.sort == FEATS:
            return v.t
        if isinstance(v, VList) and len(st.get(v, "items")) == 0:
            return tm.app("feats_empty", FEATS)
        if isinstance(v, VNone):
            return tm.app("feats_empty", FEATS)
        raise Unsupported("feature table %r" % (v,))

    def dbx_term(self, st, v):
        if isinstance(v, VT) and v.t.sort == DBX:
            return v.t
        if isinstance(v, (VList, VNone)):
            return tm.app("dbx_empty", DBX)
        raise Unsupported("dbxrefs %r" % (v,))

    def deepcopy(self, ex, st, v):
        if isinstance(v, (VT, VNone)):
            return (st, "ok", v)
        if isinstance(v, VDict):
            st, d = ex.new_dict(st, dict(st.get(v, "items")))
            return (st, "ok", d)
        if isinstance(v, VList):
            st, l = ex.new_list(st, list(st.get(v, "items")))
            return (st, "ok", l)
        if isinstance(v, VObj) and v.kind == "LetAnn":
            o = VObj("LetAnn")
            st = st.set(o, "rep", st.get(v, "rep"))
            return (st, "ok", o)
        if isinstance(v, VRepList):
            return (st, "ok", v)
        raise Unsupported("deepcopy of %r" % (v,))

    def havoc_obj(self, ex, st, v, name):
        return None

    def merge_alts(self, ex, st, alts):
        return merge_alts(ex, st, alts)

    def features_append(self, ex, st, owner, f):
        return features_append(ex, st, owner, f)

    def comprehension(self, ex, st, fr, node, gen, it, what):
        # {k: f(v) for k, v in letter_annotations.items()}  -- pointwise over tracks
        if isinstance(it, VObj) and it.kind == "LetAnnItems" and what == "dict":
            import ast
            tgt = gen.target
            if not (isinstance(tgt, ast.Tuple) and len(tgt.elts) == 2 and all(isinstance(e, ast.Name) for e in tgt.elts)
                    and isinstance(node.key, ast.Name) and node.key.id == tgt.elts[0].id):
                raise Unsupported("letter annotation comprehension shape")
            kname, vname = tgt.elts[0].id, tgt.elts[1].id
            s1 = st.with_env(vname, st.get(it, "rep")).with_env(kname, VOpaque("letan-key"))
            res = []
            for (s2, tag, val) in ex.eval(node.value, s1, fr):
                if tag != "ok":
                    res.append((s2, tag, val))
                    continue
                o = VObj("LetAnn")
                s2 = s2.set(o, "rep", val)
                s2 = s2.fork()
                s2.env = dict(st.env)
                res.append((s2, "ok", o))
            return res
        return super(BioModels, self).comprehension(ex, st, fr, node, gen, it, what)


# ---------------------------------------------------------------------- SeqRecord (D-REC-*)
def _rec_fields(st, rec):
    return {k: st.get(rec, k) for k in ("id", "name", "description", "dbxrefs", "features", "annotations",
                                          "letter_annotations")}


def km_rec_len(ex, st, fr, self, args, kwargs):
    return [(st, "ok", VT(tm.slen(ex.models.rec_text(st, self))))]


def km_rec_getitem(ex, st, fr, self, args, kwargs):
    ex.used_models.add("D-REC-SLICE")
    (idx,) = args
    data = ex.models.rec_text(st, self)
    n = tm.slen(data)
    if not isinstance(idx, VSlice):
        raise Unsupported("record[int]")
    if idx.step is not None and not (isinstance(idx.step, VT) and tm.is_const(idx.step.t) and tm.cval(idx.step.t) == 1):
        return km_rec_getitem_stepped(ex, st, fr, self, idx)
    lo, hi = ex.slice_terms(idx)
    a = tm.I(0) if lo is None else tm.pyidx(lo, n)
    b = n if hi is None else tm.pyidx(hi, n)
    st = st.fork()
    # _from_validated(type(self)): same class as self, constructor not run
    o = ex.models.mk_record(st, self.kind, tm.pyslice(data, lo, hi))
    for k in ("id", "name", "description"):
        st.set_inplace(o, k, st.get(self, k))
    feats = st.get(self, "features")
    st.set_inplace(o, "features", VT(tm.app("feats_slice", FEATS_, ex.models.feats_term(st, feats), a, b, n), "list"))
    st.set_inplace(o, "dbxrefs", VT(tm.app("dbx_empty", DBX_), "list"))
    ann = st.get(self, "annotations")
    items = {}
    if isinstance(ann, VDict) and "molecule_type" in st.get(ann, "items"):
        items["molecule_type"] = st.get(ann, "items")["molecule_type"]
    d = VDict(M.new_oid())
    st.set_inplace(d, "items", items)
    st.set_inplace(o, "annotations", d)
    la = st.get(self, "letter_annotations")
    o2 = VObj("LetAnn")
    st.set_inplace(o2, "rep", VT(tm.pyslice(st.get(la, "rep").t, lo, hi), "list"))
    st.set_inplace(o, "letter_annotations", o2)
    return [(st, "ok", o)]


FEATS_ = FEATS
DBX_ = DBX


def km_rec_getitem_stepped(ex, st, fr, self, idx):
    """D-REC-SLICE, stepped: record[lo:hi:step] (int bounds, step != 0) is a record of the same class holding
    text[lo:hi:step] and the per-letter annotations sliced alike, no feature, no cross-reference, and of the annotations
    only the molecule type; a zero step is refused with ValueError"""
    if not all(isinstance(x, VT) and x.t.sort == INT for x in (idx.lo, idx.hi, idx.step)):
        raise Unsupported("stepped slice with a bound that is not an int")
    lo, hi, step = idx.lo.t, idx.hi.t, idx.step.t
    data = ex.models.rec_text(st, self)
    outs = []
    for (s2, zero) in ex.branch(st, tm.eq(step, 0)):
        if zero:
            outs += ex.raise_(s2, "ValueError", VT(tm.S("slice step cannot be zero")))
            continue
        s2 = s2.fork()
        o = ex.models.mk_record(s2, self.kind, tm.app("strided_text", STR, data, lo, hi, step))
        for k in ("id", "name", "description"):
            s2.set_inplace(o, k, s2.get(self, k))
        s2.set_inplace(o, "features", VT(tm.app("feats_empty", FEATS_), "list"))
        s2.set_inplace(o, "dbxrefs", VT(tm.app("dbx_empty", DBX_), "list"))
        ann = s2.get(self, "annotations")
        items = {}
        if isinstance(ann, VDict) and "molecule_type" in s2.get(ann, "items"):
            items["molecule_type"] = s2.get(ann, "items")["molecule_type"]
        d = VDict(M.new_oid())
        s2.set_inplace(d, "items", items)
        s2.set_inplace(o, "annotations", d)
        la = s2.get(self, "letter_annotations")
        o2 = VObj("LetAnn")
        s2.set_inplace(o2, "rep", VT(tm.app("strided_elems", ELEMS, s2.get(la, "rep").t, lo, hi, step), "list"))
        s2.set_inplace(o, "letter_annotations", o2)
        outs.append((s2, "ok", o))
    return outs


def km_rec_add(ex, st, fr, self, args, kwargs):
    ex.used_models.add("D-REC-ADD")
    (o,) = args
    if isinstance(o, VObj) and o.kind == "Seq" or isinstance(o, VT) and o.t.sort == STR:
        st = st.fork()
        r = ex.models.mk_record(st, self.kind, tm.concat(ex.models.rec_text(st, self), ex.models.text(st, o)))
        for k in ("id", "name", "description", "dbxrefs", "features"):
            st.set_inplace(r, k, st.get(self, k))
        d = VDict(M.new_oid())
        ann = st.get(self, "annotations")
        st.set_inplace(d, "items", dict(st.get(ann, "items")) if isinstance(ann, VDict) else {})
        st.set_inplace(r, "annotations", d)
        la = VObj("LetAnn")
        st.set_inplace(la, "rep", VT(tm.S(""), "list"))
        st.set_inplace(r, "letter_annotations", la)
        return [(st, "ok", r)]
    if not (isinstance(o, VObj) and o.kind in ("SeqRecord", "CircularRecord")):
        raise Unsupported("record + non-record")
    if o.kind == "CircularRecord":
        # python tries the reflected operand of a subclass first only when it overrides __radd__ ... it does
        return ex.call_method(o, "__radd__", [self], {}, st, fr)
    st = st.fork()
    a, b = ex.models.rec_text(st, self), ex.models.rec_text(st, o)
    r = ex.models.mk_record(st, self.kind, tm.concat(a, b))
    for k, unknown in (("id", "<unknown id>"), ("name", "<unknown name>"), ("description", "<unknown description>")):
        x, y = st.get(self, k).t, st.get(o, k).t
        st.set_inplace(r, k, VT(tm.ite(tm.eq(x, y), x, tm.S(unknown))))
    fa, fb = ex.models.feats_term(st, st.get(self, "features")), ex.models.feats_term(st, st.get(o, "features"))
    st.set_inplace(r, "features", VT(tm.app("feats_cat", FEATS, fa, tm.app("feats_shift", FEATS, fb, tm.slen(a))),
                                     "list"))
    st.set_inplace(r, "dbxrefs", VT(tm.app("dbx_union", DBX, ex.models.dbx_term(st, st.get(self, "dbxrefs")),
                                           ex.models.dbx_term(st, st.get(o, "dbxrefs"))), "list"))
    # annotations: common equal entries of the tracked keys
    ia = st.get(st.get(self, "annotations"), "items") if isinstance(st.get(self, "annotations"), VDict) else {}
    ib = st.get(st.get(o, "annotations"), "items") if isinstance(st.get(o, "annotations"), VDict) else {}
    d = VDict(M.new_oid())
    st.set_inplace(d, "items", {})
    st.set_inplace(d, "maybe", {k: (ia[k], ib[k]) for k in ia if k in ib})
    st.set_inplace(r, "annotations", d)
    la, lb = st.get(self, "letter_annotations"), st.get(o, "letter_annotations")
    o2 = VObj("LetAnn")
    st.set_inplace(o2, "rep", VT(tm.seqcat(st.get(la, "rep").t, st.get(lb, "rep").t), "list"))
    st.set_inplace(r, "letter_annotations", o2)
    return [(st, "ok", r)]


def km_rec_radd(ex, st, fr, self, args, kwargs):
    """SeqRecord.__radd__(other: Seq|str): text prepended, features shifted by len(other), ids/annotations kept"""
    ex.used_models.add("D-REC-ADD")
    (o,) = args
    if isinstance(o, VObj) and o.kind in ("SeqRecord", "CircularRecord"):
        return ex.raise_(st, "RuntimeError")
    st = st.fork()
    left = ex.models.text(st, o)
    r = ex.models.mk_record(st, self.kind, tm.concat(left, ex.models.rec_text(st, self)))
    for k in ("id", "name", "description", "dbxrefs", "letter_annotations"):
        st.set_inplace(r, k, st.get(self, k))
    st.set_inplace(r, "features", VT(tm.app("feats_shift", FEATS, ex.models.feats_term(st, st.get(self, "features")),
                                            tm.slen(left)), "list"))
    d = VDict(M.new_oid())
    ann = st.get(self, "annotations")
    st.set_inplace(d, "items", dict(st.get(ann, "items")) if isinstance(ann, VDict) else {})
    st.set_inplace(r, "annotations", d)
    la = VObj("LetAnn")
    st.set_inplace(la, "rep", VT(tm.S(""), "list"))
    st.set_inplace(r, "letter_annotations", la)
    return [(st, "ok", r)]


def km_rec_contains(ex, st, fr, self, args, kwargs):
    (c,) = args
    return [(st, "ok", VT(tm.contains(ex.models.rec_text(st, self), ex.models.text(st, c))))]


def km_rec_init(ex, st, fr, self, args, kwargs):
    """SeqRecord.__init__(self, seq, id, name, description, dbxrefs, features, annotations, letter_annotations)"""
    ex.used_models.add("D-REC-INIT")
    names = ["seq", "id", "name", "description", "dbxrefs", "features", "annotations", "letter_annotations"]
    vals = dict(zip(names, args))
    vals.update(kwargs)
    st = st.fork()
    seq = vals.get("seq")
    if not (isinstance(seq, VObj) and seq.kind == "Seq"):
        if isinstance(seq, VNone):
            raise Unsupported("SeqRecord(None)")
        return ex.raise_(st, "TypeError", VT(tm.S("seq argument should be a Seq or MutableSeq object")))
    st.set_inplace(self, "seq", seq)
    for k, dflt in (("id", "<unknown id>"), ("name", "<unknown name>"), ("description", "<unknown description>")):
        v = vals.get(k)
        st.set_inplace(self, k, v if v is not None else VT(tm.S(dflt)))
    dbx = vals.get("dbxrefs")
    if isinstance(dbx, VT) and dbx.t.sort == DBX:
        st.set_inplace(self, "dbxrefs", dbx)     # (the object handed in is stored: keeps the ownership ghost)
    else:
        st.set_inplace(self, "dbxrefs", VT(ex.models.dbx_term(st, dbx), "list") if dbx is not None else VT(
            tm.app("dbx_empty", DBX), "list"))
    feats = vals.get("features")
    if feats is None or isinstance(feats, VNone):
        feats = VT(tm.app("feats_empty", FEATS), "list")
    st.set_inplace(self, "features", feats)
    ann = vals.get("annotations")
    if ann is None or isinstance(ann, VNone):
        ann = VDict(M.new_oid())
        st.set_inplace(ann, "items", {})
    st.set_inplace(self, "annotations", ann)
    la = vals.get("letter_annotations")
    if la is None or isinstance(la, VNone):
        la = VObj("LetAnn")
        st.set_inplace(la, "rep", VT(tm.S(""), "list"))
        st.set_inplace(la, "empty", VT(tm.TRUE))
    st.set_inplace(self, "letter_annotations", la)
    return [(st, "ok", NONE)]


def inst_seqrecord(ex, st, fr, args, kwargs):
    o = VObj("SeqRecord")
    outs = km_rec_init(ex, st, fr, o, args, kwargs)
    return [(s, tag, o if tag == "ok" else v) for (s, tag, v) in outs]


def km_rec_rc(ex, st, fr, self, args, kwargs):
    """SeqRecord.reverse_complement(id, name, description, features, annotations, letter_annotations, dbxrefs)"""
    ex.used_models.add("D-REC-RC")
    names = ["id", "name", "description", "features", "annotations", "letter_annotations", "dbxrefs"]
    flags = dict(zip(names, args))
    flags.update(kwargs)

    def flag(k, default):
        v = flags.get(k)
        if v is None:
            return default
        if isinstance(v, VT) and v.t.sort == BOOL and tm.is_const(v.t):
            return bool(tm.cval(v.t))
        raise Unsupported("reverse_complement flag %s=%r" % (k, v))

    st = st.fork()
    data = ex.models.rec_text(st, self)
    n = tm.slen(data)
    r = ex.models.mk_record(st, self.kind, tm.app("rc", STR, data))
    for k, unknown in (("id", "<unknown id>"), ("name", "<unknown name>"), ("description", "<unknown description>")):
        st.set_inplace(r, k, st.get(self, k) if flag(k, False) else VT(tm.S(unknown)))
    if flag("features", True):
        st.set_inplace(r, "features", VT(tm.app("feats_flip", FEATS, ex.models.feats_term(st, st.get(self, "features")),
                                                n), "list"))
    else:
        st.set_inplace(r, "features", VT(tm.app("feats_empty", FEATS), "list"))
    st.set_inplace(r, "dbxrefs", st.get(self, "dbxrefs") if flag("dbxrefs", False) else VT(tm.app("dbx_empty", DBX),
                                                                                         "list"))
    d = VDict(M.new_oid())
    if flag("annotations", False) and isinstance(st.get(self, "annotations"), VDict):
        st.set_inplace(d, "items", dict(st.get(st.get(self, "annotations"), "items")))
    else:
        st.set_inplace(d, "items", {})
    st.set_inplace(r, "annotations", d)
    la = VObj("LetAnn")
    if flag("letter_annotations", True):
        st.set_inplace(la, "rep", VT(tm.app("seq_rev", ELEMS, st.get(st.get(self, "letter_annotations"), "rep").t),
                                     "list"))
    else:
        st.set_inplace(la, "rep", VT(tm.S(""), "list"))
    st.set_inplace(r, "letter_annotations", la)
    st.set_inplace(r, "__rc_flags__", VOpaque(repr(sorted((k, flag(k, d0)) for k, d0 in (
        ("id", False), ("name", False), ("description", False), ("features", True), ("annotations", False),
        ("letter_annotations", True), ("dbxrefs", False))))))
    return [(st, "ok", r)]


def km_letan_items(ex, st, fr, self, args, kwargs):
    o = VObj("LetAnnItems")
    st = st.set(o, "rep", st.get(self, "rep"))
    return [(st, "ok", o)]


M.KIND_METHODS.update({
    ("SeqRecord", "__len__"): km_rec_len,
    ("SeqRecord", "__getitem__"): km_rec_getitem,
    ("SeqRecord", "__add__"): km_rec_add,
    ("SeqRecord", "__radd__"): km_rec_radd,
    ("SeqRecord", "__contains__"): km_rec_contains,
    ("SeqRecord", "__init__"): km_rec_init,
    ("SeqRecord", "reverse_complement"): km_rec_rc,
    ("LetAnn", "items"): km_letan_items,
})
M.INSTANTIATE.update({
    "SeqRecord": inst_seqrecord,
})


# ---------------------------------------------------------------------- features and locations (D-LOC)
REF = "Ref"
QUALS = "Quals"


def mk_part(st, start, end, strand, ref, ref_db):
    p = VObj("FeatureLocation")
    st.set_inplace(p, "start", VT(start))
    st.set_inplace(p, "end", VT(end))
    st.set_inplace(p, "strand", VT(strand))
    st.set_inplace(p, "ref", VT(ref))
    st.set_inplace(p, "ref_db", VT(ref_db))
    return p


def sym_part(st, prefix):
    return mk_part(st, tm.V(prefix + ".start", INT), tm.V(prefix + ".end", INT), tm.V(prefix + ".strand", INT),
                   tm.V(prefix + ".ref", REF), tm.V(prefix + ".ref_db", REF))


def sym_loc(st, prefix):
    """a generic location: np >= 1 parts represented by one generic part; start = min, end = max"""
    loc = VObj("Loc")
    p = sym_part(st, prefix + ".part")
    np_ = tm.V(prefix + ".nparts", INT)
    st.set_inplace(loc, "parts", VRepList(p, np_))
    st.set_inplace(loc, "start", VT(tm.V(prefix + ".min", INT)))
    st.set_inplace(loc, "end", VT(tm.V(prefix + ".max", INT)))
    return loc, p, np_


def loc_facts(st, loc):
    """D-LOC: .start is the minimum and .end the maximum over the parts (stated for the generic part)"""
    p = st.get(loc, "parts").rep
    return [tm.le(1, st.get(loc, "parts").length), tm.le(st.get(loc, "start").t, st.get(p, "start").t),
            tm.le(st.get(p, "end").t, st.get(loc, "end").t)]


def sym_feature(st, prefix, with_location=True):
    f = VObj("SeqFeature")
    st.set_inplace(f, "type", VT(tm.V(prefix + ".type", STR)))
    st.set_inplace(f, "id", VT(tm.V(prefix + ".id", STR)))
    st.set_inplace(f, "qualifiers", VT(tm.V(prefix + ".qualifiers", QUALS)))
    if with_location:
        loc, p, np_ = sym_loc(st, prefix + ".loc")
        st.set_inplace(f, "location", loc)
    else:
        st.set_inplace(f, "location", NONE)
    return f


def km_loc_add(ex, st, fr, self, args, kwargs):
    ex.used_models.add("D-LOC")
    (k,) = args
    if not (isinstance(k, VT) and k.t.sort == INT):
        raise Unsupported("location + %r" % (k,))
    st = st.fork()
    if self.kind == "FeatureLocation":
        return [(st, "ok", mk_part(st, tm.add(st.get(self, "start").t, k.t), tm.add(st.get(self, "end").t, k.t),
                                   st.get(self, "strand").t, st.get(self, "ref").t, st.get(self, "ref_db").t))]
    parts = st.get(self, "parts")
    p = parts.rep
    q = mk_part(st, tm.add(st.get(p, "start").t, k.t), tm.add(st.get(p, "end").t, k.t), st.get(p, "strand").t,
                st.get(p, "ref").t, st.get(p, "ref_db").t)
    loc = VObj("Loc")
    st.set_inplace(loc, "parts", VRepList(q, parts.length))
    st.set_inplace(loc, "start", VT(tm.add(st.get(self, "start").t, k.t)))
    st.set_inplace(loc, "end", VT(tm.add(st.get(self, "end").t, k.t)))
    return [(st, "ok", loc)]


def kp_part_parts(ex, st, self):
    return [(st, "ok", VRepList(self, tm.I(1)))]


def inst_featurelocation(ex, st, fr, args, kwargs):
    ex.used_models.add("D-LOC")
    names = ["start", "end", "strand", "ref", "ref_db"]
    vals = dict(zip(names, args))
    vals.update(kwargs)
    st = st.fork()

    def t(k, default):
        v = vals.get(k)
        if v is None or isinstance(v, VNone):
            return default
        return v.t

    if "start" not in vals or "end" not in vals:
        raise Unsupported("FeatureLocation without start/end")
    p = mk_part(st, vals["start"].t, vals["end"].t, t("strand", tm.I(0)),
                t("ref", tm.app("ref_none", REF)), t("ref_db", tm.app("ref_none", REF)))
    return [(st, "ok", p)]


def inst_compoundlocation(ex, st, fr, args, kwargs):
    ex.used_models.add("D-LOC")
    (parts,) = args
    if not isinstance(parts, VRepList) or parts.rep is None:
        raise Unsupported("CompoundLocation(%r)" % (parts,))
    loc = VObj("Loc")
    st = st.fork()
    st.set_inplace(loc, "parts", parts)
    st.set_inplace(loc, "start", VT(tm.fresh("cmin", INT)))
    st.set_inplace(loc, "end", VT(tm.fresh("cmax", INT)))
    return [(st, "ok", loc)]


def inst_seqfeature(ex, st, fr, args, kwargs):
    names = ["location", "type", "id", "qualifiers"]
    vals = dict(zip(names, args))
    vals.update(kwargs)
    f = VObj("SeqFeature")
    st = st.fork()
    st.set_inplace(f, "location", vals.get("location", NONE))
    st.set_inplace(f, "type", vals.get("type", VT(tm.S(""))))
    st.set_inplace(f, "id", vals.get("id", VT(tm.S("<unknown id>"))))
    st.set_inplace(f, "qualifiers", vals.get("qualifiers", VT(tm.app("quals_empty", QUALS))))
    return [(st, "ok", f)]


def merge_alts(ex, st, alts):
    """[(conds, element, state)] -> one element whose term fields are ite-chains, or None when not mergeable"""
    els = [e for (_, e, _) in alts]
    if not els or not all(isinstance(e, VObj) and e.kind == els[0].kind == "FeatureLocation" for e in els):
        return None
    fields = ("start", "end", "strand", "ref", "ref_db")
    st = st.fork()
    merged = {}
    for f in fields:
        t = alts[-1][2].get(els[-1], f).t
        for (conds, e, s) in reversed(alts[:-1]):
            t = tm.ite(tm.and_(*conds), s.get(e, f).t, t)
        merged[f] = t
    p = mk_part(st, *[merged[f] for f in fields])
    return st, p


def km_part_len(ex, st, fr, self, args, kwargs):
    """D-LOC: the length of a simple location is end - start"""
    ex.used_models.add("D-LOC")
    return [(st, "ok", VT(tm.sub(st.get(self, "end").t, st.get(self, "start").t)))]


M.KIND_METHODS.update({
    ("FeatureLocation", "__len__"): km_part_len,
    ("Loc", "__add__"): km_loc_add,
    ("FeatureLocation", "__add__"): km_loc_add,
})
M.KIND_PROPS.update({
    ("FeatureLocation", "parts"): kp_part_parts,
})
M.INSTANTIATE.update({
    "FeatureLocation": inst_featurelocation,
    "CompoundLocation": inst_compoundlocation,
    "SeqFeature": inst_seqfeature,
})


# ---------------------------------------------------------------------- feature terms (value view of one feature)
FEAT = "Feat"


def quals_term(ex, st, q):
    if isinstance(q, VT) and q.t.sort == QUALS:
        return q.t
    if isinstance(q, VDict):
        items = st.get(q, "items")
        keys = sorted(k for k in items if isinstance(k, str))
        args = []
        for k in keys:
            v = items[k]
            if isinstance(v, VT) and v.t.sort == STR:
                args.append(v.t)
            else:
                raise Unsupported("qualifier value %r" % (v,))
        return tm.app("quals:" + ",".join(keys), QUALS, *args)
    raise Unsupported("qualifiers %r" % (q,))


def quals_get(qt, key):
    """the value filed under `key` in a qualifiers term, when the term shows it (else None)"""
    if qt.op == "app" and isinstance(qt.args[0], str):
        if qt.args[0].startswith("quals:"):
            keys = qt.args[0][len("quals:"):].split(",")
            if key in keys:
                return qt.args[1 + keys.index(key)]
        if qt.args[0] == "quals_naming" and key == "plasmid":
            return qt.args[1]
    return None


def quals_naming(sid):
    """some qualifiers whose `plasmid` entry is sid; everything else about them is left open"""
    return tm.app("quals_naming", QUALS, sid, tm.V("quals.rest!%d" % next(tm._fresh), INT))


def last_feature(ft):
    """(table before, type, start, end, strand, qualifiers) when the table term is shown as `... + [feature]`"""
    if ft.op == "app" and ft.args[0] == "feats_snoc":
        f = ft.args[2]
        if f.op == "app" and f.args[0] == "feat":
            return (ft.args[1],) + tuple(f.args[1:6])
    return None


def feature_term(ex, st, f):
    loc = st.get(f, "location")
    if not (isinstance(loc, VObj) and loc.kind == "FeatureLocation"):
        raise Unsupported("feature term of location %r" % (loc,))
    return tm.app("feat", FEAT, st.get(f, "type").t, st.get(loc, "start").t, st.get(loc, "end").t,
                  st.get(loc, "strand").t, quals_term(ex, st, st.get(f, "qualifiers")))


def features_append(ex, st, owner, f):
    """record.features.append(feature) on a value-modelled feature table: functional update of the field"""
    cur = st.get(owner, "features")
    ft = ex.models.feats_term(st, cur)
    return st.set(owner, "features", VT(tm.app("feats_snoc", FEATS, ft, feature_term(ex, st, f)), "list"))
