# coding: utf-8
"""Symbolic values and states of the pyvc executor."""
from __future__ import annotations

import itertools

from . import term as tm
from .term import T, INT, BOOL, STR

_oid = itertools.count(1)


class Val(object):
    pass


class VT(Val):
    """a value that is an SMT term.  py = python type it stands for"""
    __slots__ = ("t", "py")

    def __init__(self, t, py=None):
        self.t = tm.lift(t)
        if py is None:
            py = {INT: "int", BOOL: "bool", STR: "str"}.get(self.t.sort, "list")
        self.py = py

    def __repr__(self):
        return "VT<%s:%r>" % (self.py, self.t)


class VNone(Val):
    def __repr__(self):
        return "VNone"


NONE = VNone()


class VNotImplemented(Val):
    pass


NOTIMPL = VNotImplemented()


class VTuple(Val):
    def __init__(self, items):
        self.items = list(items)

    def __repr__(self):
        return "VTuple%r" % (self.items,)


class VList(Val):
    """python list with a concrete number of symbolic elements (mutable, lives in heap by oid)"""

    def __init__(self, oid):
        self.oid = oid

    def __repr__(self):
        return "VList#%d" % self.oid


class VDict(Val):
    """python dict with concrete (constant) keys; mutable, lives in heap by oid"""

    def __init__(self, oid):
        self.oid = oid


class VRepList(Val):
    """a list of unknown length represented by one generic element (pointwise reasoning)"""

    def __init__(self, rep, length, tag=None):
        self.rep = rep
        self.length = length
        self.tag = tag


class VObj(Val):
    def __init__(self, kind, oid=None):
        self.kind = kind
        self.oid = oid if oid is not None else next(_oid)

    def __repr__(self):
        return "VObj<%s#%d>" % (self.kind, self.oid)


class VClass(Val):
    def __init__(self, name, info=None):
        self.name = name
        self.info = info  # repo ClassInfo or None for modelled classes

    def __repr__(self):
        return "VClass<%s>" % self.name


class VFunc(Val):
    def __init__(self, node, module, cls=None, qual=None):
        self.node = node
        self.module = module
        self.cls = cls
        self.qual = qual or node.name

    def __repr__(self):
        return "VFunc<%s>" % self.qual


class VBound(Val):
    def __init__(self, func, self_val, defining_cls=None):
        self.func = func
        self.self_val = self_val
        self.defining_cls = defining_cls


class VModel(Val):
    """a callable implemented by a python model: fn(ex, st, args, kwargs) -> outcomes"""

    def __init__(self, name, fn, self_val=None):
        self.name = name
        self.fn = fn
        self.self_val = self_val

    def __repr__(self):
        return "VModel<%s>" % self.name


class VModule(Val):
    def __init__(self, name, attrs=None, repo_module=None):
        self.name = name
        self.attrs = attrs or {}
        self.repo_module = repo_module


class VSlice(Val):
    def __init__(self, lo, hi, step=None):
        self.lo, self.hi, self.step = lo, hi, step


class VSuper(Val):
    def __init__(self, cls, self_val):
        self.cls = cls
        self.self_val = self_val


class VOpaque(Val):
    """a value nothing is known about (e.g. a message string argument)"""

    def __init__(self, what=""):
        self.what = what


def new_oid():
    return next(_oid)


class State(object):
    def __init__(self, pc=(), env=None, heap=None, ghost=None, notes=()):
        self.pc = tuple(pc)
        self.env = dict(env or {})
        self.heap = dict(heap or {})
        self.ghost = dict(ghost or {})
        self.notes = tuple(notes)

    def fork(self):
        return State(self.pc, self.env, self.heap, self.ghost, self.notes)

    def assume(self, *conds):
        st = self.fork()
        add = []
        for c in conds:
            c = tm.lift(c)
            if tm.is_const(c) and tm.cval(c):
                continue
            add.append(c)
        st.pc = st.pc + tuple(add)
        return st

    @property
    def dead(self):
        return any(tm.is_const(c) and not tm.cval(c) for c in self.pc)

    def with_env(self, name, val):
        st = self.fork()
        st.env[name] = val
        return st

    # heap ---------------------------------------------------------------
    def fields(self, obj):
        return self.heap.get(obj.oid, {})

    def get(self, obj, field, default=None):
        return self.heap.get(obj.oid, {}).get(field, default)

    def set(self, obj, field, val):
        """functional update; returns new state"""
        st = self.fork()
        d = dict(st.heap.get(obj.oid, {}))
        d[field] = val
        st.heap[obj.oid] = d
        return st

    def set_inplace(self, obj, field, val):
        d = dict(self.heap.get(obj.oid, {}))
        d[field] = val
        self.heap[obj.oid] = d

    def note(self, msg):
        st = self.fork()
        st.notes = st.notes + (msg,)
        return st
