# coding: utf-8
"""Term language of pyvc.

One term AST with two interpretations:

* ``smt(t)``   -- SMT-LIB2 text (strings = String, lists = (Seq T), ints = Int)
* ``ev(t, env)`` -- native evaluation in CPython (used for replay of
  counter-models and for the CPython cross-check of the executor)

Python's ``%`` with a symbolic divisor is *not* left to the solver's
non-linear arithmetic: every distinct ``pymod(x, n)`` term is replaced by a
fresh constant ``r`` with the defining axioms ``x = q*n + r, 0 <= r < n`` plus
the window cases (see DESIGN 2.2).  ``n > 0`` is a side condition recorded by
the executor (a possibly-zero divisor is a ZeroDivisionError path there).
"""
from __future__ import annotations

import itertools
import re

INT, BOOL, STR = "Int", "Bool", "String"


def seq_sort(elem):
    return "(Seq %s)" % elem


def arr_sort(k, v):
    return "(Array %s %s)" % (k, v)


class T(object):
    __slots__ = ("op", "args", "sort", "_h")

    def __init__(self, op, args, sort):
        self.op = op
        self.args = tuple(args)
        self.sort = sort
        self._h = hash((op, self.args, sort))

    def __hash__(self):
        return self._h

    def __eq__(self, other):  # structural equality (NOT an SMT equation)
        return (
            isinstance(other, T)
            and self._h == other._h
            and self.op == other.op
            and self.sort == other.sort
            and self.args == other.args
        )

    def __ne__(self, other):
        return not self.__eq__(other)

    def __repr__(self):
        return smt(self, _plain=True)

    # arithmetic sugar ----------------------------------------------------
    def __add__(self, o):
        o = lift(o)
        if self.sort == STR:
            return concat(self, o)
        if self.sort.startswith("(Seq"):
            return seqcat(self, o)
        return add(self, o)

    def __radd__(self, o):
        return lift(o).__add__(self)

    def __sub__(self, o):
        return sub(self, lift(o))

    def __rsub__(self, o):
        return sub(lift(o), self)

    def __neg__(self):
        return sub(I(0), self)

    def __mul__(self, o):
        return mul(self, lift(o))

    def __rmul__(self, o):
        return mul(lift(o), self)

    def __le__(self, o):
        return le(self, lift(o))

    def __lt__(self, o):
        return lt(self, lift(o))

    def __ge__(self, o):
        return le(lift(o), self)

    def __gt__(self, o):
        return lt(lift(o), self)


def lift(x):
    if isinstance(x, T):
        return x
    if isinstance(x, bool):
        return B(x)
    if isinstance(x, int):
        return I(x)
    if isinstance(x, str):
        return S(x)
    raise TypeError("cannot lift %r" % (x,))


# ---------------------------------------------------------------- constants
def I(n):
    return T("int", (int(n),), INT)


def B(b):
    return T("bool", (bool(b),), BOOL)


def S(s):
    return T("str", (str(s),), STR)


TRUE, FALSE = B(True), B(False)


def V(name, sort):
    return T("var", (name,), sort)


_fresh = itertools.count()


def fresh(prefix, sort):
    return V("%s!%d" % (prefix, next(_fresh)), sort)


# values the executor does not model exactly (the text of str(obj), of a %-format, of a template it cannot split):
# an unconstrained constant stands for them.  That is sound for *proving* (the obligation then holds for every
# value) but a counter-model that assigns such a constant is not a behaviour of the code: see solve.tainted()
APPROX_PREFIX = "approx_"


def approx(what, sort):
    return V("%s%s!%d" % (APPROX_PREFIX, what, next(_fresh)), sort)


def is_const(t):
    return t.op in ("int", "bool", "str")


def cval(t):
    return t.args[0]


# ---------------------------------------------------------------- builders
def add(a, b):
    a, b = lift(a), lift(b)
    if is_const(a) and is_const(b):
        return I(cval(a) + cval(b))
    if is_const(b) and cval(b) == 0:
        return a
    if is_const(a) and cval(a) == 0:
        return b
    return T("+", (a, b), INT)


def sub(a, b):
    a, b = lift(a), lift(b)
    if is_const(a) and is_const(b):
        return I(cval(a) - cval(b))
    if is_const(b) and cval(b) == 0:
        return a
    if a == b:
        return I(0)
    if a.op == "+" and a.args[0] == b:
        return a.args[1]
    if a.op == "+" and a.args[1] == b:
        return a.args[0]
    return T("-", (a, b), INT)


def mul(a, b):
    a, b = lift(a), lift(b)
    if is_const(a) and is_const(b):
        return I(cval(a) * cval(b))
    return T("*", (a, b), INT)


def le(a, b):
    a, b = lift(a), lift(b)
    if is_const(a) and is_const(b):
        return B(cval(a) <= cval(b))
    return T("<=", (a, b), BOOL)


def lt(a, b):
    a, b = lift(a), lift(b)
    if is_const(a) and is_const(b):
        return B(cval(a) < cval(b))
    return T("<", (a, b), BOOL)


def eq(a, b):
    a, b = lift(a), lift(b)
    if a.sort != b.sort:
        raise TypeError("eq of different sorts: %s / %s (%r, %r)" % (a.sort, b.sort, a, b))
    if a == b:
        return TRUE
    if is_const(a) and is_const(b):
        return B(cval(a) == cval(b))
    return T("=", (a, b), BOOL)


def ne(a, b):
    return not_(eq(a, b))


def not_(a):
    a = lift(a)
    if is_const(a):
        return B(not cval(a))
    if a.op == "not":
        return a.args[0]
    return T("not", (a,), BOOL)


def and_(*xs):
    out = []
    for x in xs:
        x = lift(x)
        if x.sort != BOOL:
            raise TypeError("and_ of non-bool %r" % (x,))
        if is_const(x):
            if not cval(x):
                return FALSE
            continue
        if x.op == "and":
            out.extend(x.args)
        else:
            out.append(x)
    out = list(dict.fromkeys(out))
    if not out:
        return TRUE
    if len(out) == 1:
        return out[0]
    return T("and", out, BOOL)


def or_(*xs):
    out = []
    for x in xs:
        x = lift(x)
        if x.sort != BOOL:
            raise TypeError("or_ of non-bool %r" % (x,))
        if is_const(x):
            if cval(x):
                return TRUE
            continue
        if x.op == "or":
            out.extend(x.args)
        else:
            out.append(x)
    out = list(dict.fromkeys(out))
    if not out:
        return FALSE
    if len(out) == 1:
        return out[0]
    return T("or", out, BOOL)


def implies(a, b):
    a, b = lift(a), lift(b)
    if is_const(a):
        return b if cval(a) else TRUE
    if is_const(b) and cval(b):
        return TRUE
    return T("=>", (a, b), BOOL)


def iff(a, b):
    return eq(a, b)


def ite(c, a, b):
    c, a, b = lift(c), lift(a), lift(b)
    if is_const(c):
        return a if cval(c) else b
    if a == b:
        return a
    if a.sort != b.sort:
        raise TypeError("ite sorts %s / %s" % (a.sort, b.sort))
    return T("ite", (c, a, b), a.sort)


def imin(a, b):
    a, b = lift(a), lift(b)
    return ite(le(a, b), a, b)


def imax(a, b):
    a, b = lift(a), lift(b)
    return ite(le(a, b), b, a)


def pymod(x, n):
    """Python ``x % n`` for n > 0 (the executor proves/assumes n > 0)."""
    x, n = lift(x), lift(n)
    if is_const(x) and is_const(n) and cval(n) != 0:
        return I(cval(x) % cval(n))
    return T("pymod", (x, n), INT)


def pydiv(x, n):
    """Python ``x // n`` for n > 0."""
    x, n = lift(x), lift(n)
    if is_const(x) and is_const(n) and cval(n) != 0:
        return I(cval(x) // cval(n))
    return T("pydiv", (x, n), INT)


# strings --------------------------------------------------------------------
def slen(s):
    s = lift(s)
    if is_const(s):
        return I(len(cval(s)))
    if s.op == "str.++":
        return add_many([slen(a) for a in s.args])
    return T("str.len", (s,), INT)


def add_many(xs):
    r = I(0)
    for x in xs:
        r = add(r, x)
    return r


def concat(*xs):
    out = []
    for x in xs:
        x = lift(x)
        if x.sort != STR:
            raise TypeError("concat of non-string %r" % (x,))
        if is_const(x) and cval(x) == "":
            continue
        if x.op == "str.++":
            out.extend(x.args)
        else:
            out.append(x)
    merged = []
    for x in out:
        if merged and is_const(x) and is_const(merged[-1]):
            merged[-1] = S(cval(merged[-1]) + cval(x))
        else:
            merged.append(x)
    if not merged:
        return S("")
    if len(merged) == 1:
        return merged[0]
    return T("str.++", merged, STR)


def substr(s, off, ln):
    """SMT-LIB str.substr (total; empty when out of range)."""
    return T("str.substr", (lift(s), lift(off), lift(ln)), STR)


def contains(s, sub_):
    return T("str.contains", (lift(s), lift(sub_)), BOOL)


def prefixof(pre, s):
    return T("str.prefixof", (lift(pre), lift(s)), BOOL)


def suffixof(suf, s):
    return T("str.suffixof", (lift(suf), lift(s)), BOOL)


def indexof(s, sub_, frm=0):
    return T("str.indexof", (lift(s), lift(sub_), lift(frm)), INT)


def char_at(s, i):
    return T("str.at", (lift(s), lift(i)), STR)


def upper(s):
    s = lift(s)
    if is_const(s):
        return S(cval(s).upper())
    return T("up", (s,), STR)


def lower(s):
    s = lift(s)
    if is_const(s):
        return S(cval(s).lower())
    return T("low", (s,), STR)


def str_of_int(i):
    return T("str.from_int", (lift(i),), STR)


def pyidx(i, n):
    """slice.indices() normalisation of one bound for step 1."""
    i, n = lift(i), lift(n)
    return ite(lt(i, 0), imax(add(i, n), 0), imin(i, n))


def pyslice(s, lo=None, hi=None):
    """Python s[lo:hi] on a String or (Seq T) term (step 1)."""
    s = lift(s)
    n = slen(s) if s.sort == STR else seqlen(s)
    a = I(0) if lo is None else pyidx(lo, n)
    b = n if hi is None else pyidx(hi, n)
    ln = imax(sub(b, a), 0)
    if s.sort == STR:
        return T("str.substr", (s, a, ln), STR)
    return T("seq.extract", (s, a, ln), s.sort)


def circ(s, a, ln):
    """the ln letters read clockwise from position a (mod n) of the circle s"""
    s = lift(s)
    if s.sort == STR:
        return substr(concat(s, s), pymod(a, slen(s)), ln)
    return T("seq.extract", (seqcat(s, s), pymod(a, seqlen(s)), lift(ln)), s.sort)


def rot(s, k):
    """last k letters to the front (right rotation by k), any integer k"""
    s = lift(s)
    n = slen(s) if s.sort == STR else seqlen(s)
    i = pymod(k, n)
    if s.sort == STR:
        return substr(concat(s, s), sub(n, i), n)
    return T("seq.extract", (seqcat(s, s), sub(n, i), n), s.sort)


def rot_i(s, i):
    """right rotation by an already reduced amount 0 <= i < len(s)"""
    s = lift(s)
    n = slen(s) if s.sort == STR else seqlen(s)
    if s.sort == STR:
        return substr(concat(s, s), sub(n, i), n)
    return T("seq.extract", (seqcat(s, s), sub(n, i), n), s.sort)


# sequences (lists) ------------------------------------------------------------
def seqlen(s):
    s = lift(s)
    if s.op == "seq.empty":
        return I(0)
    if s.op == "seq.unit":
        return I(1)
    if s.op == "seq.++":
        return add_many([seqlen(a) for a in s.args])
    return T("seq.len", (s,), INT)


def seqcat(*xs):
    out = []
    for x in xs:
        if x.op == "seq.empty":
            continue
        if x.op == "seq.++":
            out.extend(x.args)
        else:
            out.append(x)
    if not out:
        return xs[0]
    if len(out) == 1:
        return out[0]
    return T("seq.++", out, out[0].sort)


def seqempty(elem_sort):
    return T("seq.empty", (), seq_sort(elem_sort))


def sequnit(x):
    x = lift(x)
    return T("seq.unit", (x,), seq_sort(x.sort))


def elem_sort(seqsort):
    assert seqsort.startswith("(Seq ") and seqsort.endswith(")")
    return seqsort[5:-1]


def seqnth(s, i):
    return T("seq.nth", (s, lift(i)), elem_sort(s.sort))


# arrays ---------------------------------------------------------------------
def _arr_parts(sort):
    # "(Array K V)" with K, V possibly parenthesised
    body = sort[len("(Array "):-1]
    depth = 0
    for j, ch in enumerate(body):
        if ch == "(":
            depth += 1
        elif ch == ")":
            depth -= 1
        elif ch == " " and depth == 0:
            return body[:j], body[j + 1:]
    raise ValueError(sort)


def select(a, k):
    return T("select", (a, lift(k)), _arr_parts(a.sort)[1])


def store(a, k, v):
    return T("store", (a, lift(k), lift(v)), a.sort)


def constarr(sort, v):
    return T("constarr", (lift(v),), sort)


# uninterpreted functions and quantifiers ------------------------------------
def app(fname, sort, *args):
    return T("app", (fname,) + tuple(lift(a) for a in args), sort)


def forall(vars_, body, patterns=None):
    vars_ = tuple(vars_)
    if is_const(body):
        return body
    return T("forall", (vars_, lift(body)), BOOL)


def exists(vars_, body):
    vars_ = tuple(vars_)
    if is_const(body):
        return body
    return T("exists", (vars_, lift(body)), BOOL)


def forall_range(var, lo, hi, body):
    """forall var in [lo, hi): body -- natively evaluable"""
    return T("forall_range", (var, lift(lo), lift(hi), lift(body)), BOOL)


def exists_range(var, lo, hi, body):
    return T("exists_range", (var, lift(lo), lift(hi), lift(body)), BOOL)


# ---------------------------------------------------------------- substitution
def subst(t, mapping):
    """replace variables (T 'var' terms) by terms"""
    cache = {}

    def go(x):
        if not isinstance(x, T):
            if isinstance(x, tuple):
                return tuple(go(y) for y in x)
            return x
        if x in cache:
            return cache[x]
        if x.op == "var":
            r = mapping.get(x, x)
        elif x.op in ("int", "bool", "str"):
            r = x
        else:
            r = T(x.op, tuple(go(a) for a in x.args), x.sort)
        cache[x] = r
        return r

    return go(t)


def free_vars(t, acc=None, bound=frozenset()):
    if acc is None:
        acc = {}
    stack = [(t, bound)]
    seen = set()
    while stack:
        x, bnd = stack.pop()
        if not isinstance(x, T):
            if isinstance(x, tuple):
                for y in x:
                    stack.append((y, bnd))
            continue
        key = (x, bnd)
        if key in seen:
            continue
        seen.add(key)
        if x.op == "var":
            if x not in bnd:
                acc[x] = True
        elif x.op in ("forall", "exists"):
            stack.append((x.args[1], bnd | frozenset(x.args[0])))
        elif x.op in ("forall_range", "exists_range"):
            stack.append((x.args[1], bnd))
            stack.append((x.args[2], bnd))
            stack.append((x.args[3], bnd | frozenset([x.args[0]])))
        else:
            for a in x.args:
                stack.append((a, bnd))
    return acc


def subterms(t):
    seen = set()
    stack = [t]
    while stack:
        x = stack.pop()
        if not isinstance(x, T):
            if isinstance(x, tuple):
                stack.extend(x)
            continue
        if x in seen:
            continue
        seen.add(x)
        yield x
        stack.extend(x.args)


# ---------------------------------------------------------------- SMT printing
def _q(s):
    out = []
    for ch in s:
        o = ord(ch)
        if ch == '"':
            out.append('""')
        elif 32 <= o < 127 and ch != "\\":
            out.append(ch)
        else:
            out.append("\\u{%x}" % o)
    return '"' + "".join(out) + '"'


def _name(n):
    return n if re.match(r"^[A-Za-z_][A-Za-z0-9_.]*$", n) else "|%s|" % n


class Printer(object):
    """prints terms; collects mod/div side definitions, declarations"""

    def __init__(self, plain=False):
        self.plain = plain
        self.moddefs = {}  # (x, n) -> (q, r)
        self.cache = {}

    def modvars(self, x, n):
        key = (x, n)
        if key not in self.moddefs:
            k = len(self.moddefs)
            self.moddefs[key] = (V("modq!%d" % k, INT), V("modr!%d" % k, INT))
        return self.moddefs[key]

    def p(self, t):
        if t in self.cache:
            return self.cache[t]
        r = self._p(t)
        self.cache[t] = r
        return r

    def _p(self, t):
        op, a = t.op, t.args
        if op == "int":
            return str(a[0]) if a[0] >= 0 else "(- %d)" % -a[0]
        if op == "bool":
            return "true" if a[0] else "false"
        if op == "str":
            return _q(a[0])
        if op == "var":
            return _name(a[0])
        if op in ("pymod", "pydiv"):
            if self.plain:
                return "(%s %s %s)" % (op, self.p(a[0]), self.p(a[1]))
            q, r = self.modvars(a[0], a[1])
            return self.p(r if op == "pymod" else q)
        if op == "app":
            if len(a) == 1:
                return _name(a[0])
            return "(%s %s)" % (_name(a[0]), " ".join(self.p(x) for x in a[1:]))
        if op in ("forall", "exists"):
            vs = " ".join("(%s %s)" % (_name(v.args[0]), v.sort) for v in a[0])
            return "(%s (%s) %s)" % (op, vs, self.p(a[1]))
        if op in ("forall_range", "exists_range"):
            v, lo, hi, body = a
            rng = and_(le(lo, v), lt(v, hi))
            if op == "forall_range":
                return "(forall ((%s Int)) %s)" % (_name(v.args[0]), self.p(implies(rng, body)))
            return "(exists ((%s Int)) %s)" % (_name(v.args[0]), self.p(and_(rng, body)))
        if op == "seq.empty":
            return "(as seq.empty %s)" % t.sort
        if op == "constarr":
            return "((as const %s) %s)" % (t.sort, self.p(a[0]))
        if op == "up":
            return "(str.to_upper %s)" % self.p(a[0])
        if op == "low":
            return "(str.to_lower %s)" % self.p(a[0])
        if op == "-" and len(a) == 1:
            return "(- %s)" % self.p(a[0])
        return "(%s %s)" % (op, " ".join(self.p(x) for x in a))


def smt(t, _plain=False):
    return Printer(plain=_plain).p(t)


def mod_axioms(x, n, q, r):
    """defining axioms of r = x mod n, q = x div n (n > 0 assumed separately)"""
    return [
        implies(
            lt(I(0), n),
            and_(
                eq(x, add(mul(q, n), r)),
                le(I(0), r),
                lt(r, n),
                implies(and_(le(I(0), x), lt(x, n)), and_(eq(r, x), eq(q, I(0)))),
                implies(and_(le(n, x), lt(x, mul(I(2), n))), and_(eq(r, sub(x, n)), eq(q, I(1)))),
                implies(and_(le(sub(I(0), n), x), lt(x, I(0))), and_(eq(r, add(x, n)), eq(q, I(-1)))),
                implies(
                    and_(le(mul(I(2), n), x), lt(x, mul(I(3), n))),
                    and_(eq(r, sub(x, mul(I(2), n))), eq(q, I(2))),
                ),
                implies(
                    and_(le(sub(I(0), mul(I(2), n)), x), lt(x, sub(I(0), n))),
                    and_(eq(r, add(x, mul(I(2), n))), eq(q, I(-2))),
                ),
            ),
        )
    ]


# ---------------------------------------------------------------- native evaluation
class EvalError(Exception):
    pass


def ev(t, env, funcs=None):
    """Evaluate natively. env: var-name -> python value.  funcs: name -> callable
    for uninterpreted functions.  Strings -> str, Seq -> tuple, Array -> dict
    with key '__default__'."""
    funcs = funcs or {}
    cache = {}

    def go(x, local):
        op, a = x.op, x.args
        if op in ("int", "bool", "str"):
            return a[0]
        if op == "var":
            if a[0] in local:
                return local[a[0]]
            if a[0] in env:
                return env[a[0]]
            raise EvalError("unbound variable %s" % a[0])
        if op == "+":
            return go(a[0], local) + go(a[1], local)
        if op == "-":
            if len(a) == 1:
                return -go(a[0], local)
            return go(a[0], local) - go(a[1], local)
        if op == "*":
            return go(a[0], local) * go(a[1], local)
        if op == "<=":
            return go(a[0], local) <= go(a[1], local)
        if op == "<":
            return go(a[0], local) < go(a[1], local)
        if op == "=":
            return go(a[0], local) == go(a[1], local)
        if op == "not":
            return not go(a[0], local)
        if op == "and":
            return all(go(y, local) for y in a)
        if op == "or":
            return any(go(y, local) for y in a)
        if op == "=>":
            return (not go(a[0], local)) or go(a[1], local)
        if op == "ite":
            return go(a[1], local) if go(a[0], local) else go(a[2], local)
        if op == "pymod":
            n = go(a[1], local)
            if n == 0:
                raise EvalError("mod by zero")
            return go(a[0], local) % n
        if op == "pydiv":
            n = go(a[1], local)
            if n == 0:
                raise EvalError("div by zero")
            return go(a[0], local) // n
        if op == "str.len":
            return len(go(a[0], local))
        if op == "str.++":
            return "".join(go(y, local) for y in a)
        if op in ("str.substr", "seq.extract"):
            s, off, ln = go(a[0], local), go(a[1], local), go(a[2], local)
            if off < 0 or off >= len(s) or ln <= 0:
                return s[0:0]
            return s[off:off + ln]
        if op == "str.contains":
            return go(a[1], local) in go(a[0], local)
        if op == "str.prefixof":
            return go(a[1], local).startswith(go(a[0], local))
        if op == "str.suffixof":
            return go(a[1], local).endswith(go(a[0], local))
        if op == "str.indexof":
            s, u, f = go(a[0], local), go(a[1], local), go(a[2], local)
            if f < 0 or f > len(s):
                return -1
            return s.find(u, f)
        if op == "str.at":
            s, i = go(a[0], local), go(a[1], local)
            return s[i] if 0 <= i < len(s) else ""
        if op == "str.from_int":
            i = go(a[0], local)
            return str(i) if i >= 0 else ""
        if op == "up":
            return go(a[0], local).upper()
        if op == "low":
            return go(a[0], local).lower()
        if op == "seq.len":
            return len(go(a[0], local))
        if op == "seq.++":
            r = ()
            for y in a:
                r = r + tuple(go(y, local))
            return r
        if op == "seq.empty":
            return ()
        if op == "seq.unit":
            return (go(a[0], local),)
        if op == "seq.nth":
            s, i = go(a[0], local), go(a[1], local)
            if 0 <= i < len(s):
                return s[i]
            raise EvalError("seq.nth out of range")
        if op == "select":
            arr, k = go(a[0], local), go(a[1], local)
            return arr.get(k, arr.get("__default__"))
        if op == "store":
            arr = dict(go(a[0], local))
            arr[go(a[1], local)] = go(a[2], local)
            return arr
        if op == "app":
            f = funcs.get(a[0])
            if f is None:
                if len(a) == 1 and a[0] in env:
                    return env[a[0]]
                raise EvalError("no native definition for %s" % a[0])
            return f(*[go(y, local) for y in a[1:]])
        if op in ("forall_range", "exists_range"):
            v, lo, hi, body = a
            lo_, hi_ = go(lo, local), go(hi, local)
            it = (go(body, dict(local, **{v.args[0]: j})) for j in range(lo_, hi_))
            return all(it) if op == "forall_range" else any(it)
        raise EvalError("cannot evaluate %s natively" % op)

    return go(t, {})


# ---------------------------------------------------------------- simplification under known literals
def rebuild(op, args, sort):
    if op == "+":
        return add(*args)
    if op == "-" and len(args) == 2:
        return sub(*args)
    if op == "*":
        return mul(*args)
    if op == "<=":
        return le(*args)
    if op == "<":
        return lt(*args)
    if op == "=":
        return eq(*args)
    if op == "not":
        return not_(args[0])
    if op == "and":
        return and_(*args)
    if op == "or":
        return or_(*args)
    if op == "=>":
        return implies(*args)
    if op == "ite":
        return ite(*args)
    if op == "str.++":
        return concat(*args)
    if op == "str.len":
        return slen(args[0])
    if op == "seq.++":
        return seqcat(*args)
    if op == "seq.len":
        return seqlen(args[0])
    if op == "pymod":
        return pymod(*args)
    if op == "pydiv":
        return pydiv(*args)
    return T(op, args, sort)


def unit_literals(pc):
    """atoms whose truth value is fixed by the path condition (syntactically)"""
    facts = {}
    todo = list(pc)
    while todo:
        c = todo.pop()
        if not isinstance(c, T) or c.sort != BOOL:
            continue
        if c.op == "and":
            todo.extend(c.args)
        elif c.op == "not":
            inner = c.args[0]
            if inner.op == "or":
                todo.extend(not_(x) for x in inner.args)
            else:
                facts[inner] = False
        elif c.op == "bool":
            continue
        else:
            facts[c] = True
    return facts


def simp(t, facts):
    """rewrite t bottom-up, replacing atoms with a known truth value; quantifier bodies are rewritten too"""
    cache = {}

    def go(x):
        if not isinstance(x, T):
            if isinstance(x, tuple):
                return tuple(go(y) if isinstance(y, T) and y.op != "var" else y for y in x)
            return x
        if x in cache:
            return cache[x]
        if x.sort == BOOL and x in facts:
            r = B(facts[x])
        elif x.op in ("int", "bool", "str", "var"):
            r = x
        elif x.op in ("forall", "exists"):
            r = T(x.op, (x.args[0], go(x.args[1])), BOOL)
            if is_const(r.args[1]):
                r = r.args[1]
        elif x.op in ("forall_range", "exists_range"):
            body = go(x.args[3])
            r = T(x.op, (x.args[0], go(x.args[1]), go(x.args[2]), body), BOOL)
        elif x.op == "app":
            r = T("app", (x.args[0],) + tuple(go(a) for a in x.args[1:]), x.sort)
        else:
            r = rebuild(x.op, tuple(go(a) for a in x.args), x.sort)
        cache[x] = r
        return r

    return go(t)


def simp_query(hyps, goal):
    """propagate unit literals of the hypotheses through hypotheses and goal (to a fixpoint, max 4 rounds)"""
    hyps = [lift(h) for h in hyps]
    for _ in range(4):
        facts = unit_literals(hyps)
        # do not rewrite a literal by itself: rewrite each hypothesis with the facts of the *others*
        new = []
        changed = False
        for h in hyps:
            own = unit_literals([h])
            f = {k: v for k, v in facts.items() if k not in own}
            h2 = simp(h, f) if f else h
            if h2 != h:
                changed = True
            if is_const(h2) and cval(h2):
                continue
            new.append(h2)
        g2 = simp(goal, facts) if facts else goal
        if g2 != goal:
            changed = True
        hyps, goal = new, g2
        if not changed:
            break
    return hyps, goal
