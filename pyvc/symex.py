# coding: utf-8
"""Symbolic executor over the real AST (DESIGN 2.1-2.5).

* every call to an in-repo function that has a sidecar contract is replaced by
  the contract (requires checked, ensures/raises assumed) -- never its body;
* in-repo callees without a contract are inlined (depth-limited);
* dependencies are modelled by assumed contracts (pyvc.models);
* loops use sidecar invariants (havoc / assume / preserve) or, for pure
  one-append-per-iteration loops over a pointwise list, the map-loop rule.

Outcomes are triples (state, tag, value) with tag in
ok | ret | raise | break | continue.
"""
from __future__ import annotations

import ast

from . import term as tm
from .term import T, INT, BOOL, STR
from .values import (
    Val, VT, VNone, NONE, NOTIMPL, VNotImplemented, VTuple, VList, VDict, VRepList, VObj, VClass, VFunc,
    VBound, VModel, VModule, VSlice, VSuper, VOpaque, State, new_oid,
)
from .repo import strip_docstring, ClassInfo
from .solve import Obligation

BUILTIN_EXC = {
    "BaseException": [],
    "Exception": ["BaseException"],
    "TypeError": ["Exception"],
    "ValueError": ["Exception"],
    "KeyError": ["LookupError"],
    "IndexError": ["LookupError"],
    "LookupError": ["Exception"],
    "AttributeError": ["Exception"],
    "RuntimeError": ["Exception"],
    "NotImplementedError": ["RuntimeError"],
    "ZeroDivisionError": ["ArithmeticError"],
    "ArithmeticError": ["Exception"],
    "ImportError": ["Exception"],
    "Warning": ["Exception"],
    "UserWarning": ["Warning"],
    "BiopythonWarning": ["Warning"],
    "StopIteration": ["Exception"],
}


class Unsupported(Exception):
    """construct outside the modelled subset: the function is *unreached*, never an alarm"""


class Frame(object):
    def __init__(self, module, cls=None, qual="", closure=None, depth=0):
        self.module = module
        self.cls = cls
        self.qual = qual
        self.closure = closure or {}
        self.depth = depth
        self.loop_ordinal = 0


class Executor(object):
    MAX_INLINE = 6

    def __init__(self, repo, models, contracts=None):
        self.repo = repo
        self.models = models
        self.contracts = contracts or {}
        self.obligs = []
        self.loopspecs = {}
        self.root = None  # (rel, qual) under verification
        self.loop_ids = {}  # id(ast loop node of the root function) -> ordinal in source order
        self.inlined = set()
        self.used_contracts = set()
        self.test_outcomes = {}        # (file, text of an `if` test) -> outcomes seen: "T" / "F" (a constant) / "sym"
        self.used_models = set()
        self.prop = None
        models.bind(self)

    # ------------------------------------------------------------------ utils
    def emit(self, name, st, goal, kind="A", text="", extra_hyps=(), meta=None, model_terms=None):
        ob = Obligation(name, list(st.pc) + list(extra_hyps), goal, kind=kind, prop=self.prop, text=text,
                        meta=meta, model_terms=model_terms,
                        decls=self.models.decls, sorts=self.models.sorts, defs=self.models.defs_for(goal, st.pc))
        self.obligs.append(ob)
        return ob

    def exc(self, st, clsname, args=(), mro=None):
        o = VObj("exc:" + clsname)
        st = st.set(o, "args", VTuple(list(args)))
        st = st.set(o, "__mro__", mro or self.exc_mro(clsname))
        return st, o

    def exc_mro(self, name):
        ci = self.repo.find_class(name)
        if ci is not None:
            return [c if isinstance(c, str) else c.name for c in self.class_mro_names(ci)]
        out, todo = [], [name]
        while todo:
            n = todo.pop(0)
            if n in out:
                continue
            out.append(n)
            todo.extend(BUILTIN_EXC.get(n, []))
        return out

    def raise_(self, st, clsname, *args):
        st, o = self.exc(st, clsname, args)
        return [(st, "raise", o)]

    def class_mro_names(self, ci):
        """approximate MRO: list of ClassInfo (repo) or str (dependency/builtin class names)"""
        out = []

        def visit(c):
            if isinstance(c, ClassInfo):
                out.append(c)
                for b in c.bases:
                    visit(self.resolve_base(c, b))
            else:
                out.append(c)
                for b in BUILTIN_EXC.get(c, []):
                    visit(b)

        visit(ci)
        seen, res = set(), []
        for c in reversed(out):  # keep last occurrence
            key = c.name if isinstance(c, ClassInfo) else c
            if key in seen:
                continue
            seen.add(key)
            res.append(c)
        return list(reversed(res))

    def resolve_base(self, ci, bname):
        head = bname.split("[")[0]
        parts = head.split(".")
        mod = ci.module
        if parts[0] in mod.classes:
            return mod.classes[parts[0]]
        imp = mod.imports.get(parts[0])
        if imp and imp[0] == "name":
            tgt = self.repo.by_dotted.get(imp[1])
            if tgt is not None and imp[2] in tgt.classes:
                return tgt.classes[imp[2]]
            sub = self.repo.by_dotted.get(imp[1] + "." + imp[2])
            if sub is not None and len(parts) > 1 and parts[1] in sub.classes:
                return sub.classes[parts[1]]
            return imp[2] if len(parts) == 1 else parts[-1]
        return parts[-1]

    def kind_mro(self, kind):
        ci = self.repo.find_class(kind)
        if ci is None:
            return [kind] + self.models.kind_bases(kind)
        res = []
        for c in self.class_mro_names(ci):
            if isinstance(c, ClassInfo):
                res.append(c)
            else:
                res.append(c)
                for b in self.models.kind_bases(c):
                    if b not in res:
                        res.append(b)
        return res

    def is_subkind(self, kind, target):
        if kind.startswith("exc:"):
            kind = kind[4:]
        for c in self.kind_mro(kind):
            name = c.name if isinstance(c, ClassInfo) else c
            if name == target:
                return True
        return False

    # ------------------------------------------------------------------ truthiness / conversion
    def truth(self, st, v):
        if isinstance(v, VT):
            if v.t.sort == BOOL:
                return v.t
            if v.t.sort == INT:
                return tm.ne(v.t, 0)
            if v.t.sort == STR:
                return tm.lt(0, tm.slen(v.t))
            if v.t.sort.startswith("(Seq"):
                return tm.lt(0, tm.seqlen(v.t))
        if isinstance(v, VNone):
            return tm.FALSE
        if isinstance(v, VList):
            return tm.B(len(st.get(v, "items")) > 0)
        if isinstance(v, VTuple):
            return tm.B(len(v.items) > 0)
        if isinstance(v, VDict):
            if st.get(v, "arr") is not None:
                from . import models_moclo as _mm
                return tm.ne(st.get(v, "arr").t, tm.constarr(_mm.MAP, _mm.ABSENT))
            return tm.B(len(st.get(v, "items")) > 0)
        if isinstance(v, VObj):
            t = self.models.truth(self, st, v)
            if t is not None:
                return t
            if v.kind in SIZED_KINDS:
                # a container: true iff non-empty -- decided from its modelled size, never assumed
                for f in ("len", "length"):
                    ln = st.get(v, f)
                    if isinstance(ln, VT) and ln.t.sort == INT:
                        return tm.lt(0, ln.t)
                raise Unsupported("truth of a %s whose size is not modelled" % v.kind)
            ci = self.repo.find_class(v.kind)
            if ci is not None:
                for c in self.kind_mro(v.kind):
                    if isinstance(c, ClassInfo) and ("__len__" in c.methods or "__bool__" in c.methods):
                        raise Unsupported("truth of a %s goes through its __len__ / __bool__" % v.kind)
            return tm.TRUE
        if isinstance(v, (VClass, VFunc, VBound, VModel, VModule)):
            return tm.TRUE
        if isinstance(v, VRepList):
            return tm.lt(0, v.length)
        raise Unsupported("truth of %r" % (v,))

    def branch(self, st, cond):
        """[(state, bool)] for the feasible-by-syntax branches of cond"""
        cond = tm.lift(cond)
        if tm.is_const(cond):
            return [(st, bool(tm.cval(cond)))]
        return [(st.assume(cond), True), (st.assume(tm.not_(cond)), False)]

    # ------------------------------------------------------------------ names
    def lookup_name(self, name, st, fr):
        if name in st.env:
            return st.env[name]
        if name in fr.closure:
            return fr.closure[name]
        return self.module_name(fr.module, name)

    def module_name(self, mod, name):
        if name in mod.classes:
            return VClass(name, mod.classes[name])
        if name in mod.functions:
            return VFunc(mod.functions[name], mod, qual=name)
        if name in mod.assigns:
            return self.const_expr(mod.assigns[name], mod)
        if name in mod.imports:
            imp = mod.imports[name]
            if imp[0] == "mod":
                tgt = self.repo.by_dotted.get(imp[1])
                if tgt is not None:
                    return VModule(imp[1], repo_module=tgt)
                return self.models.module(imp[1])
            _, base, attr = imp
            tgt = self.repo.by_dotted.get(base)
            sub = self.repo.by_dotted.get((base + "." + attr) if base else attr)
            if tgt is not None and (attr in tgt.classes or attr in tgt.functions or attr in tgt.assigns
                                    or attr in tgt.imports):
                return self.module_name(tgt, attr)
            if sub is not None:
                return VModule(sub.dotted, repo_module=sub)
            return self.models.external(base, attr)
        return self.models.builtin(name)

    def const_expr(self, node, mod):
        """module/class level constant expression"""
        st = State()
        fr = Frame(mod)
        outs = self.eval(node, st, fr)
        if len(outs) != 1 or outs[0][1] != "ok":
            raise Unsupported("non-constant module level expression %s" % ast.unparse(node))
        v = outs[0][2]
        if isinstance(v, (VDict, VList)):
            # keep the literal's content reachable without a heap: wrap
            return _Frozen(v, outs[0][0])
        return v

    # ------------------------------------------------------------------ expressions
    def eval(self, node, st, fr):
        m = getattr(self, "e_" + type(node).__name__, None)
        if m is None:
            raise Unsupported("expression %s" % type(node).__name__)
        return m(node, st, fr)

    def eval_list(self, nodes, st, fr):
        """evaluate in order; returns [(st, 'ok', [vals]) | (st,'raise',exc)]"""
        results = [(st, "ok", [])]
        for n in nodes:
            nxt = []
            for (s, tag, vals) in results:
                if tag != "ok":
                    nxt.append((s, tag, vals))
                    continue
                for (s2, tag2, v) in self.eval(n, s, fr):
                    if tag2 == "ok":
                        nxt.append((s2, "ok", vals + [v]))
                    else:
                        nxt.append((s2, tag2, v))
            results = nxt
        return results

    def bind(self, outs, fn):
        res = []
        for (s, tag, v) in outs:
            if tag == "ok":
                res.extend(fn(s, v))
            else:
                res.append((s, tag, v))
        return res

    def e_Constant(self, node, st, fr):
        v = node.value
        if v is None:
            return [(st, "ok", NONE)]
        if isinstance(v, bool):
            return [(st, "ok", VT(tm.B(v)))]
        if isinstance(v, int):
            return [(st, "ok", VT(tm.I(v)))]
        if isinstance(v, str):
            return [(st, "ok", VT(tm.S(v)))]
        raise Unsupported("constant %r" % (v,))

    def e_Name(self, node, st, fr):
        v = self.lookup_name(node.id, st, fr)
        if isinstance(v, _Frozen):
            st, v = v.thaw(st)
        return [(st, "ok", v)]

    def e_Tuple(self, node, st, fr):
        return [(s, tag, VTuple(v) if tag == "ok" else v) for (s, tag, v) in self.eval_list(node.elts, st, fr)]

    def e_List(self, node, st, fr):
        res = []
        for (s, tag, v) in self.eval_list(node.elts, st, fr):
            if tag == "ok":
                s, lst = self.new_list(s, v)
                res.append((s, "ok", lst))
            else:
                res.append((s, tag, v))
        return res

    def new_list(self, st, items):
        lst = VList(new_oid())
        st = st.set(lst, "items", list(items))
        return st, lst

    def new_dict(self, st, items):
        d = VDict(new_oid())
        st = st.set(d, "items", dict(items))
        return st, d

    def e_Dict(self, node, st, fr):
        res = []
        for (s, tag, ks) in self.eval_list(node.keys, st, fr):
            if tag != "ok":
                res.append((s, tag, ks))
                continue
            for (s2, tag2, vs) in self.eval_list(node.values, s, fr):
                if tag2 != "ok":
                    res.append((s2, tag2, vs))
                    continue
                items = {}
                for k, v in zip(ks, vs):
                    items[self.const_key(k)] = v
                s3, d = self.new_dict(s2, items)
                res.append((s3, "ok", d))
        return res

    def const_key(self, k):
        if isinstance(k, VT) and tm.is_const(k.t):
            return tm.cval(k.t)
        raise Unsupported("non-constant dict literal key")

    def e_IfExp(self, node, st, fr):
        res = []
        for (s, tag, c) in self.eval(node.test, st, fr):
            if tag != "ok":
                res.append((s, tag, c))
                continue
            for (s2, b) in self.branch(s, self.truth(s, c)):
                res.extend(self.eval(node.body if b else node.orelse, s2, fr))
        return res

    def e_BoolOp(self, node, st, fr):
        is_and = isinstance(node.op, ast.And)

        def go(idx, s):
            outs = self.eval(node.values[idx], s, fr)
            if idx == len(node.values) - 1:
                return outs
            res = []
            for (s2, tag, v) in outs:
                if tag != "ok":
                    res.append((s2, tag, v))
                    continue
                for (s3, b) in self.branch(s2, self.truth(s2, v)):
                    if b == is_and:
                        res.extend(go(idx + 1, s3))
                    else:
                        res.append((s3, "ok", v))
            return res

        outs = go(0, st)
        return self.merge_bool(st, outs)

    def merge_bool(self, st0, outs):
        """merge pure boolean outcomes of a short-circuit expression back into one term"""
        if len(outs) <= 1:
            return outs
        if not all(tag == "ok" and isinstance(v, VT) and v.t.sort == BOOL and s.heap is not None
                   for (s, tag, v) in outs):
            return outs
        base = len(st0.pc)
        if not all(s.pc[:base] == st0.pc and s.heap == st0.heap and s.env == st0.env for (s, _, _) in outs):
            return outs
        disj = []
        for (s, _, v) in outs:
            disj.append(tm.and_(*(list(s.pc[base:]) + [v.t])))
        return [(st0, "ok", VT(tm.or_(*disj)))]

    def e_UnaryOp(self, node, st, fr):
        def fn(s, v):
            if isinstance(node.op, ast.Not):
                return [(s, "ok", VT(tm.not_(self.truth(s, v))))]
            if isinstance(node.op, ast.USub) and isinstance(v, VT) and v.t.sort == INT:
                return [(s, "ok", VT(tm.sub(0, v.t)))]
            raise Unsupported("unary %s" % ast.dump(node.op))

        return self.bind(self.eval(node.operand, st, fr), fn)

    def e_BinOp(self, node, st, fr):
        res = []
        for (s, tag, vals) in self.eval_list([node.left, node.right], st, fr):
            if tag != "ok":
                res.append((s, tag, vals))
                continue
            res.extend(self.binop(node.op, vals[0], vals[1], s, fr))
        return res

    def binop(self, op, a, b, st, fr):
        if isinstance(a, VT) and isinstance(b, VT):
            sa, sb = a.t.sort, b.t.sort
            if sa == INT and sb == INT:
                if isinstance(op, ast.Add):
                    return [(st, "ok", VT(tm.add(a.t, b.t)))]
                if isinstance(op, ast.Sub):
                    return [(st, "ok", VT(tm.sub(a.t, b.t)))]
                if isinstance(op, ast.Mult):
                    return [(st, "ok", VT(tm.mul(a.t, b.t)))]
                if isinstance(op, (ast.Mod, ast.FloorDiv)):
                    res = []
                    for (s2, zero) in self.branch(st, tm.eq(b.t, 0)):
                        if zero:
                            res.extend(self.raise_(s2, "ZeroDivisionError"))
                        else:
                            # python semantics encoded for positive divisors only
                            self.emit("%s::divisor-positive@%d" % (fr.qual, getattr(op, "lineno", 0)), s2,
                                      tm.lt(0, b.t), kind="A", text="divisor of %/ // is positive")
                            f = tm.pymod if isinstance(op, ast.Mod) else tm.pydiv
                            res.append((s2, "ok", VT(f(a.t, b.t))))
                    return res
            if sa == STR and sb == STR and isinstance(op, ast.Add):
                return [(st, "ok", VT(tm.concat(a.t, b.t)))]
            if sa == STR and sb == INT and isinstance(op, ast.Mult):
                if tm.is_const(b.t):
                    return [(st, "ok", VT(tm.concat(*([a.t] * max(0, tm.cval(b.t))))))]
                raise Unsupported("str * symbolic int")
            if sa.startswith("(Seq") and sa == sb and isinstance(op, ast.Add):
                return [(st, "ok", VT(tm.seqcat(a.t, b.t), "list"))]
            if sa == STR and isinstance(op, ast.Mod):
                return [(st, "ok", VT(tm.approx("fmt", STR)))]
        if isinstance(a, VList) and isinstance(b, VList) and isinstance(op, ast.Add):
            st, lst = self.new_list(st, list(st.get(a, "items")) + list(st.get(b, "items")))
            return [(st, "ok", lst)]
        if isinstance(b, VT) and b.t.sort.startswith("(Seq") and isinstance(a, VList) and isinstance(op, ast.Add):
            t = tm.seqempty(tm.elem_sort(b.t.sort))
            for it in st.get(a, "items"):
                t = tm.seqcat(t, tm.sequnit(self.models.as_elem(self, st, it, tm.elem_sort(b.t.sort))))
            return [(st, "ok", VT(tm.seqcat(t, b.t) if t.op != "seq.empty" else b.t, "list"))]
        if isinstance(a, VT) and a.t.sort.startswith("(Seq") and isinstance(b, VList) and isinstance(op, ast.Add):
            t = a.t
            for it in st.get(b, "items"):
                t = tm.seqcat(t, tm.sequnit(self.models.as_elem(self, st, it, tm.elem_sort(a.t.sort))))
            return [(st, "ok", VT(t, "list"))]
        if isinstance(a, VObj) or isinstance(b, VObj):
            opname = {ast.Add: "add", ast.RShift: "rshift", ast.LShift: "lshift", ast.Mult: "mul",
                      ast.Mod: "mod"}.get(type(op))
            if opname is None:
                raise Unsupported("binop %s on objects" % type(op).__name__)
            if isinstance(a, VObj):
                return self.call_method(a, "__%s__" % opname, [b], {}, st, fr)
            return self.call_method(b, "__r%s__" % opname, [a], {}, st, fr)
        raise Unsupported("binop %s on %r, %r" % (type(op).__name__, a, b))

    def e_Compare(self, node, st, fr):
        operands = [node.left] + list(node.comparators)

        def go(idx, s, left, acc):
            # acc: accumulated Bool term for previous links
            outs = self.eval(operands[idx + 1], s, fr)
            res = []
            for (s2, tag, right) in outs:
                if tag != "ok":
                    res.append((s2, tag, right))
                    continue
                for (s3, tag3, c) in self.compare(node.ops[idx], left, right, s2, fr):
                    if tag3 != "ok":
                        res.append((s3, tag3, c))
                        continue
                    cur = tm.and_(acc, c.t)
                    if idx + 1 == len(node.ops):
                        res.append((s3, "ok", VT(cur)))
                    else:
                        # chained comparison: later operands are evaluated only if true so far;
                        # all operands here are side-effect free expressions, fold into one term
                        res.extend(go(idx + 1, s3, right, cur))
            return res

        res = []
        for (s, tag, left) in self.eval(operands[0], st, fr):
            if tag != "ok":
                res.append((s, tag, left))
            else:
                res.extend(go(0, s, left, tm.TRUE))
        return res

    def compare(self, op, a, b, st, fr):
        def ok(t):
            return [(st, "ok", VT(t))]

        if isinstance(op, (ast.Is, ast.IsNot)):
            t = self.identical(st, a, b)
            return ok(t if isinstance(op, ast.Is) else tm.not_(t))
        if isinstance(op, (ast.In, ast.NotIn)):
            outs = self.contains(b, a, st, fr)
            if isinstance(op, ast.In):
                return outs
            return [(s, tag, VT(tm.not_(v.t)) if tag == "ok" else v) for (s, tag, v) in outs]
        if isinstance(a, VT) and isinstance(b, VT) and a.t.sort == b.t.sort:
            if isinstance(op, ast.Eq):
                return ok(tm.eq(a.t, b.t))
            if isinstance(op, ast.NotEq):
                return ok(tm.ne(a.t, b.t))
            if a.t.sort == INT:
                if isinstance(op, ast.Lt):
                    return ok(tm.lt(a.t, b.t))
                if isinstance(op, ast.LtE):
                    return ok(tm.le(a.t, b.t))
                if isinstance(op, ast.Gt):
                    return ok(tm.lt(b.t, a.t))
                if isinstance(op, ast.GtE):
                    return ok(tm.le(b.t, a.t))
        if isinstance(op, (ast.Eq, ast.NotEq)):
            outs = self.equals(a, b, st, fr)
            if isinstance(op, ast.Eq):
                return outs
            return [(s, tag, VT(tm.not_(v.t)) if tag == "ok" else v) for (s, tag, v) in outs]
        raise Unsupported("compare %s on %r, %r" % (type(op).__name__, a, b))

    def identical(self, st, a, b):
        if isinstance(a, VNone) or isinstance(b, VNone):
            if isinstance(a, VNone) and isinstance(b, VNone):
                return tm.TRUE
            other = b if isinstance(a, VNone) else a
            t = self.models.is_none(self, st, other)
            return t if t is not None else tm.FALSE
        if isinstance(a, VNotImplemented) or isinstance(b, VNotImplemented):
            if isinstance(a, VObj) or isinstance(b, VObj):
                t = self.models.identical(self, st, a, b)     # a value whose identity with the singleton is symbolic
                if t is not None:
                    return t
            return tm.B(isinstance(a, VNotImplemented) and isinstance(b, VNotImplemented))
        if isinstance(a, VObj) and isinstance(b, VObj):
            t = self.models.identical(self, st, a, b)
            if t is not None:
                return t
            return tm.B(a.oid == b.oid)
        if isinstance(a, VClass) and isinstance(b, VClass):
            return tm.B(a.name == b.name)
        if isinstance(a, VT) and isinstance(b, VT) and a.t.sort == b.t.sort and a.t.sort == BOOL:
            return tm.eq(a.t, b.t)
        return tm.FALSE

    def equals(self, a, b, st, fr):
        if isinstance(a, VObj):
            return self.call_method(a, "__eq__", [b], {}, st, fr)
        if isinstance(b, VObj):
            return self.call_method(b, "__eq__", [a], {}, st, fr)
        if isinstance(a, VNone) or isinstance(b, VNone):
            return [(st, "ok", VT(self.identical(st, a, b)))]
        if isinstance(a, VT) and isinstance(b, VT):
            if a.t.sort == b.t.sort and a.py == b.py:
                return [(st, "ok", VT(tm.eq(a.t, b.t)))]
            if a.t.sort == b.t.sort and {a.py, b.py} <= {"int", "bool"}:
                return [(st, "ok", VT(tm.eq(a.t, b.t)))]
            if a.t.sort != b.t.sort and {a.py, b.py} <= {"str", "int", "bool"}:
                return [(st, "ok", VT(tm.FALSE))]  # different python types (str vs int ...)
            raise Unsupported("== on %r, %r" % (a, b))
        raise Unsupported("== on %r, %r" % (a, b))

    def contains(self, container, item, st, fr):
        if isinstance(container, VT) and container.t.sort == STR and isinstance(item, VT) and item.t.sort == STR:
            return [(st, "ok", VT(tm.contains(container.t, item.t)))]
        if isinstance(container, VDict) and st.get(container, "arr") is not None:
            from . import models_moclo as _mm
            kt = self.models.text(st, item)
            return [(st, "ok", VT(tm.ne(tm.select(st.get(container, "arr").t, kt), _mm.ABSENT)))]
        if isinstance(container, VDict):
            items = st.get(container, "items")
            if isinstance(item, VT) and item.t.sort == STR:
                return [(st, "ok", VT(tm.or_(*[tm.eq(item.t, tm.S(k)) for k in items if isinstance(k, str)])))]
        if isinstance(container, VObj):
            return self.call_method(container, "__contains__", [item], {}, st, fr)
        if isinstance(container, (VTuple, VList)):
            # language reference 6.10.2: `x in y` for a tuple / list is any(x is e or x == e for e in y)
            elems = list(container.items if isinstance(container, VTuple) else st.get(container, "items"))
            outs = [(st, tm.FALSE)]
            for e in elems:
                nxt = []
                for (s, acc) in outs:
                    same = self.identical(s, item, e)
                    for (s2, tag, c) in self.equals(item, e, s, fr) if not (tm.is_const(same) and tm.cval(same)) else [
                            (s, "ok", VT(tm.TRUE))]:
                        if tag != "ok":
                            # an exception out of __eq__ only happens if no earlier element matched
                            nxt.append((s2.assume(tm.not_(acc)), tag, c))
                            continue
                        nxt.append((s2, tm.or_(acc, same, c.t)))
                outs = [o for o in nxt if len(o) == 2]
                raised = [o for o in nxt if len(o) == 3]
                if raised:
                    raise Unsupported("exception out of __eq__ inside a membership test")
            return [(s, "ok", VT(acc)) for (s, acc) in outs]
        if isinstance(container, VT) and container.t.sort.startswith("(Seq"):
            e = self.models.as_elem(self, st, item, tm.elem_sort(container.t.sort))
            return [(st, "ok", VT(T("seq.contains", (container.t, tm.sequnit(e)), BOOL)))]
        raise Unsupported("in on %r" % (container,))

    def e_Attribute(self, node, st, fr):
        return self.bind(self.eval(node.value, st, fr), lambda s, v: self.getattr(v, node.attr, s, fr))

    def getattr(self, v, attr, st, fr):
        if isinstance(v, VModule):
            if v.repo_module is not None:
                return [(st, "ok", self.module_name(v.repo_module, attr))]
            if attr in v.attrs:
                return [(st, "ok", v.attrs[attr])]
            return [(st, "ok", self.models.external(v.name, attr))]
        if isinstance(v, VObj):
            f = st.get(v, attr)
            if f is not None:
                return [(st, "ok", f)]
            hook = self.models.instance_attr(self, st, v, attr)
            if hook is not None:
                return hook
            return self.class_attr(v.kind, attr, st, fr, self_val=v)
        if isinstance(v, VClass):
            cell = self.models.class_cell(self, st, v, attr)
            if cell is not None:
                return cell
            if attr == "__name__":
                return [(st, "ok", VT(tm.S(v.name)))]
            return self.class_attr(v.name, attr, st, fr, self_val=None, cls_val=v)
        if isinstance(v, VSuper):
            return self.class_attr(v.self_val.kind if isinstance(v.self_val, VObj) else v.self_val.name, attr, st, fr,
                                   self_val=v.self_val if isinstance(v.self_val, VObj) else None,
                                   cls_val=v.self_val if isinstance(v.self_val, VClass) else None,
                                   after=v.cls.name)
        if isinstance(v, VSlice) and attr in ("start", "stop", "step"):
            got = {"start": v.lo, "stop": v.hi, "step": v.step}[attr]
            return [(st, "ok", NONE if got is None else got)]
        if isinstance(v, VFunc) and attr == "__name__":
            return [(st, "ok", VT(tm.S(v.node.name)))]
        if isinstance(v, (VT, VList, VDict, VTuple, VRepList)):
            m = self.models.value_method(self, st, v, attr)
            if m is not None:
                return [(st, "ok", m)]
            if isinstance(v, VList):
                if hasattr(list, attr):
                    raise Unsupported("list.%s is not modelled" % attr)      # a gap of the model, not an error of the code
                return self.raise_(st, "AttributeError", VT(tm.S("'list' object has no attribute '%s'" % attr)))
        raise Unsupported("attribute %s of %r" % (attr, v))

    def class_attr(self, kind, attr, st, fr, self_val=None, cls_val=None, after=None):
        mro = self.kind_mro(kind)
        if after is not None:
            names = [c.name if isinstance(c, ClassInfo) else c for c in mro]
            if after in names:
                mro = mro[names.index(after) + 1:]
        for c in mro:
            if isinstance(c, ClassInfo):
                if attr in c.methods:
                    node = c.methods[attr]
                    decos = c.decorators[attr]
                    fn = VFunc(node, c.module, cls=c, qual="%s.%s" % (c.name, attr))
                    if "classmethod" in decos:
                        bound_cls = cls_val
                        if bound_cls is None and self_val is not None:
                            bound_cls = st.get(self_val, "__class__")
                        return [(st, "ok", VBound(fn, bound_cls or VClass(kind, self.repo.find_class(kind)), c))]
                    if "staticmethod" in decos:
                        return [(st, "ok", fn)]
                    if any(d in ("property", "cached_property") for d in decos) and self_val is not None:
                        cached = "cached_property" in decos
                        ckey = "__cache__%s.%s" % (c.name, attr)   # D-CACHE: one cache per descriptor and instance
                        if cached:
                            got = st.get(self_val, ckey)
                            if got is not None:
                                return [(st, "ok", got)]
                        outs = self.call_function(fn, [self_val], {}, st, fr)
                        if cached:
                            self.used_models.add("D-CACHE")
                            outs = [((s.set(self_val, ckey, v) if tag == "ok" else s), tag, v)
                                    for (s, tag, v) in outs]
                        return outs
                    other = [d for d in decos if d not in ("classmethod", "staticmethod", "abc.abstractmethod")]
                    if other:
                        # generic in-repo decorator: apply it symbolically
                        outs = []
                        for dname in reversed(other):
                            outs = self.apply_decorator(dname, fn, c, st, fr)
                            if len(outs) != 1 or outs[0][1] != "ok":
                                raise Unsupported("decorator %s" % dname)
                            st, fn = outs[0][0], outs[0][2]
                    if self_val is not None:
                        return [(st, "ok", VBound(fn, self_val, c))]
                    return [(st, "ok", fn)]
                if attr in c.attrs:
                    outs = self.eval(c.attrs[attr], st, Frame(c.module, c))
                    return outs
            else:
                m = self.models.kind_attr(self, st, c, attr, self_val, cls_val)
                if m is not None:
                    return m
        # an attribute nobody in the MRO defines: a genuine AttributeError only when the whole MRO is in-repo code
        # (plus `object`); on a modelled dependency kind it is a gap of the model -> the function is unreached
        deps = [c for c in mro if not isinstance(c, ClassInfo) and c != "object"]
        if deps:
            raise Unsupported("attribute %s of dependency kind %s is not modelled" % (attr, deps[0]))
        if self_val is not None and st.get(self_val, "__constructed__") is not True:
            # an object described by a sidecar contract (setup / result skeleton), not built by the real constructor
            # on this path: the contract cannot know an attribute that a changed constructor now sets, so this is a
            # gap of the description, never an AttributeError of the code -> the function is unreached
            raise Unsupported("attribute %s of a %s described by a contract (not constructed on this path)" % (attr, kind))
        return self.raise_(st, "AttributeError", VT(tm.S("no attribute %s" % attr)))

    def apply_decorator(self, dname, fn, ci, st, fr):
        node = ast.parse(dname, mode="eval").body
        outs = self.eval(node, st, Frame(ci.module, ci))
        res = []
        for (s, tag, d) in outs:
            if tag != "ok":
                res.append((s, tag, d))
                continue
            res.extend(self.call(d, [fn], {}, s, fr))
        return res

    def e_Subscript(self, node, st, fr):
        def fn(s, v):
            sl = node.slice
            if isinstance(sl, ast.Slice):
                parts = [sl.lower, sl.upper, sl.step]
                res = []

                def go(i, s2, acc):
                    if i == 3:
                        return self.subscript(v, VSlice(*acc), s2, fr)
                    if parts[i] is None:
                        return go(i + 1, s2, acc + [None])
                    return self.bind(self.eval(parts[i], s2, fr), lambda s3, x: go(i + 1, s3, acc + [x]))

                return go(0, s, [])
            return self.bind(self.eval(sl, s, fr), lambda s2, idx: self.subscript(v, idx, s2, fr))

        return self.bind(self.eval(node.value, st, fr), fn)

    def slice_terms(self, sl):
        def t(x):
            if x is None:
                return None
            if isinstance(x, VT) and x.t.sort == INT:
                return x.t
            if isinstance(x, VNone):
                return None
            raise Unsupported("slice bound %r" % (x,))

        if sl.step is not None and not (isinstance(sl.step, VT) and tm.is_const(sl.step.t) and tm.cval(sl.step.t) == 1):
            raise Unsupported("slice step")
        return t(sl.lo), t(sl.hi)

    def subscript(self, v, idx, st, fr):
        if isinstance(v, VT) and (v.t.sort == STR or v.t.sort.startswith("(Seq")):
            n = tm.slen(v.t) if v.t.sort == STR else tm.seqlen(v.t)
            if isinstance(idx, VSlice):
                lo, hi = self.slice_terms(idx)
                return [(st, "ok", VT(tm.pyslice(v.t, lo, hi), v.py))]
            if isinstance(idx, VT) and idx.t.sort == INT:
                res = []
                inr = tm.and_(tm.le(tm.sub(0, n), idx.t), tm.lt(idx.t, n))
                for (s2, b) in self.branch(st, inr):
                    if b:
                        j = tm.ite(tm.lt(idx.t, 0), tm.add(idx.t, n), idx.t)
                        if v.t.sort == STR:
                            res.append((s2, "ok", VT(tm.char_at(v.t, j))))
                        else:
                            res.append((s2, "ok", self.models.from_elem(self, s2, tm.seqnth(v.t, j))))
                    else:
                        res.extend(self.raise_(s2, "IndexError"))
                return res
        if isinstance(v, VTuple) or isinstance(v, VList):
            items = v.items if isinstance(v, VTuple) else st.get(v, "items")
            if isinstance(idx, VT) and tm.is_const(idx.t):
                i = tm.cval(idx.t)
                if -len(items) <= i < len(items):
                    return [(st, "ok", items[i])]
                return self.raise_(st, "IndexError")
            if isinstance(idx, VSlice):
                lo, hi = self.slice_terms(idx)
                if all(x is None or tm.is_const(x) for x in (lo, hi)):
                    sl = slice(None if lo is None else tm.cval(lo), None if hi is None else tm.cval(hi))
                    if isinstance(v, VTuple):
                        return [(st, "ok", VTuple(items[sl]))]
                    st, l2 = self.new_list(st, items[sl])
                    return [(st, "ok", l2)]
        if isinstance(v, VDict) and (st.get(v, "arr") is not None or isinstance(idx, VObj)
                                     or (isinstance(idx, VT) and idx.t.sort == STR and not tm.is_const(idx.t)
                                         and not st.get(v, "items"))):
            if isinstance(idx, VT):
                st = st.fork()
                idx = self.models.mk_seq(st, idx.t)
            m = self.models.value_method(self, st, v, "get")
            from . import models_moclo as _mm
            return _mm._wrap_dict_method("__getitem__", None)(self, st, fr, v, [idx], {})
        if isinstance(v, VDict):
            items = st.get(v, "items")
            if isinstance(idx, VT) and tm.is_const(idx.t):
                k = tm.cval(idx.t)
                if k in items:
                    return [(st, "ok", items[k])]
                return self.raise_(st, "KeyError", idx)
            if isinstance(idx, VT) and idx.t.sort == STR:
                res = []
                none = []
                for k, val in items.items():
                    if not isinstance(k, str):
                        continue
                    s2 = st.assume(tm.eq(idx.t, tm.S(k)), *none)
                    res.append((s2, "ok", val))
                    none.append(tm.ne(idx.t, tm.S(k)))
                res.extend(self.raise_(st.assume(*none), "KeyError", idx))
                return res
        if isinstance(v, VObj):
            return self.call_method(v, "__getitem__", [idx], {}, st, fr)
        if isinstance(v, VRepList):
            return [(st, "ok", v.rep)]
        raise Unsupported("subscript of %r by %r" % (v, idx))

    def e_JoinedStr(self, node, st, fr):
        """f"...{e}..." : exact when every field is a plain `{e}` (no conversion, no format spec) of a str / int / Seq
        value -- the same text as "...{}...".format(e); anything else is an unmodelled text (tm.approx)"""
        outs = [(st, [])]
        res = []
        for part in node.values:
            nxt = []
            for (s, pieces) in outs:
                if isinstance(part, ast.Constant):
                    nxt.append((s, pieces + [tm.S(str(part.value))]))
                    continue
                if not isinstance(part, ast.FormattedValue):
                    raise Unsupported("f-string part %r" % (part,))
                for (s2, tag, v) in self.eval(part.value, s, fr):
                    if tag != "ok":
                        res.append((s2, tag, v))
                        continue
                    if part.conversion != -1 or part.format_spec is not None:
                        nxt.append((s2, pieces + [tm.approx("fstr", STR)]))
                        continue
                    for (s3, tag3, sv) in self.call(self.models.builtin("str"), [v], {}, s2, fr):
                        if tag3 != "ok":
                            res.append((s3, tag3, sv))
                        else:
                            nxt.append((s3, pieces + [sv.t]))
            outs = nxt
        return res + [(s, "ok", VT(tm.concat(*pieces) if pieces else tm.S(""))) for (s, pieces) in outs]

    def e_Yield(self, node, st, fr):
        if "yielded" not in st.ghost:
            raise Unsupported("yield outside a generator function under execution")
        if node.value is None:
            raise Unsupported("bare yield")

        def fn(s, v):
            if not (isinstance(v, VT) and v.t.sort == STR):
                raise Unsupported("yield of a non-string value %r" % (v,))
            s = s.fork()
            s.ghost["yielded"] = tm.seqcat(s.ghost["yielded"], tm.sequnit(v.t))
            return [(s, "ok", NONE)]

        return self.bind(self.eval(node.value, st, fr), fn)

    def e_YieldFrom(self, node, st, fr):
        """`yield from X` for an X that yields a known sequence of strings: the ghost sequence grows by all of X"""
        if "yielded" not in st.ghost:
            raise Unsupported("yield from outside a generator function under execution")

        def fn(s, v):
            if not (isinstance(v, VT) and v.t.sort == tm.seq_sort(STR)):
                raise Unsupported("yield from %r" % (v,))
            s = s.fork()
            s.ghost["yielded"] = v.t if s.ghost["yielded"].op == "seq.empty" else tm.seqcat(s.ghost["yielded"], v.t)
            return [(s, "ok", NONE)]

        return self.bind(self.eval(node.value, st, fr), fn)

    def e_Lambda(self, node, st, fr):
        raise Unsupported("lambda")

    def e_GeneratorExp(self, node, st, fr):
        return self.comprehension(node, st, fr, "gen")

    def e_ListComp(self, node, st, fr):
        return self.comprehension(node, st, fr, "list")

    def e_DictComp(self, node, st, fr):
        return self.comprehension(node, st, fr, "dict")

    def comprehension(self, node, st, fr, what):
        if len(node.generators) != 1 or node.generators[0].ifs:
            raise Unsupported("comprehension shape")
        gen = node.generators[0]

        def fn(s, it):
            return self.models.comprehension(self, s, fr, node, gen, it, what)

        return self.bind(self.eval(gen.iter, st, fr), fn)

    # ------------------------------------------------------------------ calls
    def _count_idiom(self, node, st, fr):
        """sum(1 for _ in X): the number of items X yields"""
        g = node.args[0]
        gen = g.generators[0]

        def fn(s, it):
            if isinstance(it, VObj):
                outs = self.call_method(it, "__iter__", [], {}, s, fr)
            else:
                outs = [(s, "ok", it)]
            res = []
            for (s2, tag, v) in outs:
                if tag != "ok":
                    res.append((s2, tag, v))
                elif isinstance(v, VT) and v.t.sort.startswith("(Seq"):
                    res.append((s2, "ok", VT(tm.seqlen(v.t))))
                elif isinstance(v, (VList, VTuple)):
                    res.append((s2, "ok", VT(tm.I(len(s2.get(v, "items") if isinstance(v, VList) else v.items)))))
                else:
                    raise Unsupported("sum(1 for _ in %r)" % (v,))
            return res

        return self.bind(self.eval(gen.iter, st, fr), fn)

    def _any_idiom(self, node, st, fr):
        """any(P(x) for x in S) over a symbolic sequence S: exists i in [0, |S|). P(S[i]) -- P must be a pure expression
        with a single, non-exceptional outcome"""
        g = node.args[0]
        gen = g.generators[0]

        def fn(s, it):
            if isinstance(it, (VList, VTuple)):
                items = list(s.get(it, "items")) if isinstance(it, VList) else list(it.items)
                acc, cur = tm.FALSE, s
                for item in items:
                    outs = [(s1, t1, v1) for (s0, _t0, _v0) in self.assign(gen.target, item, cur, fr)
                            for (s1, t1, v1) in self.eval(g.elt, s0, fr)]
                    if len(outs) != 1 or outs[0][1] != "ok":
                        raise Unsupported("any() over an expression with several outcomes")
                    acc = tm.or_(acc, self.truth(outs[0][0], outs[0][2]))
                return [(s, "ok", VT(acc))]
            if not (isinstance(it, VT) and it.t.sort.startswith("(Seq")):
                raise Unsupported("any() over %r" % (it,))
            i = tm.V("any_i!%d" % next(tm._fresh), INT)
            elem = self.models.from_elem(self, s, tm.seqnth(it.t, i)) if tm.elem_sort(it.t.sort) != STR else VT(tm.seqnth(it.t, i))
            outs = [(s1, t1, v1) for (s0, _t0, _v0) in self.assign(gen.target, elem, s, fr) for (s1, t1, v1) in self.eval(g.elt, s0, fr)]
            if len(outs) != 1 or outs[0][1] != "ok":
                raise Unsupported("any() over an expression with several outcomes")
            body = self.truth(outs[0][0], outs[0][2])
            return [(s, "ok", VT(tm.exists_range(i, 0, tm.seqlen(it.t), body)))]

        return self.bind(self.eval(gen.iter, st, fr), fn)

    def e_Call(self, node, st, fr):
        if (isinstance(node.func, ast.Name) and node.func.id == "any" and len(node.args) == 1 and not node.keywords
                and isinstance(node.args[0], ast.GeneratorExp) and len(node.args[0].generators) == 1
                and not node.args[0].generators[0].ifs):
            return self._any_idiom(node, st, fr)
        if (isinstance(node.func, ast.Name) and node.func.id == "sum" and len(node.args) == 1 and not node.keywords
                and isinstance(node.args[0], ast.GeneratorExp) and isinstance(node.args[0].elt, ast.Constant)
                and node.args[0].elt.value == 1 and len(node.args[0].generators) == 1 and not node.args[0].generators[0].ifs):
            return self._count_idiom(node, st, fr)
        # super() with or without arguments
        if isinstance(node.func, ast.Name) and node.func.id == "super":
            if fr.cls is None or "self" not in st.env and "cls" not in st.env:
                raise Unsupported("super outside method")
            selfv = st.env.get("self", st.env.get("cls"))
            return [(st, "ok", VSuper(fr.cls, selfv))]

        # `record.features.append(feature)` on a value-modelled feature table (functional update of the field)
        if (isinstance(node.func, ast.Attribute) and node.func.attr == "append" and isinstance(node.func.value, ast.Attribute)
                and node.func.value.attr == "features" and len(node.args) == 1 and not node.keywords):
            res = []
            for (s, tag, vals) in self.eval_list([node.func.value.value, node.args[0]], st, fr):
                if tag != "ok":
                    res.append((s, tag, vals))
                    continue
                owner, feat = vals
                cur = s.get(owner, "features") if isinstance(owner, VObj) else None
                if isinstance(cur, VT) and hasattr(self.models, "features_append"):
                    res.append((self.models.features_append(self, s, owner, feat), "ok", NONE))
                elif isinstance(cur, VList):
                    res.append((s.set(cur, "items", list(s.get(cur, "items")) + [feat]), "ok", NONE))
                else:
                    raise Unsupported("features.append on %r" % (cur,))
            return res

        # `name.append(x)` on a local bound to a symbolic sequence: rebinding of the local
        if (isinstance(node.func, ast.Attribute) and node.func.attr == "append" and isinstance(node.func.value, ast.Name)
                and isinstance(st.env.get(node.func.value.id), VT) and st.env[node.func.value.id].t.sort.startswith("(Seq")
                and len(node.args) == 1 and not node.keywords):
            res = []
            cur = st.env[node.func.value.id]
            for (s, tag, v) in self.eval(node.args[0], st, fr):
                if tag != "ok":
                    res.append((s, tag, v))
                    continue
                e = self.models.as_elem(self, s, v, tm.elem_sort(cur.t.sort))
                res.append((s.with_env(node.func.value.id, VT(tm.seqcat(cur.t, tm.sequnit(e)), "list")), "ok", NONE))
            return res

        def after_func(s, f):
            pos_nodes = []
            star = None
            for a in node.args:
                if isinstance(a, ast.Starred):
                    star = a.value
                else:
                    if star is not None:
                        raise Unsupported("positional after *args")
                    pos_nodes.append(a)
            kw_nodes = [(k.arg, k.value) for k in node.keywords]
            res = []
            for (s2, tag, vals) in self.eval_list(pos_nodes + ([star] if star is not None else [])
                                                  + [v for (_, v) in kw_nodes], s, fr):
                if tag != "ok":
                    res.append((s2, tag, vals))
                    continue
                args = list(vals[: len(pos_nodes)])
                rest = vals[len(pos_nodes):]
                if star is not None:
                    sv = rest[0]
                    rest = rest[1:]
                    if isinstance(sv, VTuple):
                        args.extend(sv.items)
                    elif isinstance(sv, VList):
                        args.extend(s2.get(sv, "items"))
                    else:
                        args.append(_Star(sv))
                kwargs = {}
                for (k, _), v in zip(kw_nodes, rest):
                    if k is None:
                        if isinstance(v, VDict):
                            kwargs.update(s2.get(v, "items"))
                        else:
                            raise Unsupported("**kwargs of %r" % (v,))
                    else:
                        kwargs[k] = v
                res.extend(self.call(f, args, kwargs, s2, fr))
            return res

        return self.bind(self.eval(node.func, st, fr), after_func)

    def call(self, f, args, kwargs, st, fr):
        if isinstance(f, VModel):
            self.used_models.add(f.name)
            if f.self_val is not None:
                return f.fn(self, st, fr, f.self_val, args, kwargs)
            return f.fn(self, st, fr, args, kwargs)
        if isinstance(f, VBound):
            return self.call_function(f.func, [f.self_val] + list(args), kwargs, st, fr)
        if isinstance(f, VFunc):
            return self.call_function(f, list(args), kwargs, st, fr)
        if isinstance(f, VClass):
            return self.instantiate(f, args, kwargs, st, fr)
        raise Unsupported("call of %r" % (f,))

    def call_method(self, obj, name, args, kwargs, st, fr):
        res = []
        for (s, tag, m) in self.getattr(obj, name, st, fr):
            if tag != "ok":
                res.append((s, tag, m))
            else:
                res.extend(self.call(m, args, kwargs, s, fr))
        return res

    def instantiate(self, cls, args, kwargs, st, fr):
        if cls.info is None:
            return self.models.instantiate(self, st, fr, cls, args, kwargs)
        ci = cls.info
        # a repo class: contract on the constructor?
        con = self.contracts.get((ci.module.relpath, ci.name + ".__init__"))
        obj = VObj(ci.name)
        st = st.set(obj, "__class__", cls)
        # the object is built on this path by the real constructor code: its attribute set is known exactly
        # (only then is a missing attribute a genuine AttributeError, see class_attr)
        st = st.set(obj, "__constructed__", con is None or bool(getattr(con, "inline_at_call_sites", False)))
        if self.is_subkind(ci.name, "BaseException"):
            st = st.set(obj, "__mro__", self.exc_mro(ci.name))
        outs = [(st, "ok", obj)]
        # __new__ (only its in-repo part: cutter_check ...)
        newf = self.find_method(ci.name, "__new__")
        if newf is not None:
            outs = []
            for (s, tag, v) in self.call_function(newf[0], [cls] + list(args), kwargs, st, fr, new_obj=obj):
                # python semantics: what __new__ returns IS the result of the call; __init__ runs on it only when it is an
                # instance of the class (an existing object handed back instead of a new one is therefore visible)
                outs.append((s, tag, (v if isinstance(v, VObj) else obj) if tag == "ok" else v))
        res = []
        for (s, tag, v) in outs:
            if tag != "ok":
                res.append((s, tag, v))
                continue
            if v is not obj:
                if not self.is_subkind(v.kind, ci.name):
                    res.append((s, "ok", v))
                    continue
                obj_ = v
            else:
                obj_ = obj
            init = self.find_method(ci.name, "__init__")
            if init is None:
                for (s2, tag2, v2) in self.models.init_object(self, s, fr, obj_, args, kwargs):
                    res.append((s2, tag2, obj_ if tag2 == "ok" else v2))
                continue
            for (s2, tag2, v2) in self.call_function(init[0], [obj_] + list(args), kwargs, s, fr):
                res.append((s2, tag2, obj_ if tag2 == "ok" else v2))
        return res

    def find_method(self, kind, name):
        for c in self.kind_mro(kind):
            if isinstance(c, ClassInfo) and name in c.methods:
                return VFunc(c.methods[name], c.module, cls=c, qual="%s.%s" % (c.name, name)), c
        return None

    def call_function(self, fn, args, kwargs, st, fr, new_obj=None):
        rel = fn.module.relpath
        key = (rel, fn.qual)
        con = self.contracts.get(key)
        if key == self.root and getattr(self, "root_pending", False):
            # the function under verification is executed (once); a recursive call uses its contract
            self.root_pending = False
            con = None
        if con is not None and getattr(con, "inline_at_call_sites", False):
            con = None          # a tiny function (constructor of an error): executed at its call sites, verified on its own too
        if con is not None:
            return self.apply_contract(con, fn, args, kwargs, st, fr)
        if fr.depth >= self.MAX_INLINE:
            raise Unsupported("inline depth at %s" % fn.qual)
        if key != self.root:
            self.inlined.add("%s::%s" % key)
        return self.inline(fn, args, kwargs, st, fr, new_obj=new_obj)

    def root_inline_key(self, fr):
        # the function under verification is executed, not replaced by its own contract,
        # only at depth 0 (a recursive call uses the contract)
        return self.root if fr.depth == 0 and fr.qual == "<root>" else None

    def bind_params(self, fn, args, kwargs, st, fr):
        a = fn.node.args
        params = [p.arg for p in a.args]
        defaults = a.defaults
        env = {}
        args = list(args)
        n_pos = min(len(args), len(params))
        for i in range(n_pos):
            env[params[i]] = args[i]
        extra = args[n_pos:]
        if extra and a.vararg is None:
            raise Unsupported("too many positional arguments for %s" % fn.qual)
        for k, v in list(kwargs.items()):
            if k in params:
                env[k] = v
        kw_extra = {k: v for k, v in kwargs.items() if k not in params}
        first_default = len(params) - len(defaults)
        for i, p in enumerate(params):
            if p in env:
                continue
            if i >= first_default:
                outs = self.eval(defaults[i - first_default], State(), Frame(fn.module, fn.cls))
                if len(outs) != 1 or outs[0][1] != "ok":
                    raise Unsupported("default value")
                env[p] = outs[0][2]
            else:
                raise Unsupported("missing argument %s for %s" % (p, fn.qual))
        if a.vararg is not None:
            if a.vararg.arg in kw_extra and not extra:
                env[a.vararg.arg] = kw_extra.pop(a.vararg.arg)   # (verification set-up: a symbolic *args sequence)
            else:
                env[a.vararg.arg] = VTuple(extra)
        if a.kwarg is not None:
            st, d = self.new_dict(st, kw_extra)
            env[a.kwarg.arg] = d
        elif kw_extra:
            raise Unsupported("unexpected keyword %s for %s" % (list(kw_extra), fn.qual))
        return st, env

    def inline(self, fn, args, kwargs, st, fr, new_obj=None):
        st, env = self.bind_params(fn, args, kwargs, st, fr)
        saved = st.env
        s0 = st.fork()
        s0.env = dict(env)
        nfr = Frame(fn.module, fn.cls, fn.qual if fr.depth >= 0 else fn.qual, closure=getattr(fn, "closure", None),
                    depth=fr.depth + 1)
        if new_obj is not None:
            nfr.new_obj = new_obj
        body = strip_docstring(fn.node.body)
        # generator function: run eagerly, the values yielded are collected in a ghost sequence which is the result
        # (sound for generators that terminate and are consumed completely; an exception surfaces at the call instead
        # of at the first next(): the same set of outcomes)
        is_gen = _has_yield(fn.node)
        outer_yield = s0.ghost.get("yielded")
        if is_gen:
            s0.ghost["yielded"] = tm.seqempty(STR)
        res = []
        for (s, tag, v) in self.block(body, s0, nfr):
            s = s.fork()
            s.env = dict(saved)
            if is_gen:
                got = s.ghost.get("yielded")
                if outer_yield is None:
                    s.ghost.pop("yielded", None)
                else:
                    s.ghost["yielded"] = outer_yield
                if tag in ("ok", "ret"):
                    res.append((s, "ok", VT(got, "list")))
                    continue
            if tag == "ok":
                res.append((s, "ok", NONE))
            elif tag == "ret":
                res.append((s, "ok", v))
            elif tag == "raise":
                res.append((s, "raise", v))
            else:
                raise Unsupported("break/continue outside loop")
        return res

    # ------------------------------------------------------------------ contracts at call sites
    def apply_contract(self, con, fn, args, kwargs, st, fr):
        self.used_contracts.add("%s::%s" % (con.file, con.qual))
        st, env = self.bind_params(fn, args, kwargs, st, fr)
        site = "%s->%s" % (fr.qual, con.qual)
        for (label, req) in con.requires(self, st, env):
            self.emit("%s::call-pre:%s" % (site, label), st, req, kind="A",
                      text="precondition %s of %s at a call in %s" % (label, con.qual, fr.qual))
        st = st.assume(*con.assumes(self, st, env))
        res = []
        conds = []
        for (excname, cond, mkargs) in con.raises(self, st, env):
            if cond is None:
                s2 = con.exc_state(self, st, env, excname) if hasattr(con, "exc_state") else st
                eargs = mkargs(self, s2, env) if mkargs else ()
                s2, e = self.exc(s2, excname, eargs)
                res.append((s2, "raise", e))
                continue
            cond = tm.lift(cond)
            if tm.is_const(cond) and not tm.cval(cond):
                continue
            s2 = st.assume(cond)
            eargs = mkargs(self, s2, env) if mkargs else ()
            s2, e = self.exc(s2, excname, eargs)
            res.append((s2, "raise", e))
            conds.append(cond)
        s_ok = st.assume(*[tm.not_(c) for c in conds]) if con.exact_raises else st
        for (s3, val) in con.result(self, s_ok, env):
            ens = []
            for (label, t) in con.ensures(self, st, s3, env, val):
                if t is None or type(t).__name__ == "_Shape":
                    continue        # a clause that cannot be stated over this skeleton: nothing is assumed from it
                t = tm.lift(t)
                if tm.is_const(t) and not tm.cval(t):
                    # the skeleton built by result() contradicts the contract's own postcondition: a defect of
                    # the sidecar, never to be turned into a silently infeasible path
                    raise Unsupported("contract %s: result() violates its clause %s at a call site" % (con.qual, label))
                ens.append(t)
            res.append((s3.assume(*ens), "ok", val))
        return res

    # ------------------------------------------------------------------ statements
    def block(self, stmts, st, fr):
        outs = [(st, "ok", None)]
        for stmt in stmts:
            nxt = []
            for (s, tag, v) in outs:
                if tag != "ok":
                    nxt.append((s, tag, v))
                elif s.dead:
                    continue
                else:
                    nxt.extend(self.stmt(stmt, s, fr))
            outs = nxt
        return outs

    def stmt(self, node, st, fr):
        m = getattr(self, "s_" + type(node).__name__, None)
        if m is None:
            raise Unsupported("statement %s" % type(node).__name__)
        return m(node, st, fr)

    def s_Pass(self, node, st, fr):
        return [(st, "ok", None)]

    def s_Expr(self, node, st, fr):
        if isinstance(node.value, ast.Constant):
            return [(st, "ok", None)]
        return [(s, tag if tag != "ok" else "ok", v if tag != "ok" else None)
                for (s, tag, v) in self.eval(node.value, st, fr)]

    def s_Return(self, node, st, fr):
        if node.value is None:
            return [(st, "ret", NONE)]
        return [(s, "ret" if tag == "ok" else tag, v) for (s, tag, v) in self.eval(node.value, st, fr)]

    def s_Raise(self, node, st, fr):
        if node.exc is None:
            raise Unsupported("bare raise")

        def fn(s, v):
            if isinstance(v, VClass):
                outs = self.instantiate(v, [], {}, s, fr)
                return [(s2, "raise", e) for (s2, tag, e) in outs]
            return [(s, "raise", v)]

        return self.bind(self.eval(node.exc, st, fr), fn)

    def s_Assign(self, node, st, fr):
        res = []
        for (s, tag, v) in self.eval(node.value, st, fr):
            if tag != "ok":
                res.append((s, tag, v))
                continue
            outs = [(s, "ok", None)]
            for tgt in node.targets:
                nxt = []
                for (s2, tag2, _) in outs:
                    if tag2 != "ok":
                        nxt.append((s2, tag2, _))
                    else:
                        nxt.extend(self.assign(tgt, v, s2, fr))
                outs = nxt
            res.extend(outs)
        return res

    def s_AnnAssign(self, node, st, fr):
        """`x: T = e` is `x = e` (the annotation is not evaluated for local names); `x: T` alone is a no-op"""
        if node.value is None:
            return [(st, "ok", None)]
        fake = ast.Assign(targets=[node.target], value=node.value)
        ast.copy_location(fake, node)
        return self.s_Assign(fake, st, fr)

    def assign(self, tgt, v, st, fr):
        if isinstance(tgt, ast.Name):
            return [(st.with_env(tgt.id, v), "ok", None)]
        if isinstance(tgt, ast.Tuple):
            items = None
            if isinstance(v, VTuple):
                items = v.items
            elif isinstance(v, VList):
                items = st.get(v, "items")
            if items is None or len(items) != len(tgt.elts):
                raise Unsupported("tuple unpacking of %r" % (v,))
            outs = [(st, "ok", None)]
            for t, it in zip(tgt.elts, items):
                nxt = []
                for (s2, tag2, _) in outs:
                    nxt.extend(self.assign(t, it, s2, fr))
                outs = nxt
            return outs
        if isinstance(tgt, ast.Attribute):
            def fn(s, o):
                if isinstance(o, VObj):
                    hook = self.models.setattr_hook(self, s, o, tgt.attr, v)
                    if hook is not None:
                        return hook
                    return [(s.set(o, tgt.attr, v), "ok", None)]
                if isinstance(o, VClass):
                    return self.models.class_setattr(self, s, o, tgt.attr, v)
                raise Unsupported("attribute store on %r" % (o,))

            return self.bind(self.eval(tgt.value, st, fr), fn)
        if isinstance(tgt, ast.Subscript) and isinstance(tgt.slice, ast.Slice):
            if tgt.slice.lower is not None or tgt.slice.upper is not None or tgt.slice.step is not None:
                raise Unsupported("partial slice assignment")
            hook = getattr(self.models, "slice_assign", None)
            if hook is None:
                raise Unsupported("slice assignment")
            return self.bind(self.eval(tgt.value, st, fr), lambda s, o: hook(self, s, o, v))
        if isinstance(tgt, ast.Subscript):
            def fn(s, o):
                return self.bind(self.eval(tgt.slice, s, fr), lambda s2, k: self.store_item(o, k, v, s2, fr))

            return self.bind(self.eval(tgt.value, st, fr), fn)
        raise Unsupported("assignment target %s" % type(tgt).__name__)

    def store_item(self, o, k, v, st, fr):
        if isinstance(o, VDict) and isinstance(k, VT) and tm.is_const(k.t):
            items = dict(st.get(o, "items"))
            items[tm.cval(k.t)] = v
            return [(st.set(o, "items", items), "ok", None)]
        if isinstance(o, VList) and isinstance(k, VT) and tm.is_const(k.t):
            items = list(st.get(o, "items"))
            i = tm.cval(k.t)
            if -len(items) <= i < len(items):
                items[i] = v
                return [(st.set(o, "items", items), "ok", None)]
            return self.raise_(st, "IndexError")
        if isinstance(o, VObj):
            return self.call_method(o, "__setitem__", [k, v], {}, st, fr)
        hook = getattr(self.models, "store_item", None)
        if hook is not None:
            r = hook(self, st, fr, o, k, v)
            if r is not None:
                return r
        raise Unsupported("item store on %r" % (o,))

    def s_AugAssign(self, node, st, fr):
        load = ast.copy_location(_to_load(node.target), node.target)
        res = []
        for (s, tag, vals) in self.eval_list([load, node.value], st, fr):
            if tag != "ok":
                res.append((s, tag, vals))
                continue
            for (s2, tag2, r) in self.binop(node.op, vals[0], vals[1], s, fr):
                if tag2 != "ok":
                    res.append((s2, tag2, r))
                else:
                    res.extend(self.assign(node.target, r, s2, fr))
        return res

    def s_If(self, node, st, fr):
        res = []
        for (s, tag, c) in self.eval(node.test, st, fr):
            if tag != "ok":
                res.append((s, tag, c))
                continue
            cond = tm.lift(self.truth(s, c))
            try:
                key_ = (getattr(fr.module, "relpath", "?"), ast.unparse(node.test))
                self.test_outcomes.setdefault(key_, set()).add(("T" if tm.cval(cond) else "F") if tm.is_const(cond) else "sym")
            except Exception:
                pass
            for (s2, b) in self.branch(s, cond):
                res.extend(self.block(node.body if b else node.orelse, s2, fr))
        return res

    def s_With(self, node, st, fr):
        # context managers are modelled as transparent (warnings.catch_warnings only)
        outs = [(st, "ok", None)]
        for item in node.items:
            nxt = []
            for (s, tag, v) in outs:
                if tag != "ok":
                    nxt.append((s, tag, v))
                    continue
                for (s2, tag2, cm) in self.eval(item.context_expr, s, fr):
                    if tag2 != "ok":
                        nxt.append((s2, tag2, cm))
                    elif not (isinstance(cm, VObj) and (cm.kind == "ctx:transparent" or cm.kind in getattr(self.models, "TRANSPARENT_CTX", ()))):
                        raise Unsupported("with-statement over %r" % (cm,))
                    elif item.optional_vars is not None:
                        nxt.extend(self.assign(item.optional_vars, cm, s2, fr))
                    else:
                        nxt.append((s2, "ok", None))
            outs = nxt
        res = []
        for (s, tag, v) in outs:
            if tag != "ok":
                res.append((s, tag, v))
            else:
                res.extend(self.block(node.body, s, fr))
        return res

    def s_Try(self, node, st, fr):
        if node.finalbody:
            inner = ast.Try(body=node.body, handlers=node.handlers, orelse=node.orelse, finalbody=[])
            outs = self.s_Try(inner, st, fr) if (node.handlers or node.orelse) else self.block(node.body, st, fr)
            res = []
            for (s, tag, v) in outs:
                # the finally block runs on every exit; its own exit (if any) replaces the pending one
                for (s2, tag2, v2) in self.block(node.finalbody, s, fr):
                    if tag2 == "ok":
                        res.append((s2, tag, v))
                    else:
                        res.append((s2, tag2, v2))
            return res
        res = []
        for (s, tag, v) in self.block(node.body, st, fr):
            if tag == "ok" and node.orelse:
                res.extend(self.block(node.orelse, s, fr))
                continue
            if tag != "raise":
                res.append((s, tag, v))
                continue
            handled = False
            for h in node.handlers:
                if h.type is None:
                    names = ["BaseException"]
                else:
                    names = [ast.unparse(e).split(".")[-1] for e in
                             (h.type.elts if isinstance(h.type, ast.Tuple) else [h.type])]
                mro = s.get(v, "__mro__") or []
                if any(n in mro for n in names):
                    s2 = s.with_env(h.name, v) if h.name else s
                    res.extend(self.block(h.body, s2, fr))
                    handled = True
                    break
            if not handled:
                res.append((s, tag, v))
        return res

    # ------------------------------------------------------------------ loops
    def index_loops(self, fnode):
        self.loop_ids = {}

        def visit(n):
            for ch in ast.iter_child_nodes(n):
                if isinstance(ch, (ast.For, ast.While)):
                    self.loop_ids[id(ch)] = len(self.loop_ids)
                if not isinstance(ch, (ast.FunctionDef, ast.Lambda, ast.ClassDef)):
                    visit(ch)

        visit(fnode)

    def s_For(self, node, st, fr):
        if node.orelse:
            raise Unsupported("for/else")
        ordinal = self.loop_ids.get(id(node))

        def fn(s, it):
            return self.models.for_loop(self, s, fr, node, it, ordinal)

        return self.bind(self.eval(node.iter, st, fr), fn)

    def s_While(self, node, st, fr):
        if node.orelse:
            raise Unsupported("while/else")
        ordinal = self.loop_ids.get(id(node))
        spec = self.loopspecs.get(ordinal) if ordinal is not None else None
        if spec is None:
            raise Unsupported("while loop without invariant")
        return self.invariant_loop(node, st, fr, spec, ordinal, guard_node=node.test)

    def assigned_names(self, body):
        names = set()
        for n in ast.walk(ast.Module(body=body, type_ignores=[])):
            if isinstance(n, ast.Name) and isinstance(n.ctx, ast.Store):
                names.add(n.id)
        return names

    def invariant_loop(self, node, st, fr, spec, ordinal, guard_node=None, index=None):
        """generic havoc/assume/preserve treatment.

        spec.invariant(ex, st, ctx) -> [(label, T)];  spec.havoc(ex, st, ctx) -> st' (fresh values for the
        state the loop modifies);  ctx carries the loop index term (for-loops), the pre-loop state, ghost.
        index = dict(var=name|None, lo=T, hi=T, elem=callable(ex, st, k)->Val)
        """
        if hasattr(spec, "accepts") and not spec.accepts(node):
            # an invariant states facts about one particular loop; applied to a loop of another shape (a `while` rewritten
            # as a bounded `for`, another iterable) it would be too weak or meaningless and produce spurious counter-models
            raise Unsupported("loop %s does not have the shape its invariant was written for" % ordinal)
        tag = "%s::loop%d" % (self.root[1] if self.root else fr.qual, ordinal)
        ctx = dict(pre=st, index=index, k=index["lo"] if index else None, ordinal=ordinal)
        # initiation
        for (label, inv) in spec.invariant(self, st, ctx):
            self.emit("%s:init:%s" % (tag, label), st, inv, text="loop invariant holds on entry")
        # arbitrary iteration
        modified = self.assigned_names(node.body) | ({node.target.id} if isinstance(node, ast.For) and isinstance(
            node.target, ast.Name) else set())
        sh = spec.havoc(self, st, ctx, modified)
        k = None
        if index is not None:
            k = tm.fresh("k", INT)
            ctx = dict(ctx, k=k)
            sh = sh.assume(tm.le(index["lo"], k))
        sh = sh.assume(*[t for (_, t) in spec.invariant(self, sh, ctx)])
        res = []
        # guard
        if index is not None:
            guards = [(sh.assume(tm.lt(k, index["hi"])), True), (sh.assume(tm.le(index["hi"], k)), False)]
        else:
            guards = []
            for (s, gtag, c) in self.eval(guard_node, sh, fr):
                if gtag != "ok":
                    res.append((s, gtag, c))
                    continue
                guards.extend(self.branch(s, self.truth(s, c)))
        for (s, taken) in guards:
            if not taken:
                s_exit = spec.at_exit(self, s, ctx) if hasattr(spec, "at_exit") else s
                res.append((s_exit, "ok", None))
                continue
            if index is not None and index.get("var") is not None:
                outs0 = self.assign(index["var"], index["elem"](self, s, k), s, fr)
                s = outs0[0][0]
            if hasattr(spec, "at_body_start"):
                s = spec.at_body_start(self, s, ctx)
            for (s2, btag, v) in self.block(node.body, s, fr):
                if btag in ("ok", "continue"):
                    ctx2 = dict(ctx, k=tm.add(k, 1)) if k is not None else ctx
                    if hasattr(spec, "at_body_end"):
                        s2 = spec.at_body_end(self, s2, ctx)
                    hints = spec.hints(self, s2, ctx2) if hasattr(spec, "hints") else []
                    for (label, inv) in spec.invariant(self, s2, ctx2):
                        self.emit("%s:preserve:%s" % (tag, label), s2, inv, text="loop invariant preserved",
                                  extra_hyps=hints, meta=dict(needs_aux=bool(hints)))
                    if hasattr(spec, "decreases"):
                        before, after = spec.decreases(self, s, s2, ctx)
                        self.emit("%s:decreases" % tag, s2, tm.and_(tm.lt(after, before), tm.le(0, after)),
                                  text="loop variant decreases and is bounded below")
                elif btag == "break":
                    res.append((s2, "ok", None))
                else:
                    res.append((s2, btag, v))
        return res

    def s_Break(self, node, st, fr):
        return [(st, "break", None)]

    def s_Continue(self, node, st, fr):
        return [(st, "continue", None)]

    def s_FunctionDef(self, node, st, fr):
        fn = VFunc(node, fr.module, cls=None, qual=fr.qual + ".<locals>." + node.name)
        fn.closure = dict(fr.closure)
        fn.closure.update(st.env)
        for d in reversed(node.decorator_list):
            outs = self.eval(d, st, fr)
            if len(outs) != 1 or outs[0][1] != "ok":
                raise Unsupported("decorator on nested function")
            outs2 = self.call(outs[0][2], [fn], {}, outs[0][0], fr)
            if len(outs2) != 1 or outs2[0][1] != "ok":
                raise Unsupported("decorator on nested function")
            st, fn = outs2[0][0], outs2[0][2]
        return [(st.with_env(node.name, fn), "ok", None)]

    def s_Assert(self, node, st, fr):
        return [(st, "ok", None)]


# modelled dependency objects that are containers (python: false when empty)
SIZED_KINDS = {"LetAnn", "symlist", "range", "MapValues", "LetAnnItems", "LabelSet", "LabelList", "PySet", "QualsAbs", "QualDict",
               "QualDictIdx", "ClassDict", "CitList", "CitListIdx", "CassSet", "FragTuple", "CitSnapshot", "MemberRegistry",
               "dict_keyiterator"}


def _has_yield(fnode):
    todo = list(ast.iter_child_nodes(fnode))
    while todo:
        n = todo.pop()
        if isinstance(n, (ast.Yield, ast.YieldFrom)):
            return True
        if isinstance(n, (ast.FunctionDef, ast.AsyncFunctionDef, ast.Lambda, ast.ClassDef)):
            continue
        todo.extend(ast.iter_child_nodes(n))
    return False


class _Star(object):
    def __init__(self, v):
        self.v = v


class _Frozen(Val):
    """module-level literal (dict/list) together with the little heap it lives in"""

    def __init__(self, v, st):
        self.v = v
        self.st = st

    def thaw(self, st):
        st = st.fork()
        for oid, d in self.st.heap.items():
            if oid not in st.heap:
                st.heap[oid] = d
        return st, self.v


def _to_load(node):
    n = ast.parse(ast.unparse(node), mode="eval").body
    return n
