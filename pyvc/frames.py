# coding: utf-8
"""Syntactic frame analysis (census obligations, kind F): which stores of a function can reach an object that
outlives the call?

A *store site* is an assignment / deletion through an attribute or a subscript, or a call of a mutating method.
It is **harmless** when the object written to is
  * a local name bound only to fresh containers (``{}``, ``[]``, ``dict(...)``, comprehension, ``a + b`` ...) and
    the container itself is written (``d[k] = v``, ``l.append(x)``), or
  * ``self`` itself by attribute rebinding (``self.x = v``) -- the caller decides whether that matters
    (``allow_self_rebind``).
Plain rebinding of local names is never a store site (renaming or adding locals cannot trip a census).

Every other site is **escaping** and is reported as ``Site(shape, roots, text, lineno)``:
  * ``roots``: where the written object comes from -- ``self``, ``cls``, ``P<i>`` (i-th parameter after
    self/cls), ``G:<name>`` (module-level / class name / free variable), ``FRESH`` (via contents of a fresh object),
    ``?`` (a call result);
  * ``shape``: the target with names replaced by their role (``self``/``cls``/``P<i>``/``G``/``L``) and
    constants by ``K`` -- stable under alpha-renaming and under a change of the key that is written.
"""
from __future__ import annotations

import ast
from collections import namedtuple

Site = namedtuple("Site", "shape roots text lineno")

MUTATORS = {"append", "extend", "insert", "pop", "remove", "clear", "setdefault", "update", "sort", "reverse",
            "popitem", "__setitem__", "__delitem__", "add", "discard", "appendleft", "popleft", "__setattr__",
            "__delattr__", "intersection_update", "difference_update", "symmetric_difference_update"}
FRESH_CALLS = {"dict", "list", "set", "frozenset", "tuple", "sorted", "str", "int", "bool", "float", "len", "repr",
               "deepcopy", "copy", "OrderedDict", "intersection", "union", "difference", "keys", "values", "items", "split",
               "upper", "lower", "strip", "replace", "reverse_complement", "complement", "defaultdict", "Counter", "range", "format", "join", "bytearray"}
_BUILTIN_FUNCS = {"enumerate", "zip", "iter", "next", "reversed", "map", "filter", "getattr", "isinstance", "issubclass",
                  "min", "max", "sum", "any", "all", "type", "super", "id", "hash", "print", "vars", "abs"}


def _is_fresh_expr(e):
    if isinstance(e, (ast.Dict, ast.List, ast.Set, ast.ListComp, ast.DictComp, ast.SetComp, ast.Constant, ast.JoinedStr,
                      ast.Tuple, ast.BinOp, ast.Compare, ast.BoolOp, ast.UnaryOp, ast.Lambda, ast.GeneratorExp)):
        if isinstance(e, ast.BoolOp):     # `a or []` may be `a`
            return all(_is_fresh_expr(v) for v in e.values)
        return True
    if isinstance(e, ast.IfExp):
        return _is_fresh_expr(e.body) and _is_fresh_expr(e.orelse)
    if isinstance(e, ast.Call):
        f = e.func
        name = f.id if isinstance(f, ast.Name) else (f.attr if isinstance(f, ast.Attribute) else None)
        if name in FRESH_CALLS:
            return True
        if name and name[:1].isupper() and isinstance(f, ast.Name):   # constructor call Name(...)
            return True
    return False


def _names(e):
    """names an expression's value may be reached from (function names in call position are not data)"""
    out = set()

    def visit(n, callee=False):
        if isinstance(n, ast.Name):
            if not callee:
                out.add(n.id)
            return
        if isinstance(n, ast.Call):
            if isinstance(n.func, ast.Attribute):
                visit(n.func.value)
            elif not isinstance(n.func, ast.Name):
                visit(n.func)
            for a in n.args:
                visit(a.value if isinstance(a, ast.Starred) else a)
            for k in n.keywords:
                visit(k.value)
            return
        if isinstance(n, ast.Lambda):
            return
        for ch in ast.iter_child_nodes(n):
            visit(ch)

    visit(e)
    return out


class FunctionFrame(object):
    def __init__(self, fnode, is_method=None, allow_self_rebind=True):
        self.f = fnode
        args = [a.arg for a in fnode.args.posonlyargs + fnode.args.args]
        decos = {ast.unparse(d) for d in fnode.decorator_list}
        self.role = {}
        rest = args
        if is_method is None:
            is_method = bool(args) and args[0] in ("self", "cls")
        if is_method and args and "staticmethod" not in decos:
            self.role[args[0]] = "cls" if ("classmethod" in decos or args[0] == "cls") else "self"
            rest = args[1:]
        for i, a in enumerate(rest):
            self.role[a] = "P%d" % i
        extra = [a.arg for a in fnode.args.kwonlyargs]
        if fnode.args.vararg:
            extra.append(fnode.args.vararg.arg)
        if fnode.args.kwarg:
            extra.append(fnode.args.kwarg.arg)
        for i, a in enumerate(extra):
            self.role[a] = "P%d" % (len(rest) + i)
        self.allow_self_rebind = allow_self_rebind
        self.globals_declared = set()
        self.deps = {}      # local -> set of names / "FRESH" / "?"
        self.content = {}   # local -> names occurring inside the fresh expressions it is bound to
        self._collect()

    # ------------------------------------------------------------------ bindings
    def _bind(self, target, value, iterated=False):
        if isinstance(target, (ast.Tuple, ast.List)):
            for e in target.elts:
                self._bind(e.value if isinstance(e, ast.Starred) else e, value, iterated=True)
            return
        if not isinstance(target, ast.Name):
            return
        d = self.deps.setdefault(target.id, set())
        if value is None:
            d.add("?")
        elif not iterated and _is_fresh_expr(value):
            d.add("FRESH")
            # what a fresh container is built from stays reachable *through* it, but is not the container itself
            self.content.setdefault(target.id, set()).update(_names(value))
        else:
            ns = _names(value)
            d.update(ns if ns else {"?" if isinstance(value, ast.Call) else "FRESH"})
            if isinstance(value, ast.Call) and not ns:
                d.add("?")

    def _collect(self):
        for n in self._walk(self.f):
            if isinstance(n, (ast.Global, ast.Nonlocal)):
                self.globals_declared.update(n.names)
            elif isinstance(n, ast.Assign):
                for t in n.targets:
                    self._bind(t, n.value)
            elif isinstance(n, ast.AnnAssign) and n.value is not None:
                self._bind(n.target, n.value)
            elif isinstance(n, ast.AugAssign):
                if isinstance(n.target, ast.Name):
                    # x += y : for lists this mutates x in place -> x keeps its roots, plus y's
                    self.deps.setdefault(n.target.id, set()).update(_names(n.value))
            elif isinstance(n, (ast.For, ast.AsyncFor)):
                self._bind(n.target, n.iter, iterated=True)
            elif isinstance(n, ast.comprehension):
                self._bind(n.target, n.iter, iterated=True)
            elif isinstance(n, (ast.With, ast.AsyncWith)):
                for it in n.items:
                    if it.optional_vars is not None:
                        self._bind(it.optional_vars, it.context_expr, iterated=True)
            elif isinstance(n, ast.ExceptHandler) and n.name:
                self.deps.setdefault(n.name, set()).add("FRESH")
            elif isinstance(n, ast.NamedExpr):
                self._bind(n.target, n.value)

    def _walk(self, root):
        """ast.walk that does not descend into nested function / class definitions"""
        todo = list(ast.iter_child_nodes(root))
        while todo:
            n = todo.pop()
            yield n
            if isinstance(n, (ast.FunctionDef, ast.AsyncFunctionDef, ast.ClassDef)):
                continue
            todo.extend(ast.iter_child_nodes(n))

    def roots(self, name, _seen=None):
        _seen = _seen or set()
        if name in _seen:
            return set()
        _seen.add(name)
        if name in self.globals_declared:
            return {"G:" + name}
        if name in self.role and name not in self.deps:
            return {self.role[name]}
        if name in self.deps:
            out = set()
            if name in self.role:       # a re-assigned parameter keeps its original root too
                out.add(self.role[name])
            for d in self.deps[name]:
                if d in ("FRESH", "?"):
                    out.add(d)
                else:
                    out |= self.roots(d, _seen)
            for d in self.content.get(name, ()):
                out |= self.roots(d, _seen) - {"FRESH"}
            return out
        return {"G:" + name}

    # ------------------------------------------------------------------ shapes
    def shape(self, e):
        if isinstance(e, ast.Name):
            if e.id in self.globals_declared:
                return "G"
            if e.id in self.role:
                return self.role[e.id]
            if e.id in self.deps:
                return "L"
            return "G"
        if isinstance(e, ast.Attribute):
            return "%s.%s" % (self.shape(e.value), e.attr)
        if isinstance(e, ast.Subscript):
            return "%s[%s]" % (self.shape(e.value), self.shape(e.slice))
        if isinstance(e, ast.Slice):
            return ":".join("" if x is None else self.shape(x) for x in (e.lower, e.upper))
        if isinstance(e, ast.Constant):
            return "K"
        if isinstance(e, ast.Call):
            return "%s()" % self.shape(e.func)
        if isinstance(e, ast.Tuple):
            return "(%s)" % ",".join(self.shape(x) for x in e.elts)
        return "E"

    def _expr_roots(self, e):
        out = set()
        for n in _names(e):
            out |= self.roots(n)
        return out or {"?"}

    def _site(self, written_obj, full, lineno, kind):
        """written_obj: expression denoting the object that is modified; full: the target / call expression"""
        if isinstance(written_obj, ast.Name):
            nm = written_obj.id
            if self.deps.get(nm) == {"FRESH"} and nm not in self.role and nm not in self.globals_declared:
                return None     # every binding of the name is a fresh container, and the container itself is written
            if nm in self.role and self.role[nm] == "self" and kind == "attr" and self.allow_self_rebind and nm not in self.deps:
                return None
        roots = self._expr_roots(written_obj)
        shape = ("call:" if kind == "call" else "del:" if kind == "del" else "") + self.shape(full)
        return Site(shape, frozenset(roots), ast.unparse(full), lineno)

    def sites(self):
        out = []
        for n in self._walk(self.f):
            targets = []
            kind = "store"
            if isinstance(n, ast.Assign):
                targets = list(n.targets)
            elif isinstance(n, (ast.AugAssign, ast.AnnAssign)):
                targets = [n.target]
            elif isinstance(n, (ast.For, ast.AsyncFor, ast.comprehension)):
                targets = [n.target]
            elif isinstance(n, ast.Delete):
                targets = list(n.targets)
                kind = "del"
            elif isinstance(n, (ast.With, ast.AsyncWith)):
                targets = [it.optional_vars for it in n.items if it.optional_vars is not None]
            flat = []
            for t in targets:
                flat.extend(t.elts if isinstance(t, (ast.Tuple, ast.List)) else [t])
            for t in flat:
                if isinstance(t, ast.Starred):
                    t = t.value
                if isinstance(t, ast.Name):
                    if t.id in self.globals_declared:
                        out.append(Site("G", frozenset({"G:" + t.id}), t.id, getattr(t, "lineno", 0)))
                    continue
                if isinstance(t, ast.Attribute):
                    s = self._site(t.value, t, t.lineno, "attr" if kind == "store" else "del")
                elif isinstance(t, ast.Subscript):
                    s = self._site(t.value, t, t.lineno, "sub" if kind == "store" else "del")
                else:
                    continue
                if s is not None:
                    out.append(s)
            if isinstance(n, ast.Call) and isinstance(n.func, ast.Attribute) and n.func.attr in MUTATORS:
                s = self._site(n.func.value, n.func, n.lineno, "call")
                if s is not None:
                    out.append(s)
            if isinstance(n, ast.Call) and isinstance(n.func, ast.Name) and n.func.id in ("setattr", "delattr") and n.args:
                s = self._site(n.args[0], n, n.lineno, "call")
                if s is not None:
                    out.append(s)
        return sorted(set(out), key=lambda s: (s.lineno, s.shape))


def functions_of(modinfo):
    """[(qualname, node, is_method)] of a pyvc.repo module (top-level functions and methods, nested ones included)"""
    out = []
    for n, f in modinfo.functions.items():
        out.append((n, f, False))
    for cname, ci in modinfo.classes.items():
        for n, f in ci.methods.items():
            out.append(("%s.%s" % (cname, n), f, True))
    res = []
    for (q, f, m) in out:
        res.append((q, f, m))
        for sub in ast.walk(f):
            if sub is not f and isinstance(sub, (ast.FunctionDef, ast.AsyncFunctionDef)):
                res.append(("%s.<locals>.%s" % (q, sub.name), sub, False))
    return res


def check_frame(modinfo, rel, spec, default=None, allow_self_rebind=True, ignore_roots=()):
    """spec: qualname -> dict(free={'P0',...}, shapes={...}); default: spec for functions not listed.
    returns the list of violations as strings (empty = the frame holds)"""
    bad = []
    default = default or dict(free=set(), shapes=set())
    for (qual, f, is_m) in functions_of(modinfo):
        sp = spec.get(qual, default)
        ff = FunctionFrame(f, is_method=is_m if "<locals>" not in qual else False, allow_self_rebind=sp.get(
            "allow_self_rebind", allow_self_rebind))
        for s in ff.sites():
            if s.shape in sp.get("shapes", ()):
                continue
            if s.roots and s.roots <= (set(sp.get("free", ())) | {"FRESH"}):
                continue
            if s.roots and all(any(r == g or (g[-1:] in ":*" and r.startswith(g.rstrip("*"))) for g in ignore_roots)
                               or r == "FRESH" for r in s.roots):
                continue
            bad.append("%s::%s line %d: `%s` writes to an object reachable from %s (shape %s)" % (
                rel, qual, s.lineno, s.text, "/".join(sorted(s.roots)), s.shape))
    return bad


def memoised(modinfo, rel):
    """functions wrapped in a memoising decorator (functools.lru_cache / cache, or anything named *memo* / *cache* except
    the per-instance cached_property): state that outlives the call without any syntactic store"""
    out = []
    for (qual, f, _m) in functions_of(modinfo):
        for d in f.decorator_list:
            txt = ast.unparse(d)
            base = txt.split("(")[0].split(".")[-1]
            if base in ("cached_property", "classproperty", "catch_warnings"):
                continue
            if base in ("lru_cache", "cache") or "memo" in base.lower() or base.lower().endswith("cache"):
                out.append("%s::%s is memoised by @%s" % (rel, qual, txt))
    return out
