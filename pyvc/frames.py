# coding: utf-8
"""Syntactic frame analysis (census obligations, kind F): which stores of a file can reach an object that outlives
the call, and through which *access path*?

A *store site* is an assignment / deletion through an attribute or a subscript, or a call of a mutating method.
Plain rebinding of local names is never a store site (renaming or adding locals cannot trip a census).

The object written to is described by its access path, computed by expanding local aliases:

    references = record.annotations.setdefault("references", [])      ->  P.annotations[K]
    for feature in record.features: ...                               ->  feature = P.features[*]
    citations = feature.qualifiers.get("citation", [])                ->  P.features[*].qualifiers[K]
    citations[i] = x                                                  ->  store  P.features[*].qualifiers[K][*]

  * every parameter is `P` (so a helper extracted from a function, whatever its parameter order, has the same paths),
    `self` / `cls` keep their role, `type(x)` and `x.__class__` are `cls`, module-level names are `G:<name>`;
  * a local bound exactly once is replaced by the path of what it is bound to; iteration adds `[*]`;
    `d.get(k, ...)`, `d.setdefault(k, ...)`, `d[k]` are the same path; constant keys are `K`, other subscripts `*`;
  * a local bound only to fresh containers (`{}`, `[]`, `dict(...)`, comprehension, `a + b` ...) is `FRESH`: writing
    the container itself is harmless (it does not outlive the call unless returned -- and then it is the result);
  * `self.x = v` (rebinding an attribute of the receiver) is harmless where the caller says so.

Every other site is reported as ``Site(shape, root, text, lineno)``; a frame specification is the set of shapes a
*file* may contain.  Being per file and path-based, it is stable under alpha-renaming, introduced or removed
temporaries, extracted or inlined helpers and reordered statements; it changes when a store reaches something new.
"""
from __future__ import annotations

import ast
from collections import namedtuple

Site = namedtuple("Site", "shape root text lineno")

MUTATORS = {"append", "extend", "insert", "pop", "remove", "clear", "setdefault", "update", "sort", "reverse",
            "popitem", "__setitem__", "__delitem__", "add", "discard", "appendleft", "popleft", "__setattr__",
            "__delattr__", "intersection_update", "difference_update", "symmetric_difference_update"}
FRESH_CALLS = {"dict", "list", "set", "frozenset", "tuple", "sorted", "str", "int", "bool", "float", "len", "repr",
               "deepcopy", "copy", "OrderedDict", "defaultdict", "Counter", "range", "format", "join", "bytearray",
               "intersection", "union", "difference", "split", "upper", "lower", "strip", "replace",
               "reverse_complement", "complement"}
_THROUGH = {"enumerate", "iter", "reversed", "zip", "iteritems", "itervalues", "iterkeys", "items", "values", "keys",
            "filter", "chain"}


def _is_fresh_expr(e):
    if isinstance(e, (ast.Dict, ast.List, ast.Set, ast.ListComp, ast.DictComp, ast.SetComp, ast.Constant, ast.JoinedStr,
                      ast.Tuple, ast.BinOp, ast.Compare, ast.UnaryOp, ast.Lambda, ast.GeneratorExp)):
        return True
    if isinstance(e, ast.BoolOp):          # `a or []` may be `a`
        return all(_is_fresh_expr(v) for v in e.values)
    if isinstance(e, ast.IfExp):
        return _is_fresh_expr(e.body) and _is_fresh_expr(e.orelse)
    if isinstance(e, ast.Call):
        f = e.func
        name = f.id if isinstance(f, ast.Name) else (f.attr if isinstance(f, ast.Attribute) else None)
        if name in FRESH_CALLS:
            return True
        if name and name.lstrip("_")[:1].isupper() and isinstance(f, ast.Name):   # constructor call Name(...) / _Private(...)
            return True
    return False


class FunctionFrame(object):
    def __init__(self, fnode, is_method=None, allow_self_rebind=True):
        self.f = fnode
        args = [a.arg for a in fnode.args.posonlyargs + fnode.args.args]
        decos = {ast.unparse(d) for d in fnode.decorator_list}
        self.role = {}
        rest = args
        if is_method is None:
            is_method = bool(args) and args[0] in ("self", "cls")
        if is_method and args and "staticmethod" not in decos:
            self.role[args[0]] = "cls" if ("classmethod" in decos or args[0] == "cls") else "self"
            rest = args[1:]
        for a in rest + [a.arg for a in fnode.args.kwonlyargs] + (
                [fnode.args.vararg.arg] if fnode.args.vararg else []) + ([fnode.args.kwarg.arg] if fnode.args.kwarg else []):
            self.role[a] = "P"
        self.allow_self_rebind = allow_self_rebind
        self.globals_declared = set()
        self.binds = {}      # local -> [(kind, expr)]  kind in assign | iter | opaque | fresh
        self._collect()

    # ------------------------------------------------------------------ bindings
    def _bind(self, target, value, kind):
        if isinstance(target, (ast.Tuple, ast.List)):
            if kind == "assign" and isinstance(value, (ast.Tuple, ast.List)) and len(value.elts) == len(target.elts) and not any(
                    isinstance(x, ast.Starred) for x in list(value.elts) + list(target.elts)):
                for t_, v_ in zip(target.elts, value.elts):      # a, b = x, y
                    self._bind(t_, v_, "assign")
                return
            for e in target.elts:
                self._bind(e.value if isinstance(e, ast.Starred) else e, value, "iter" if kind == "assign" else kind)
            return
        if isinstance(target, ast.Name):
            self.binds.setdefault(target.id, []).append((kind, value))

    def _walk(self, root):
        """ast.walk that does not descend into nested function / class definitions"""
        todo = list(ast.iter_child_nodes(root))
        while todo:
            n = todo.pop()
            yield n
            if isinstance(n, (ast.FunctionDef, ast.AsyncFunctionDef, ast.ClassDef)):
                continue
            todo.extend(ast.iter_child_nodes(n))

    def _collect(self):
        for n in self._walk(self.f):
            if isinstance(n, (ast.Global, ast.Nonlocal)):
                self.globals_declared.update(n.names)
            elif isinstance(n, ast.Assign):
                for t in n.targets:
                    self._bind(t, n.value, "assign")
            elif isinstance(n, ast.AnnAssign) and n.value is not None:
                self._bind(n.target, n.value, "assign")
            elif isinstance(n, ast.AugAssign):
                if isinstance(n.target, ast.Name):
                    self.binds.setdefault(n.target.id, []).append(("opaque", None))
            elif isinstance(n, (ast.For, ast.AsyncFor)):
                self._bind(n.target, n.iter, "iter")
            elif isinstance(n, ast.comprehension):
                self._bind(n.target, n.iter, "iter")
            elif isinstance(n, (ast.With, ast.AsyncWith)):
                for it in n.items:
                    if it.optional_vars is not None:
                        self._bind(it.optional_vars, it.context_expr, "opaque")
            elif isinstance(n, ast.ExceptHandler) and n.name:
                self.binds.setdefault(n.name, []).append(("fresh", None))
            elif isinstance(n, ast.NamedExpr):
                self._bind(n.target, n.value, "assign")

    # ------------------------------------------------------------------ access paths
    def path(self, e, depth=0):
        if depth > 8:
            return "L"
        if isinstance(e, ast.Name):
            nm = e.id
            if nm in self.globals_declared:
                return "G:" + nm
            b = self.binds.get(nm)
            if nm in self.role and not b:
                return self.role[nm]
            if b:
                kinds = {k for (k, _) in b}
                if kinds <= {"assign", "fresh"} and all(k == "fresh" or _is_fresh_expr(x) for (k, x) in b) and nm not in self.role:
                    return "FRESH"
                if len(b) == 1 and nm not in self.role:
                    kind, expr = b[0]
                    if kind == "assign":
                        return self.path(expr, depth + 1)
                    if kind == "iter":
                        return self.path(expr, depth + 1) + "[*]"
                return "L"
            return "G:" + nm
        if isinstance(e, ast.Attribute):
            if e.attr == "__class__":
                return "cls"
            return "%s.%s" % (self.path(e.value, depth), e.attr)
        if isinstance(e, ast.Subscript):
            return "%s[%s]" % (self.path(e.value, depth), self._key(e.slice))
        if isinstance(e, ast.Starred):
            return self.path(e.value, depth)
        if isinstance(e, ast.IfExp):
            a, b = self.path(e.body, depth), self.path(e.orelse, depth)
            return a if a == b or b == "FRESH" else (b if a == "FRESH" else "L")
        if isinstance(e, ast.BoolOp):
            ps = [p for p in (self.path(v, depth) for v in e.values) if p != "FRESH"]
            return ps[0] if len(set(ps)) == 1 else ("FRESH" if not ps else "L")
        if isinstance(e, ast.Call):
            f = e.func
            if isinstance(f, ast.Name):
                if f.id == "type" and len(e.args) == 1:
                    return "cls"
                if f.id in _THROUGH and e.args:
                    return self.path(e.args[0], depth)
                if f.id in ("getattr",) and len(e.args) >= 2:
                    return "%s.%s" % (self.path(e.args[0], depth), self._key(e.args[1]))
                if _is_fresh_expr(e):
                    return "FRESH"
                return "?"
            if isinstance(f, ast.Attribute):
                if f.attr in ("get", "setdefault") and e.args:
                    return "%s[%s]" % (self.path(f.value, depth), self._key(e.args[0]))
                if f.attr in _THROUGH:
                    base = e.args[0] if (e.args and isinstance(f.value, ast.Name) and f.value.id in ("six", "itertools")) else f.value
                    return self.path(base, depth)
                if _is_fresh_expr(e):
                    return "FRESH"
                return "?"
            return "?"
        if _is_fresh_expr(e):
            return "FRESH"
        return "E"

    @staticmethod
    def _key(s):
        if isinstance(s, ast.Constant):
            return "K"
        if isinstance(s, ast.Slice):
            return ":" if (s.lower is None and s.upper is None) else "*"
        return "*"

    @staticmethod
    def root_of(path):
        return path.split(".")[0].split("[")[0]

    def _site(self, written_obj, full_path, lineno, kind, text):
        wp = self.path(written_obj)
        if wp == "FRESH":
            return None
        if wp == "self" and kind == "attr" and self.allow_self_rebind:
            return None
        shape = ("call:" if kind == "call" else "del:" if kind == "del" else "") + full_path
        return Site(shape, self.root_of(wp), text, lineno)

    def sites(self):
        out = []
        for n in self._walk(self.f):
            targets = []
            kind = "store"
            if isinstance(n, ast.Assign):
                targets = list(n.targets)
            elif isinstance(n, (ast.AugAssign, ast.AnnAssign)):
                targets = [n.target]
            elif isinstance(n, (ast.For, ast.AsyncFor, ast.comprehension)):
                targets = [n.target]
            elif isinstance(n, ast.Delete):
                targets = list(n.targets)
                kind = "del"
            elif isinstance(n, (ast.With, ast.AsyncWith)):
                targets = [it.optional_vars for it in n.items if it.optional_vars is not None]
            flat = []
            for t in targets:
                flat.extend(t.elts if isinstance(t, (ast.Tuple, ast.List)) else [t])
            for t in flat:
                if isinstance(t, ast.Starred):
                    t = t.value
                if isinstance(t, ast.Name):
                    if t.id in self.globals_declared:
                        out.append(Site("G:" + t.id, "G:" + t.id, t.id, getattr(t, "lineno", 0)))
                    continue
                if isinstance(t, ast.Attribute):
                    s = self._site(t.value, self.path(t), t.lineno, "attr" if kind == "store" else "del", ast.unparse(t))
                elif isinstance(t, ast.Subscript):
                    s = self._site(t.value, self.path(t), t.lineno, "sub" if kind == "store" else "del", ast.unparse(t))
                else:
                    continue
                if s is not None:
                    out.append(s)
            if isinstance(n, ast.Call) and isinstance(n.func, ast.Attribute) and n.func.attr in MUTATORS:
                s = self._site(n.func.value, "%s.%s" % (self.path(n.func.value), n.func.attr), n.lineno, "call", ast.unparse(n.func))
                if s is not None:
                    out.append(s)
            if isinstance(n, ast.Call) and isinstance(n.func, ast.Name) and n.func.id in ("setattr", "delattr") and len(n.args) >= 2:
                s = self._site(n.args[0], "%s.%s" % (self.path(n.args[0]), self._key(n.args[1])), n.lineno, "attr", ast.unparse(n))
                if s is not None:
                    out.append(s)
        return sorted(set(out), key=lambda s: (s.lineno, s.shape))


def functions_of(modinfo):
    """[(qualname, node, is_method)] of a pyvc.repo module (top-level functions and methods, nested ones included)"""
    out = []
    for n, f in modinfo.functions.items():
        out.append((n, f, False))
    for cname, ci in modinfo.classes.items():
        for n, f in ci.methods.items():
            out.append(("%s.%s" % (cname, n), f, True))
    res = []
    for (q, f, m) in out:
        res.append((q, f, m))
        for sub in ast.walk(f):
            if sub is not f and isinstance(sub, (ast.FunctionDef, ast.AsyncFunctionDef)):
                res.append(("%s.<locals>.%s" % (q, sub.name), sub, False))
    return res


def all_sites(modinfo, allow_self_rebind=True, self_rebind_in=None):
    """[(qualname, Site)] of a file.  self_rebind_in: predicate on the qualname saying where `self.x = v` is harmless
    (default: everywhere when allow_self_rebind)"""
    out = []
    for (qual, f, is_m) in functions_of(modinfo):
        ok = allow_self_rebind if self_rebind_in is None else bool(self_rebind_in(qual))
        ff = FunctionFrame(f, is_method=is_m if "<locals>" not in qual else False, allow_self_rebind=ok)
        out.extend((qual, s) for s in ff.sites())
    return out


import re as _re


def normalise(shape):
    """[K] and [*] are the same cell for a frame (which key of a dict, which entry of a list); [:] (all entries) is kept"""
    return _re.sub(r"\[(K|\*)\]", "[_]", shape)


def closure(shapes):
    """a helper may be handed a sub-object instead of the object itself (`_mark(assembly.annotations)` writing `P[K]` for
    `P.annotations[K]`): every allowed path also allows its suffixes re-rooted at a parameter"""
    out = set()
    for sh in shapes:
        sh = normalise(sh)
        out.add(sh)
        prefix = ""
        body = sh
        for pre in ("call:", "del:"):
            if body.startswith(pre):
                prefix, body = pre, body[len(pre):]
        root = _re.match(r"(self|cls|P|L|\?|E|FRESH|G:[A-Za-z_0-9]+)", body)
        if not root or root.group(1) != "P":
            continue
        comps = _re.findall(r"\.[A-Za-z_0-9]+|\[[^\]]*\]", body[len("P"):])
        for k in range(1, len(comps)):             # (the last component -- the cell, or the method of a call -- stays)
            out.add(prefix + "P" + "".join(comps[k:]))
    return out


def _fresh_returning(modinfo):
    """names of the functions / methods of the file whose every `return` hands back a fresh object (a constructor call, a
    literal, a sum ...)"""
    out = set()
    for (qual, f, _m) in functions_of(modinfo):
        rets = [n for n in ast.walk(f) if isinstance(n, ast.Return) and n.value is not None]
        if rets and all(_is_fresh_expr(r.value) for r in rets):
            out.add(qual.split(".")[-1])
    return out


def _param_always_fresh(modinfo, qual, pname):
    """the parameter `pname` of the PRIVATE function `qual` receives, at every call site in the file (at least one), an
    object that was made there: a fresh expression, or the result of a function of the file that returns fresh objects.
    What such a function writes through that parameter stays inside the object under construction."""
    name = qual.split(".")[-1]
    if not name.startswith("_") or name.startswith("__"):
        return False
    target = next((f for (q, f, _m) in functions_of(modinfo) if q == qual), None)
    if target is None:
        return False
    params = [a.arg for a in target.args.posonlyargs + target.args.args]
    if pname not in params:
        return False
    is_method = "." in qual and params and params[0] in ("self", "cls")
    idx = params.index(pname) - (1 if is_method else 0)
    fresh_fns = _fresh_returning(modinfo)
    seen = 0
    for (q2, f2, m2) in functions_of(modinfo):
        ff = None
        for n in ast.walk(f2):
            if not isinstance(n, ast.Call):
                continue
            fn = n.func
            callee = fn.attr if isinstance(fn, ast.Attribute) else (fn.id if isinstance(fn, ast.Name) else None)
            if callee != name:
                continue
            arg = None
            if 0 <= idx < len(n.args):
                arg = n.args[idx]
            for kw in n.keywords:
                if kw.arg == pname:
                    arg = kw.value
            if arg is None:
                return False
            seen += 1
            if ff is None:
                ff = FunctionFrame(f2, is_method=m2 if "<locals>" not in q2 else False)

            def fresh(e, depth=0):
                if _is_fresh_expr(e):
                    return True
                if isinstance(e, ast.Call):
                    c = e.func.attr if isinstance(e.func, ast.Attribute) else (e.func.id if isinstance(e.func, ast.Name) else None)
                    return c in fresh_fns
                if isinstance(e, ast.Name) and depth < 4:
                    b = ff.binds.get(e.id)
                    return bool(b) and e.id not in ff.role and all(k == "assign" and fresh(x, depth + 1) for (k, x) in b)
                return False

            if not fresh(arg):
                return False
    return seen > 0


def check_frame(modinfo, rel, shapes=(), roots=None, allow_self_rebind=True, self_rebind_in=None):
    """the stores of the file that are outside the frame.
    shapes: allowed path shapes of the file;  roots: when given, only stores whose root is in this set are of
    interest (e.g. {'cls', 'G'} for shared state; 'G' stands for every module-level name)."""
    bad = []
    allowed = closure(shapes)
    for (qual, s) in all_sites(modinfo, allow_self_rebind, self_rebind_in):
        if normalise(s.shape) in allowed:
            continue
        r = "G" if s.root.startswith("G:") else s.root
        if roots is not None and r not in roots:
            continue
        if r == "G" and s.shape.endswith("[*]") and pure_memo_store(modinfo, s):
            continue          # a table of F(key) under key: no cross-call state (see pure_memo_store)
        if r == "P":
            m_ = _re.match(r"[A-Za-z_]\w*", s.text)
            shallow = _re.fullmatch(r"(call:)?P(\.\w+){1,2}", s.shape)    # the object's own attributes / its own containers;
            # what lies deeper (elements, qualifier values) may be shared with an input and keeps the old verdict
            if m_ and shallow and _param_always_fresh(modinfo, qual, m_.group(0)):
                continue      # written through a parameter that only ever receives objects made by the caller: not an input
        bad.append(Hit("%s::%s line %d: `%s` writes through the path %s" % (rel, qual, s.lineno, s.text, s.shape), r))
    return bad


def pure_memo_store(modinfo, site):
    """the store is `TABLE[key] = F(key)` (possibly chained: `x = TABLE[key] = F(key)`): a table of a function of exactly its
    key -- F a plain name (a class or a function), `key` its only argument.  Whatever is read back from such a table is what
    a fresh computation from the same key would give (F deterministic: assumed, D-PURE-CTOR), so it is not state that a call
    can observe of an earlier one."""
    for n in ast.walk(modinfo.tree):
        if not (isinstance(n, ast.Assign) and getattr(n, "lineno", None) == site.lineno):
            continue
        subs = [t for t in n.targets if isinstance(t, ast.Subscript) and ast.unparse(t) == site.text]
        if not subs or not isinstance(n.value, ast.Call):
            continue
        c = n.value
        if c.keywords or len(c.args) != 1 or not isinstance(c.func, ast.Name):
            continue
        if all(ast.unparse(t.slice) == ast.unparse(c.args[0]) for t in subs) and isinstance(c.args[0], (ast.Name, ast.Constant)):
            return True
    return False


class Hit(str):
    """a store outside the frame, with the root of its access path: a parameter, self, a module-level name, the class
    (`definite`: the object written is reachable from an input or from shared state), or a local of unknown provenance"""
    def __new__(cls, text, root):
        o = str.__new__(cls, text)
        o.root = root
        return o

    @property
    def definite(self):
        return self.root not in ("L", "?", "E")


def memoised(modinfo, rel):
    """functions wrapped in a memoising decorator (functools.lru_cache / cache, or anything named *memo* / *cache* except
    the per-instance cached_property): state that outlives the call without any syntactic store"""
    out = []
    for (qual, f, _m) in functions_of(modinfo):
        for d in f.decorator_list:
            txt = ast.unparse(d)
            base = txt.split("(")[0].split(".")[-1]
            if base in ("cached_property", "classproperty", "catch_warnings"):
                continue
            if base in ("lru_cache", "cache") or "memo" in base.lower() or base.lower().endswith("cache"):
                out.append("%s::%s is memoised by @%s" % (rel, qual, txt))
    return out
