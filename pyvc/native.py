# coding: utf-8
"""Import of the tree under verification (exactly as tests/__init__.py does), for replay and the
bounded stand-ins.  Nothing is written into the tree (PYTHONDONTWRITEBYTECODE=1 is set by ./check)."""
from __future__ import annotations

import os
import sys
import importlib

_loaded = {}


def load(repo_root=None):
    repo_root = repo_root or os.environ.get("VERIF_REPO", "/repo")
    if repo_root in _loaded:
        return _loaded[repo_root]
    sys.dont_write_bytecode = True
    base = os.path.join(repo_root, "moclo")
    if base not in sys.path:
        sys.path.insert(0, base)
    import moclo
    import moclo.kits
    import moclo.registry
    for ext in ("cidar", "ytk", "ecoflex", "moclo", "plant"):
        d = os.path.join(repo_root, "moclo-" + ext, "moclo")
        for pkg, sub in ((moclo.kits, "kits"), (moclo.registry, "registry")):
            p = os.path.join(d, sub)
            if os.path.isdir(p) and p not in pkg.__path__:
                pkg.__path__.append(p)
    ns = dict(moclo=moclo)
    for name in ("moclo.record", "moclo.regex", "moclo.errors", "moclo.core", "moclo.core._assembly",
                 "moclo.core._structured", "moclo.core.modules", "moclo.core.vectors", "moclo.core.parts",
                 "moclo.core._utils"):
        ns[name] = importlib.import_module(name)
    _loaded[repo_root] = ns
    return ns


def kits(repo_root=None):
    load(repo_root)
    out = {}
    for k in ("ytk", "cidar", "ecoflex", "moclo", "plant"):
        try:
            out[k] = importlib.import_module("moclo.kits." + k)
        except Exception as e:  # a kit that does not import is reported by the caller
            out[k] = e
    return out
