# coding: utf-8
"""Front end: reads the *real* source of the tree under verification on every run.

What the extraction drops (DESIGN 2.2): docstrings, comments, type comments,
``from __future__``/``typing`` imports and ``if typing.TYPE_CHECKING`` blocks.
Nothing else: function bodies are executed statement by statement as written.
"""
from __future__ import annotations

import ast
import hashlib
import os

REPO = os.environ.get("VERIF_REPO", "/repo")

# repo-relative path -> dotted module name
MODULE_FILES = {
    "moclo/moclo/__init__.py": "moclo",
    "moclo/moclo/_utils.py": "moclo._utils",
    "moclo/moclo/errors.py": "moclo.errors",
    "moclo/moclo/record.py": "moclo.record",
    "moclo/moclo/regex.py": "moclo.regex",
    "moclo/moclo/core/__init__.py": "moclo.core",
    "moclo/moclo/core/_assembly.py": "moclo.core._assembly",
    "moclo/moclo/core/_structured.py": "moclo.core._structured",
    "moclo/moclo/core/_utils.py": "moclo.core._utils",
    "moclo/moclo/core/modules.py": "moclo.core.modules",
    "moclo/moclo/core/vectors.py": "moclo.core.vectors",
    "moclo/moclo/core/parts.py": "moclo.core.parts",
    "moclo/moclo/_impl.py": "moclo._impl",
    "moclo/moclo/registry/base.py": "moclo.registry.base",
    "moclo/moclo/registry/_utils.py": "moclo.registry._utils",
    "moclo-ytk/moclo/kits/ytk.py": "moclo.kits.ytk",
    "moclo-cidar/moclo/kits/cidar.py": "moclo.kits.cidar",
    "moclo-ecoflex/moclo/kits/ecoflex.py": "moclo.kits.ecoflex",
    "moclo-moclo/moclo/kits/moclo.py": "moclo.kits.moclo",
    "moclo-plant/moclo/kits/plant.py": "moclo.kits.plant",
}


class ClassInfo(object):
    def __init__(self, name, node, module):
        self.name = name
        self.node = node
        self.module = module
        self.bases = [ast.unparse(b) for b in node.bases]
        self.methods = {}
        self.attrs = {}  # class-level simple assignments: name -> ast expr
        self.decorators = {}
        for st in node.body:
            if isinstance(st, ast.FunctionDef):
                self.methods[st.name] = st
                self.decorators[st.name] = [ast.unparse(d) for d in st.decorator_list]
            elif isinstance(st, ast.Assign) and len(st.targets) == 1 and isinstance(st.targets[0], ast.Name):
                self.attrs[st.targets[0].id] = st.value

    def __repr__(self):
        return "ClassInfo<%s>" % self.name


class ModuleInfo(object):
    def __init__(self, relpath, dotted, tree, source):
        self.relpath = relpath
        self.dotted = dotted
        self.tree = tree
        self.source = source
        self.sha = hashlib.sha1(source.encode("utf-8")).hexdigest()
        self.classes = {}
        self.functions = {}
        self.assigns = {}
        self.imports = {}  # local name -> ("mod", dotted) | ("name", dotted module, attr)
        self._scan(tree.body)

    def _scan(self, body):
        for st in body:
            if isinstance(st, ast.ClassDef):
                self.classes[st.name] = ClassInfo(st.name, st, self)
            elif isinstance(st, ast.FunctionDef):
                self.functions[st.name] = st
            elif isinstance(st, ast.Assign) and len(st.targets) == 1 and isinstance(st.targets[0], ast.Name):
                self.assigns[st.targets[0].id] = st.value
            elif isinstance(st, ast.Import):
                for a in st.names:
                    local = a.asname or a.name.split(".")[0]
                    self.imports[local] = ("mod", a.name if a.asname else a.name.split(".")[0])
            elif isinstance(st, ast.ImportFrom):
                if st.module == "__future__":
                    continue
                base = self._resolve_relative(st.module, st.level)
                for a in st.names:
                    self.imports[a.asname or a.name] = ("name", base, a.name)
            elif isinstance(st, ast.If):
                # `if typing.TYPE_CHECKING:` blocks are dropped
                if "TYPE_CHECKING" in ast.unparse(st.test):
                    continue
                self._scan(st.body)
                self._scan(st.orelse)

    def _resolve_relative(self, module, level):
        if level == 0:
            return module
        parts = self.dotted.split(".")
        is_pkg = self.relpath.endswith("__init__.py")
        up = level - (1 if is_pkg else 0)
        base = parts[: len(parts) - up] if up else parts
        if not is_pkg and level >= 1:
            base = parts[: len(parts) - level]
        if module:
            base = base + module.split(".")
        return ".".join(base)


class Repo(object):
    def __init__(self, root=None):
        self.root = root or REPO
        self.modules = {}
        self.by_dotted = {}
        for rel, dotted in MODULE_FILES.items():
            path = os.path.join(self.root, rel)
            if not os.path.exists(path):
                continue
            src = open(path, encoding="utf-8").read()
            tree = ast.parse(src, filename=path)
            mi = ModuleInfo(rel, dotted, tree, src)
            self.modules[rel] = mi
            self.by_dotted[dotted] = mi

    def module(self, rel):
        return self.modules[rel]

    def find_class(self, name):
        for mi in self.modules.values():
            if name in mi.classes:
                return mi.classes[name]
        return None

    def function(self, rel, qual):
        mi = self.modules[rel]
        if "." in qual:
            cname, fname = qual.split(".", 1)
            ci = mi.classes[cname]
            return ci.methods[fname], ci
        return mi.functions[qual], None

    def source_segment(self, rel, qual):
        node, _ = self.function(rel, qual)
        return ast.get_source_segment(self.modules[rel].source, node)


def strip_docstring(body):
    if body and isinstance(body[0], ast.Expr) and isinstance(body[0].value, ast.Constant) and isinstance(
            body[0].value.value, str):
        return body[1:]
    return body
