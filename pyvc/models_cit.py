# coding: utf-8
"""Pointwise model of literature citations (C10, C07).

* a record's features are a pointwise list (generic feature f);
* f.qualifiers is a QualDict whose tracked key "citation" is absent or a CitList;
* a CitList is a python list represented by its length and ONE generic entry (`rep`): either a str (VT) -- a
  bracketed index -- or a Reference object (VObj Reference with integer identity);
* record.annotations["references"] is a list of Reference identities (Seq Int).

D-RE-CIT (assumed): the pattern r"\\[(\\d*)\\]" matches (as a prefix) exactly the texts for which cit_ok holds, group 1
being cit_digits(text); for a canonical text "[" + str(q) + "]" (q >= 0) it matches with digits str(q)."""
from __future__ import annotations

from . import term as tm
from .term import T, INT, BOOL, STR
from .values import (VT, VNone, NONE, VTuple, VList, VDict, VRepList, VObj, VClass, VModel, VModule, VSlice, VOpaque, State)
from .symex import Unsupported
from . import models as M

M.ASSUMPTIONS["D-RE-CIT"] = ("re on the citation pattern \\[(\\d*)\\]: match(text) is not None iff text starts with '[' digits* ']'; "
                             "group(1) is the digits; for text = '[' + str(q) + ']' with q >= 0 it matches and the digits are str(q)")
CIT_PATTERN = "\\[(\\d*)\\]"


def mk_reference(st, ident):
    o = VObj("Reference")
    st.set_inplace(o, "ident", VT(ident))
    return o


def mk_citlist(st, rep, length):
    o = VObj("CitList")
    st.set_inplace(o, "rep", rep)
    st.set_inplace(o, "length", VT(length))
    return o


def mk_qualdict(st, citlist=None):
    o = VObj("QualDict")
    if citlist is not None:
        st.set_inplace(o, "citation", citlist)
    return o


def _const_key(k):
    return isinstance(k, VT) and tm.is_const(k.t) and tm.cval(k.t)


def km_quals_get(ex, st, fr, self, args, kwargs):
    if _const_key(args[0]) != "citation":
        raise Unsupported("qualifiers.get(%r)" % (args[0],))
    c = st.get(self, "citation")
    if c is not None:
        return [(st, "ok", c)]
    return [(st, "ok", args[1] if len(args) > 1 else NONE)]


def km_quals_getitem(ex, st, fr, self, args, kwargs):
    if _const_key(args[0]) != "citation":
        raise Unsupported("qualifiers[%r]" % (args[0],))
    c = st.get(self, "citation")
    if c is not None:
        return [(st, "ok", c)]
    return ex.raise_(st, "KeyError", args[0])


def km_quals_contains(ex, st, fr, self, args, kwargs):
    if _const_key(args[0]) != "citation":
        raise Unsupported("%r in qualifiers" % (args[0],))
    return [(st, "ok", VT(tm.B(st.get(self, "citation") is not None)))]


def km_quals_setitem(ex, st, fr, self, args, kwargs):
    if _const_key(args[0]) != "citation":
        raise Unsupported("qualifiers[%r] = ..." % (args[0],))
    writes = st.ghost.get("cit_writes", ())
    st = st.set(self, "citation", args[1])
    st.ghost["cit_writes"] = writes + (("rebind", self.oid),)
    return [(st, "ok", NONE)]


def km_citlist_setitem(ex, st, fr, self, args, kwargs):
    """lst[i] = v inside the pointwise loop over the same list: i must be the loop's own index"""
    idx, v = args
    cur = st.ghost.get("cit_loop")
    if cur is None or cur[0] != self.oid or not (isinstance(idx, VT) and idx.t == cur[1]):
        raise Unsupported("citation list item store outside its own pointwise loop")
    writes = st.ghost.get("cit_writes", ())
    st = st.set(self, "rep", v)
    st.ghost["cit_writes"] = writes + (("item", self.oid),)
    return [(st, "ok", NONE)]


def km_citlist_len(ex, st, fr, self, args, kwargs):
    return [(st, "ok", st.get(self, "length"))]


def citlist_copy(st, c):
    st = st.fork()
    o = mk_citlist(st, st.get(c, "rep"), st.get(c, "length").t)
    return st, o


def citlist_assign_all(ex, st, target, value):
    """target[:] = value  (slice assignment of the whole list): the content of `value` is copied into `target`"""
    if not (isinstance(target, VObj) and target.kind == "CitList" and isinstance(value, VObj) and value.kind == "CitList"):
        raise Unsupported("slice assignment on %r" % (target,))
    writes = st.ghost.get("cit_writes", ())
    st = st.set(target, "rep", st.get(value, "rep")).set(target, "length", st.get(value, "length"))
    st.ghost["cit_writes"] = writes + (("all", target.oid),)
    return [(st, "ok", None)]


def entry_is_str(v):
    return isinstance(v, VT) and v.t.sort == STR


# the citation regex -----------------------------------------------------------------------------------------------
def km_citre_match(ex, st, fr, self, args, kwargs):
    ex.used_models.add("D-RE-CIT")
    text = args[0]
    if not entry_is_str(text):
        return ex.raise_(st, "TypeError", VT(tm.S("expected string or bytes-like object")))
    ok = tm.app("cit_ok", BOOL, text.t)
    m = VObj("CitMatch")
    s2 = st.assume(ok).set(m, "text", text)
    return [(st.assume(tm.not_(ok)), "ok", NONE), (s2, "ok", m)]


def km_citmatch_group(ex, st, fr, self, args, kwargs):
    if not (args and isinstance(args[0], VT) and tm.is_const(args[0].t) and tm.cval(args[0].t) == 1):
        raise Unsupported("citation match group %r" % (args,))
    return [(st, "ok", VT(tm.app("cit_digits", STR, st.get(self, "text").t)))]


def canonical_citation(text, q):
    """text = '[' + str(q) + ']' with its D-RE-CIT consequences"""
    return [tm.eq(text, tm.concat("[", tm.str_of_int(q), "]")), tm.le(0, q),
            tm.app("cit_ok", BOOL, text), tm.eq(tm.app("cit_digits", STR, text), tm.str_of_int(q))]


M.KIND_METHODS.update({
    ("QualDict", "get"): km_quals_get,
    ("QualDict", "__getitem__"): km_quals_getitem,
    ("QualDict", "__contains__"): km_quals_contains,
    ("QualDict", "__setitem__"): km_quals_setitem,
    ("CitList", "__setitem__"): km_citlist_setitem,
    ("CitList", "__len__"): km_citlist_len,
    ("CitRe", "match"): km_citre_match,
    ("CitMatch", "group"): km_citmatch_group,
})


# ---------------------------------------------------------------------- indexed model (for _ref_citations: the
# reference list grows across iterations, so the pointwise model does not apply)
# features = Seq of feature identities; cite(f, i) = identity of the i-th cited reference of feature f (before the
# pass); ncit(f) = number of citation entries; the texts written by the pass: WRITTEN : Array f (Array i String).
W2 = tm.arr_sort(INT, tm.arr_sort(INT, STR))


def cite(f, i):
    return tm.app("cite", INT, f, i)


def ncit(f):
    return tm.app("ncit", INT, f)


def mk_citfeature(st, fid):
    f = VObj("CitFeature")
    st.set_inplace(f, "ident", VT(fid))
    q = VObj("QualDictIdx")
    st.set_inplace(q, "ident", VT(fid))
    st.set_inplace(f, "qualifiers", q)
    return f


def km_qidx_get(ex, st, fr, self, args, kwargs):
    if _const_key(args[0]) != "citation":
        raise Unsupported("qualifiers.get(%r)" % (args[0],))
    o = VObj("CitListIdx")
    return [(st.set(o, "ident", st.get(self, "ident")), "ok", o)]


def km_qidx_getitem(ex, st, fr, self, args, kwargs):
    return km_qidx_get(ex, st, fr, self, args, kwargs)


def km_clidx_setitem(ex, st, fr, self, args, kwargs):
    idx, v = args
    if not (isinstance(idx, VT) and idx.t.sort == INT and isinstance(v, VT) and v.t.sort == STR):
        raise Unsupported("citation list store %r" % (args,))
    fid = st.get(self, "ident").t
    w = st.ghost["WRITTEN"]
    st = st.fork()
    st.ghost["WRITTEN"] = tm.store(w, fid, tm.store(tm.select(w, fid), idx.t, v.t))
    st.ghost["written_log"] = st.ghost.get("written_log", ()) + ((fid, idx.t),)
    return [(st, "ok", NONE)]


def km_symlist_index(ex, st, fr, self, args, kwargs):
    """list.index(x): the least position holding x; ValueError when absent (D-LIST)"""
    R = st.get(self, "seq").t
    x = ex.models.as_elem(ex, st, args[0], tm.elem_sort(R.sort))
    present = T("seq.contains", (R, tm.sequnit(x)), BOOL)
    j = tm.fresh("pos", INT)
    t = tm.V("t_", INT)
    s_ok = st.assume(present, tm.le(0, j), tm.lt(j, tm.seqlen(R)), tm.eq(tm.seqnth(R, j), x),
                     tm.forall_range(t, 0, j, tm.ne(tm.seqnth(R, t), x)))
    return ex.raise_(st.assume(tm.not_(present)), "ValueError") + [(s_ok, "ok", VT(j))]


def km_symlist_contains(ex, st, fr, self, args, kwargs):
    R = st.get(self, "seq").t
    x = ex.models.as_elem(ex, st, args[0], tm.elem_sort(R.sort))
    return [(st, "ok", VT(T("seq.contains", (R, tm.sequnit(x)), BOOL)))]


M.KIND_METHODS.update({
    ("QualDictIdx", "get"): km_qidx_get,
    ("QualDictIdx", "__getitem__"): km_qidx_getitem,
    ("CitListIdx", "__setitem__"): km_clidx_setitem,
    ("symlist", "index"): km_symlist_index,
    ("symlist", "__contains__"): km_symlist_contains,
})
