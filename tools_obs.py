#!/venv/bin/python
"""debug aid: tools_obs.py PROP REGEX -- the obligations whose name matches, with verdict, back end and time"""
import importlib, os, re, sys
sys.path.insert(0, os.path.dirname(os.path.abspath(__file__)))
from pyvc.run import Ctx  # noqa: E402
from pyvc.solve import solve_all  # noqa: E402

prop, rx = sys.argv[1], sys.argv[2]
pm = importlib.import_module("props." + prop)
ctx = Ctx(prop, "quick", 0, os.environ.get("VERIF_REPO", "/repo"))
obs = [o for o in pm.obligations(ctx) if re.search(rx, o.name)]
solve_all(obs, timeout_s=ctx.timeout, workdir=ctx.workdir, jobs=12)
for o in obs:
    r = o.result
    print("%-9s %-6s %5.1fs  %s" % (r["status"], ",".join(r.get("by") or []), r["time"], o.name[-150:]))
for i in ctx.fun_info:
    if i.get("unreached"):
        print("UNREACHED", i["function"], i["unreached"][:600])
ctx.close() if hasattr(ctx, "close") else None
