#!/venv/bin/python
"""try one textual mutant on a scratch copy:  tools_mutant.py FILE OLD NEW PROP [PROP...]
(or: tools_mutant.py --patch PATCHFILE PROP...)   prints the exit code and VIOLATION lines per property"""
import os, shutil, subprocess, sys, tempfile
args = sys.argv[1:]
tmp = tempfile.mkdtemp(prefix="mut-")
try:
    for d in os.listdir("/repo"):
        if d.startswith("moclo") or d in ("tests", "setup.cfg", "docs"):
            src = os.path.join("/repo", d)
            (shutil.copytree if os.path.isdir(src) else shutil.copy)(src, os.path.join(tmp, d))
    if args[0] == "--patch":
        subprocess.check_call(["patch", "-p1", "-s", "-d", tmp, "-i", os.path.abspath(args[1])])
        props = args[2:]
    else:
        f, old, new = args[0], args[1], args[2]
        p = os.path.join(tmp, f)
        s = open(p).read()
        assert s.count(old) >= 1, "pattern not found"
        open(p, "w").write(s.replace(old, new, 1))
        props = args[3:]
    env = dict(os.environ, VERIF_REPO=tmp, VERIF_NO_EVIDENCE="1")
    for pr in props:
        try:
            r = subprocess.run(["/verif/check", pr], env=env, stdout=subprocess.PIPE, stderr=subprocess.STDOUT, universal_newlines=True, timeout=900)
        except subprocess.TimeoutExpired:
            print(pr, "TIMEOUT"); continue
        lines = [l for l in r.stdout.splitlines() if l.startswith(("VIOLATION", "DEGRADED", "CHECKER", "KNOWN", pr))]
        print(pr, "exit", r.returncode)
        for l in lines[:6]:
            print("   ", l[:300])
finally:
    shutil.rmtree(tmp, ignore_errors=True)
