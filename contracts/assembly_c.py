# coding: utf-8
"""Sidecar contracts for moclo/moclo/core/_assembly.py (AssemblyManager).

Model (DESIGN appendix B): the supplied modules are a list M of entity identities (the same object passed twice
is the same identity at two positions); the vector is the identity v.  Everything an entity reports is a
function of its identity (abstract view of the entity contracts): valid(e), ostart(e), oend(e), frag(e).
The start-overhang map is an `Array Text -> Identity` with -1 for absent (python dict keyed by Seq, hashed and
compared by text: D-SEQ).

Postconditions are C03/C01: a product is returned exactly when the vector's overhangs differ, no two distinct
modules share (or reverse-complement) a start overhang, and the walk from oend(v) reaches ostart(v); the product
text is cat(path) . frag(v) for the walked path; otherwise InvalidSequence / DuplicateModules / MissingModule(o)."""
from __future__ import annotations

import ast

from pyvc import term as tm
from pyvc.term import INT, BOOL, STR
from pyvc.values import VT, VObj, VNone, NONE, VTuple, VList, VDict, VClass, new_oid
from pyvc.contract import Contract, LoopSpec
from pyvc.models_moclo import abstract_entity, MAP, ABSENT, map_arr
from pyvc.models_bio import FEATS
from contracts.entities_c import wf, valid

FILE = "moclo/moclo/core/_assembly.py"
SEQI = tm.seq_sort(INT)


def ostart(e):
    return tm.app("ostart", STR, e)


def oend(e):
    return tm.app("oend", STR, e)


def frag(e):
    return tm.app("frag", STR, e)


def rc(t):
    return tm.app("rc", STR, t)


def M_at(M, i):
    return tm.seqnth(M, i)


def mk_manager(ex, st, with_fields=True):
    ex.models.elem_kind = "AbstractModule"
    mgr = VObj("AssemblyManager")
    v = abstract_entity(st, "AbstractVector", tm.V("v", INT))
    M = VT(tm.V("M", SEQI), "list")
    if with_fields:
        st.set_inplace(mgr, "vector", v)
        st.set_inplace(mgr, "modules", M)
        st.set_inplace(mgr, "elements", VT(tm.seqcat(M.t, tm.sequnit(tm.V("v", INT))), "list"))
        st.set_inplace(mgr, "name", VT(tm.V("name", STR)))
        st.set_inplace(mgr, "id", VT(tm.V("id_", STR)))
    return mgr, v, M


def all_wf(M, v):
    i = tm.V("i", INT)
    return [("vector-well-formed", wf(v)),
            ("modules-well-formed", tm.forall_range(i, 0, tm.seqlen(M), tm.and_(wf(M_at(M, i)), tm.le(0, M_at(M, i)))))]


def inv_mgr(M, v):
    """what __init__ establishes: the vector is valid and its two overhangs differ"""
    return all_wf(M, v) + [("vector-valid", valid(v)), ("vector-overhangs-differ", tm.ne(ostart(v), oend(v)))]


def dup_cond(M):
    i, j = tm.V("i", INT), tm.V("j", INT)
    n = tm.seqlen(M)
    return tm.exists([i, j], tm.and_(tm.le(0, i), tm.lt(i, j), tm.lt(j, n), tm.ne(M_at(M, i), M_at(M, j)),
                                     tm.eq(ostart(M_at(M, i)), ostart(M_at(M, j)))))


def rcdup_cond(M):
    i, j = tm.V("i", INT), tm.V("j", INT)
    n = tm.seqlen(M)
    return tm.exists([i, j], tm.and_(tm.le(0, i), tm.lt(i, n), tm.le(0, j), tm.lt(j, n),
                                     tm.eq(ostart(M_at(M, i)), rc(ostart(M_at(M, j))))))


def some_invalid(M):
    i = tm.V("i", INT)
    return tm.exists_range(i, 0, tm.seqlen(M), tm.not_(valid(M_at(M, i))))


def map_post(M, arr, upto=None):
    """the start-overhang map after the first `upto` modules (all of them by default)"""
    i, s = tm.V("i", INT), tm.V("s", STR)
    n = tm.seqlen(M) if upto is None else upto
    return [("every-module-is-filed-under-its-start-overhang",
             tm.forall_range(i, 0, n, tm.eq(tm.select(arr, ostart(M_at(M, i))), M_at(M, i)))),
            ("every-entry-is-a-valid-module-filed-under-its-own-start-overhang",
             tm.forall([s], tm.implies(tm.ne(tm.select(arr, s), ABSENT),
                                       tm.and_(tm.eq(ostart(tm.select(arr, s)), s), valid(tm.select(arr, s)),
                                               wf(tm.select(arr, s)), tm.le(0, tm.select(arr, s))))))]


# ------------------------------------------------------------------------------------------------ __init__
class Init(Contract):
    file, qual = FILE, "AssemblyManager.__init__"
    props = ("C03", "C17", "C18")

    def setup(self, ex, st, variant):
        mgr, v, M = mk_manager(ex, st, with_fields=False)
        return dict(self=mgr, vector=v, modules=M, id_=VT(tm.V("id_", STR)), name=VT(tm.V("name", STR)))

    def requires(self, ex, st, a):
        return all_wf(a["modules"].t, st.get(a["vector"], "ident").t)

    def raises(self, ex, st, a):
        v = st.get(a["vector"], "ident").t
        return [("InvalidSequence", tm.or_(tm.not_(valid(v)), tm.eq(ostart(v), oend(v))), None)]

    def ensures(self, ex, pre, st, a, result):
        mgr = a["self"]
        v = pre.get(a["vector"], "ident").t
        return [("stores-vector", tm.B(st.get(mgr, "vector") is a["vector"])),
                ("stores-modules", tm.eq(ex.models.list_term(st, st.get(mgr, "modules"), INT), a["modules"].t)),
                ("elements-are-modules-then-vector",
                 tm.eq(ex.models.list_term(st, st.get(mgr, "elements"), INT), tm.seqcat(a["modules"].t, tm.sequnit(v)))),
                ("stores-id", tm.eq(st.get(mgr, "id").t, a["id_"].t)),
                ("stores-name", tm.eq(st.get(mgr, "name").t, a["name"].t))]

    def result(self, ex, st, a):
        st = st.fork()
        mgr = a["self"]
        v = st.get(a["vector"], "ident").t
        st.set_inplace(mgr, "vector", a["vector"])
        st.set_inplace(mgr, "modules", a["modules"])
        st.set_inplace(mgr, "elements", VT(tm.seqcat(ex.models.list_term(st, a["modules"], INT), tm.sequnit(v)), "list"))
        st.set_inplace(mgr, "id", a["id_"])
        st.set_inplace(mgr, "name", a["name"])
        return [(st, NONE)]

    def model_terms(self, ex, st, a):
        v = st.get(a["vector"], "ident").t
        return dict(vstart=ostart(v), vend=oend(v), vvalid=valid(v))


# ------------------------------------------------------------------------------------------------ _generate_modules_map
IDX = tm.arr_sort(STR, INT)


class MapLoop0(LoopSpec):
    kind, iterates = ast.For, "modules"
    """for mod in self.modules: setdefault ... -- ghost idx[key] = position of the module that filed the key"""

    def __init__(self, con):
        self.con = con

    def havoc(self, ex, st, ctx, modified):
        st = LoopSpec.havoc(self, ex, st, ctx, modified - {"modmap"})
        d = st.env["modmap"]
        st.set_inplace(d, "arr", VT(tm.fresh("arr", MAP)))
        st.ghost["idx"] = tm.fresh("idx", IDX)
        return st

    def _arr(self, st):
        return map_arr(st, st.env["modmap"])

    def invariant(self, ex, st, ctx):
        M = self.con.M
        k = ctx["k"]
        arr = self._arr(st)
        idx = st.ghost.get("idx", tm.constarr(IDX, 0))
        s = tm.V("s", STR)
        inv = map_post(M, arr, upto=k)
        inv.append(("every-entry-was-filed-by-an-earlier-module",
                    tm.forall([s], tm.implies(tm.ne(tm.select(arr, s), ABSENT),
                                              tm.and_(tm.le(0, tm.select(idx, s)), tm.lt(tm.select(idx, s), k),
                                                      tm.eq(M_at(M, tm.select(idx, s)), tm.select(arr, s)))))))
        i, j = tm.V("i", INT), tm.V("j", INT)
        inv.append(("no-duplicate-so-far",
                    tm.forall([i, j], tm.implies(tm.and_(tm.le(0, i), tm.lt(i, j), tm.lt(j, k),
                                                         tm.eq(ostart(M_at(M, i)), ostart(M_at(M, j)))),
                                                 tm.eq(M_at(M, i), M_at(M, j))))))
        inv.append(("all-valid-so-far", tm.forall_range(i, 0, k, valid(M_at(M, i)))))
        inv.append(("k-in-range", tm.le(k, tm.imax(tm.seqlen(M), 0))))
        return inv

    def at_body_start(self, ex, st, ctx):
        st = st.fork()
        st.ghost["arr_at_start"] = self._arr(st)
        return st

    def at_body_end(self, ex, st, ctx):
        st = st.fork()
        M = self.con.M
        k = ctx["k"]
        key = ostart(M_at(M, k))
        idx = st.ghost["idx"]
        before = st.ghost["arr_at_start"]
        st.ghost["idx"] = tm.ite(tm.eq(tm.select(before, key), ABSENT), tm.store(idx, key, k), idx)
        return st


class MapLoop1(LoopSpec):
    kind, iterates = ast.For, "modmap"
    """for overhang in modmap: no seen key has its reverse complement in the map"""

    def __init__(self, con):
        self.con = con

    def invariant(self, ex, st, ctx):
        arr = ctx["arr"]
        s = tm.V("s", STR)
        return [("no-seen-key-has-its-reverse-complement-filed",
                 tm.forall([s], tm.implies(tm.select(ctx["seen"], s), tm.eq(tm.select(arr, rc(s)), ABSENT))))]


class GenerateModulesMap(Contract):
    file, qual = FILE, "AssemblyManager._generate_modules_map"
    props = ("C03", "C17", "C18", "C19")

    def setup(self, ex, st, variant):
        mgr, v, M = mk_manager(ex, st)
        self.M = M.t
        self.loops = {0: MapLoop0(self), 1: MapLoop1(self)}
        return dict(self=mgr)

    def _Mv(self, st, a):
        return ex_list(st, a), st.get(st.get(a["self"], "vector"), "ident").t

    def requires(self, ex, st, a):
        M = ex.models.list_term(st, st.get(a["self"], "modules"), INT)
        v = st.get(st.get(a["self"], "vector"), "ident").t
        return inv_mgr(M, v)

    def raises(self, ex, st, a):
        M = ex.models.list_term(st, st.get(a["self"], "modules"), INT)
        return [("InvalidSequence", some_invalid(M), None),
                ("DuplicateModules", tm.or_(dup_cond(M), rcdup_cond(M)), None)]

    def ensures(self, ex, pre, st, a, result):
        M = ex.models.list_term(pre, pre.get(a["self"], "modules"), INT)
        if not isinstance(result, VDict):
            return [("returns-a-dict", None)]
        arr = map_arr(st, result)
        s = tm.V("s", STR)
        return map_post(M, arr) + [
            ("no-entry-has-its-reverse-complement-filed",
             tm.forall([s], tm.implies(tm.ne(tm.select(arr, s), ABSENT), tm.eq(tm.select(arr, rc(s)), ABSENT)))),
            ("manager-untouched", tm.B(st.fields(a["self"]) == pre.fields(a["self"])))]

    def result(self, ex, st, a):
        st = st.fork()
        d = VDict(new_oid())
        st.set_inplace(d, "items", {})
        st.set_inplace(d, "arr", VT(tm.fresh("modmap", MAP)))
        return [(st, d)]

    def model_terms(self, ex, st, a):
        M = ex.models.list_term(st, st.get(a["self"], "modules"), INT)
        return dict(M=M)


def ex_list(st, a):
    return st.get(a["self"], "modules").t


# ------------------------------------------------------------------------------------------------ _generate_assembly
def need_cat(models):
    """cat(P) = frag(P[0]) . ... . frag(P[-1])  (snoc recursion over the path)"""
    def body(p):
        n = tm.seqlen(p)
        return tm.ite(tm.eq(n, 0), tm.S(""), tm.concat(
            tm.app("cat", STR, tm.T("seq.extract", (p, tm.I(0), tm.sub(n, 1)), p.sort)),
            frag(tm.seqnth(p, tm.sub(n, 1)))))

    models.define_rec("cat", [("p", SEQI)], STR, body)


def efeats(e):
    return tm.app("efeats", FEATS, e)


def need_catfeats(models):
    """catfeats(P): feature table of frag(P[0]). ... .frag(P[-1]) by D-REC-ADD: each fragment's table shifted by the
    length of what precedes it (snoc recursion, like cat)"""
    need_cat(models)

    def body(p):
        n = tm.seqlen(p)
        init = tm.T("seq.extract", (p, tm.I(0), tm.sub(n, 1)), p.sort)
        return tm.ite(tm.eq(n, 0), tm.app("feats_empty", FEATS),
                      tm.app("feats_cat", FEATS, tm.app("catfeats", FEATS, init),
                             tm.app("feats_shift", FEATS, efeats(tm.seqnth(p, tm.sub(n, 1))), tm.slen(tm.app("cat", STR, init)))))

    models.define_rec("catfeats", [("p", SEQI)], FEATS, body)


def last_end(P, v):
    n = tm.seqlen(P)
    return tm.ite(tm.eq(n, 0), oend(v), oend(tm.seqnth(P, tm.sub(n, 1))))


def chain(P, v, A0):
    """P is a walk: it starts at the vector's downstream overhang, each module begins where the previous one
    ended, each module is the one filed under that overhang, and no start overhang repeats"""
    t, u = tm.V("t", INT), tm.V("u", INT)
    n = tm.seqlen(P)
    prev = tm.ite(tm.eq(t, 0), oend(v), oend(tm.seqnth(P, tm.sub(t, 1))))
    return [("walk-follows-the-overhangs", tm.forall_range(t, 0, n, tm.and_(
        tm.eq(ostart(tm.seqnth(P, t)), prev), tm.eq(tm.select(A0, ostart(tm.seqnth(P, t))), tm.seqnth(P, t)),
        tm.ne(tm.seqnth(P, t), ABSENT), tm.ne(ostart(tm.seqnth(P, t)), ostart(v))))),
            ("no-start-overhang-used-twice", tm.forall([t, u], tm.implies(
                tm.and_(tm.le(0, t), tm.lt(t, u), tm.lt(u, n)),
                tm.ne(ostart(tm.seqnth(P, t)), ostart(tm.seqnth(P, u))))))]


REM = tm.arr_sort(STR, BOOL)


def snoc_fact(P, e):
    """elements of P ++ [e]: a fact of the theory of sequences, proved once (aux lemma `seq-snoc`) and used,
    instantiated at the path of the current step, as a hint for the quantified invariants"""
    t = tm.V("t", INT)
    Pe = tm.seqcat(P, tm.sequnit(e))
    return tm.and_(tm.forall_range(t, 0, tm.seqlen(P), tm.eq(tm.seqnth(Pe, t), tm.seqnth(P, t))),
                   tm.eq(tm.seqnth(Pe, tm.seqlen(P)), e))


class WalkLoop(LoopSpec):
    """the overhang walk.  The locals are found by the ROLE they play (the sequence-valued cursor, the record being
    accumulated, the map being emptied, the entity just popped), not by their names: a renaming is not a change"""
    kind = ast.While
    def __init__(self, con):
        self.con = con

    @staticmethod
    def _local(st, role):
        from pyvc.symex import Unsupported
        env = {k: v for k, v in st.env.items() if k != "self"}
        if role == "next":
            c = [k for k, v in env.items() if isinstance(v, VObj) and v.kind == "Seq"]
        elif role == "acc":
            c = [k for k, v in env.items() if isinstance(v, VObj) and v.kind in ("SeqRecord", "CircularRecord")]
        elif role == "map":
            c = [k for k, v in env.items() if isinstance(v, VDict)]
        else:
            c = [k for k, v in env.items() if isinstance(v, VObj) and v.kind not in ("Seq", "SeqRecord", "CircularRecord")
                 and st.get(v, "ident") is not None]
        if len(c) != 1:
            raise Unsupported("overhang walk: %d locals could be the %s of the loop (%s)" % (len(c), role, sorted(c)))
        return c[0]

    def havoc(self, ex, st, ctx, modified):
        st = st.fork()
        st.env[self._local(st, "next")] = ex.models.mk_seq(st, tm.fresh("overhang_next", STR))
        acc_name = self._local(st, "acc")
        acc = st.env[acc_name]
        r = ex.models.mk_record(st, "SeqRecord", tm.fresh("acc", STR))
        for k, f in st.fields(acc).items():
            if k != "seq":
                st.set_inplace(r, k, f)
        st.set_inplace(r, "features", VT(tm.fresh("accfeats", FEATS), "list"))
        st.env[acc_name] = r
        for k_ in [k_ for k_, v_ in st.env.items() if k_ != "self" and isinstance(v_, VObj) and v_.kind not in ("Seq", "SeqRecord", "CircularRecord") and st.get(v_, "ident") is not None]:
            del st.env[k_]
        d = st.env[self._local(st, "map")]
        st.set_inplace(d, "arr", VT(tm.fresh("A", MAP)))
        st.ghost["path"] = tm.fresh("P", SEQI)
        st.ghost["removed"] = tm.fresh("removed", REM)
        st.ghost["usedby"] = tm.fresh("usedby", IDX)
        return st

    def invariant(self, ex, st, ctx):
        need_cat(ex.models)
        con = self.con
        v, A0 = con.v, con.A0
        P = st.ghost.get("path", tm.seqempty(INT))
        removed = st.ghost.get("removed", tm.constarr(REM, tm.FALSE))
        A = map_arr(st, st.env[self._local(st, "map")])
        on = ex.models.text(st, st.env[self._local(st, "next")])
        acc_ = st.env[self._local(st, "acc")]
        acc = ex.models.rec_text(st, acc_)
        s, t = tm.V("s", STR), tm.V("t", INT)
        need_catfeats(ex.models)
        accf = ex.models.feats_term(st, st.get(acc_, "features"))
        inv = [("accumulated-text-is-cat-of-the-path", tm.eq(acc, tm.app("cat", STR, P))),
               ("accumulated-features-are-the-shifted-fragment-tables", tm.eq(accf, tm.app("catfeats", FEATS, P))),
               ("next-overhang-is-the-end-of-the-path", tm.eq(on, last_end(P, v)))]
        inv += chain(P, v, A0)
        inv.append(("map-is-the-initial-map-minus-the-used-overhangs",
                    tm.forall([s], tm.eq(tm.select(A, s), tm.ite(tm.select(removed, s), tm.I(ABSENT), tm.select(A0, s))))))
        inv.append(("used-overhangs-are-those-of-the-path",
                    tm.forall_range(t, 0, tm.seqlen(P), tm.select(removed, ostart(tm.seqnth(P, t))))))
        usedby = st.ghost.get("usedby", tm.constarr(IDX, 0))
        inv.append(("every-used-overhang-is-the-start-of-a-path-element",
                    tm.forall([s], tm.implies(tm.select(removed, s), tm.and_(
                        tm.le(0, tm.select(usedby, s)), tm.lt(tm.select(usedby, s), tm.seqlen(P)),
                        tm.eq(ostart(tm.seqnth(P, tm.select(usedby, s))), s))))))
        return inv

    def hints(self, ex, st, ctx):
        P = st.ghost.get("path", tm.seqempty(INT))
        need_catfeats(ex.models)
        out = [ex.models.unfold("cat", P), ex.models.unfold("catfeats", P)]
        if P.op == "seq.++" and len(P.args) == 2 and P.args[1].op == "seq.unit":
            out.append(snoc_fact(P.args[0], P.args[1].args[0]))
        return out

    def at_body_start(self, ex, st, ctx):
        st = st.fork()
        st.ghost["on_at_start"] = ex.models.text(st, st.env[self._local(st, "next")])
        return st

    def decreases(self, ex, s_start, s_end, ctx):
        """variant of the walk: the number of modules still filed in the map (each turn pops one)"""
        return (tm.app("card", INT, map_arr(s_start, s_start.env[self._local(s_start, "map")])),
                tm.app("card", INT, map_arr(s_end, s_end.env[self._local(s_end, "map")])))

    def at_body_end(self, ex, st, ctx):
        st = st.fork()
        e = st.get(st.env[self._local(st, "module")], "ident").t
        st.ghost["usedby"] = tm.store(st.ghost["usedby"], st.ghost["on_at_start"], tm.seqlen(st.ghost["path"]))
        st.ghost["path"] = tm.seqcat(st.ghost["path"], tm.sequnit(e))
        st.ghost["removed"] = tm.store(st.ghost["removed"], st.ghost["on_at_start"], tm.TRUE)
        return st


class GenerateAssembly(Contract):
    file, qual = FILE, "AssemblyManager._generate_assembly"
    props = ("C01", "C03", "C17", "C19", "C09")

    def setup(self, ex, st, variant):
        mgr, v, M = mk_manager(ex, st)
        d = VDict(new_oid())
        st.set_inplace(d, "items", {})
        st.set_inplace(d, "arr", VT(tm.V("A0", MAP)))
        self.v, self.A0, self.M = tm.V("v", INT), tm.V("A0", MAP), M.t
        self.loops = {0: WalkLoop(self)}
        return dict(self=mgr, modmap=d)

    def requires(self, ex, st, a):
        M = ex.models.list_term(st, st.get(a["self"], "modules"), INT)
        v = st.get(st.get(a["self"], "vector"), "ident").t
        A0 = map_arr(st, a["modmap"])
        return inv_mgr(M, v) + [(l, t) for (l, t) in map_post(M, A0)[1:]]

    def _stall(self, P, v, A0):
        """the walk P stalls: it has not reached the vector's upstream overhang and no unused module starts there"""
        o = last_end(P, v)
        return tm.and_(tm.ne(o, ostart(v)), tm.eq(tm.select(A0, o), ABSENT))

    def raises(self, ex, st, a):
        # MissingModule: no closed form over the entry state; the exceptional postcondition (ensures_exc) states it
        # over the ghost walk, and C03.L3 (lemma layer) shows closing and stalling walks exclude each other
        return [("MissingModule", None, None)]

    def ensures_exc(self, ex, pre, st, a, exc):
        mro = st.get(exc, "__mro__") or []
        if "MissingModule" not in mro:
            return []
        v = pre.get(pre.get(a["self"], "vector"), "ident").t
        A0 = map_arr(pre, a["modmap"])
        P = st.ghost.get("path")
        removed = st.ghost.get("removed")
        if P is None:
            return [("ghost-path-recorded", None)]
        o = last_end(P, v)
        args = st.get(exc, "start_overhang")
        out = [(l, t) for (l, t) in chain(P, v, A0)]
        out.append(("walk-has-not-closed", tm.ne(o, ostart(v))))
        out.append(("no-unused-module-starts-at-the-stalled-overhang",
                    tm.or_(tm.eq(tm.select(A0, o), ABSENT), tm.select(removed, o))))
        out.append(("exception-names-the-stalled-overhang",
                    tm.eq(ex.models.text(st, args), o) if args is not None else tm.FALSE))
        return out

    def aux_lemmas(self, ex):
        from pyvc.solve import Obligation
        P, e, t = tm.V("P", SEQI), tm.V("e", INT), tm.V("t", INT)
        Pe = tm.seqcat(P, tm.sequnit(e))
        return [Obligation("seq-snoc", [tm.le(0, t), tm.lt(t, tm.seqlen(P))],
                           tm.and_(tm.eq(tm.seqnth(Pe, t), tm.seqnth(P, t)), tm.eq(tm.seqnth(Pe, tm.seqlen(P)), e)),
                           kind="B", text="nth(P ++ [e], t) = nth(P, t) for t < |P|, and nth(P ++ [e], |P|) = e")]

    def ensures(self, ex, pre, st, a, result):
        need_cat(ex.models)
        v = pre.get(pre.get(a["self"], "vector"), "ident").t
        A0 = map_arr(pre, a["modmap"])
        P = st.ghost.get("path")
        if P is None:
            return [("ghost-path-recorded", None)]
        need_catfeats(ex.models)
        out = [("circular-record", tm.B(isinstance(result, VObj) and result.kind == "CircularRecord")),
               ("product-is-cat-of-the-walk-then-the-vector-fragment",
                tm.eq(ex.models.rec_text(st, result), tm.concat(tm.app("cat", STR, P), frag(v)))),
               ("product-features-are-the-fragment-tables-shifted-to-their-offsets",
                tm.eq(ex.models.feats_term(st, st.get(result, "features")),
                      tm.app("feats_cat", FEATS, tm.app("catfeats", FEATS, P),
                             tm.app("feats_shift", FEATS, efeats(v), tm.slen(tm.app("cat", STR, P)))))),
               ("walk-closes-on-the-vector-upstream-overhang", tm.eq(last_end(P, v), ostart(v)))]
        out += chain(P, v, A0)
        A = map_arr(st, a["modmap"])
        warned = st.ghost.get("warned", ())
        out.append(("unused-modules-warned-iff-some-are-left",
                    tm.eq(tm.B(len(warned) > 0), tm.ne(A, tm.constarr(MAP, ABSENT)))))
        return out

    def result(self, ex, st, a):
        st = st.fork()
        st.ghost["path"] = tm.fresh("P", SEQI)
        r = ex.models.sym_record(st, "CircularRecord", "product!%d" % next(tm._fresh), ann_keys=())
        st.set_inplace(a["modmap"], "arr", VT(tm.fresh("Aleft", MAP)))
        return [(st, r)]

    def model_terms(self, ex, st, a):
        v = st.get(st.get(a["self"], "vector"), "ident").t
        return dict(vstart=ostart(v), vend=oend(v), A0=map_arr(st, a["modmap"]))


CONTRACTS = [Init(), GenerateModulesMap(), GenerateAssembly()]


# ------------------------------------------------------------------------------------------------ citations (abstract cells)
# Heap cells moclo writes on its inputs (DESIGN 2.3): per entity e, CIT[e] = the citation qualifiers of all
# features of e's record, REFS[e] = its reference list.  _deref_citations / _ref_citations transform them by
# D / R / RR (uninterpreted here; their pointwise meaning is the subject of C10).
CITS, REFL = "CitS", "RefL"
CIT_ARR = tm.arr_sort(INT, CITS)
REF_ARR = tm.arr_sort(INT, REFL)


def D(c, r):
    return tm.app("cit_deref", CITS, c, r)


def R(c, r):
    return tm.app("cit_ref", CITS, c, r)


def RR(c, r):
    return tm.app("refs_after_ref", REFL, c, r)


def init_cells(ex, st, prefix="cells"):
    for s_ in (CITS, REFL):
        if s_ not in ex.models.sorts:
            ex.models.sorts.append(s_)
    st.ghost["CIT"] = tm.V(prefix + ".CIT", CIT_ARR)
    st.ghost["REFS"] = tm.V(prefix + ".REFS", REF_ARR)


def rec_entity(st, rec):
    e = st.get(rec, "entity")
    return e.t if e is not None else None


def cited_record(ex, st, prefix, entries, nrefs_var="refs", with_refs=True):
    """a record whose generic feature carries (entries = 'strings' | 'references') or lacks ('none') a /citation list"""
    from pyvc import models_cit as MC
    from pyvc.values import VRepList
    rec = VObj("CircularRecord")
    refs = tm.V(prefix + "." + nrefs_var, SEQI)
    ann = VDict(new_oid())
    st.set_inplace(ann, "items", {"references": VT(refs, "list")} if with_refs else {})
    st.set_inplace(rec, "annotations", ann)
    f = VObj("SeqFeature")
    info = dict(refs=refs, feature=f)
    if entries == "none":
        q = MC.mk_qualdict(st)
    else:
        if entries == "strings":
            text, qn = tm.V(prefix + ".cit", STR), tm.V(prefix + ".q", INT)
            rep = VT(text)
            info.update(text=text, q=qn)
        else:
            rid = tm.V(prefix + ".ref", INT)
            rep = MC.mk_reference(st, rid)
            info.update(ref=rid)
        cl = MC.mk_citlist(st, rep, tm.V(prefix + ".ncit", INT))
        q = MC.mk_qualdict(st, cl)
        info.update(citlist=cl, rep=rep)
    st.set_inplace(f, "qualifiers", q)
    st.set_inplace(rec, "features", VRepList(f, tm.V(prefix + ".nfeat", INT)))
    info["record"] = rec
    return info


class DerefCitations(Contract):
    """every bracketed index of every citation qualifier of the record is replaced by the reference it denotes
    (entries that already are references are left alone).  Verified on the pointwise model (generic feature, generic
    entry); at call sites in assemble() the effect is named abstractly: CIT[e] := D(CIT[e], REFS[e])."""
    file, qual = FILE, "AssemblyManager._deref_citations"
    props = ("C10", "C07")
    variants = ("cited-strings", "cited-references", "no-citation", "no-reference-list")

    def setup(self, ex, st, variant):
        ex.models.elem_kind = "Reference"
        mgr = VObj("AssemblyManager")
        kind = {"cited-strings": "strings", "cited-references": "references", "no-citation": "none", "no-reference-list": "none"}[variant]
        self.info = cited_record(ex, st, "rec", kind, with_refs=(variant != "no-reference-list"))
        return dict(self=mgr, record=self.info["record"])

    def requires(self, ex, st, a):
        info = getattr(self, "info", None)
        if info is None or rec_entity(st, a["record"]) is not None or "text" not in info:
            return []
        # well-formed citations (GenBank bracketed 1-based index of an existing reference)
        return [("citation-is-a-bracketed-index-of-an-existing-reference",
                 tm.and_(tm.eq(info["text"], tm.concat("[", tm.str_of_int(info["q"]), "]")), tm.le(1, info["q"]),
                         tm.le(info["q"], tm.seqlen(info["refs"]))))]

    def assumes(self, ex, st, a):
        info = getattr(self, "info", None)
        if info is None or rec_entity(st, a["record"]) is not None or "text" not in info:
            return []
        from pyvc import models_cit as MC
        return MC.canonical_citation(info["text"], info["q"])[2:] + [
            tm.eq(tm.T("str.to_int", (tm.str_of_int(info["q"]),), INT), info["q"])]

    def raises(self, ex, st, a):
        # abstract view (call sites in assemble()): nothing is known about the citations of an input, a malformed
        # one ('Doe2020': ValueError, raised by the code) or a dangling index ('[5]' with two references: IndexError out
        # of the list) stops the pass half-way.  The pointwise view below excludes them by its precondition.
        if rec_entity(st, a["record"]) is None or st.ghost.get("cit_wf"):
            return []        # (cit_wf: the caller's hypothesis that every /citation is a bracketed index of an existing reference)
        return [("ValueError", None, None), ("IndexError", None, None)]

    def exc_state(self, ex, st, a, excname):
        """the pass stopped somewhere inside this record: its citation cells are partly dereferenced"""
        st = st.fork()
        e = rec_entity(st, a["record"])
        st.ghost["CIT"] = tm.store(st.ghost["CIT"], e, tm.fresh("partly_dereferenced", CITS))
        return st

    def ensures(self, ex, pre, st, a, result):
        if rec_entity(pre, a["record"]) is not None:
            return []
        info = self.info
        f = info["feature"]
        q = st.get(f, "qualifiers")
        out = [("qualifiers-object-kept", tm.B(q is pre.get(f, "qualifiers")))]
        if "citlist" not in info:
            out.append(("no-citation-appears", tm.B(st.get(q, "citation") is None)))
            return out
        cl = st.get(q, "citation")
        out.append(("same-list-object", tm.B(cl is info["citlist"])))
        out.append(("same-number-of-entries", tm.eq(st.get(cl, "length").t, pre.get(cl, "length").t)))
        rep = st.get(cl, "rep")
        if "text" in info:
            ok = isinstance(rep, VObj) and rep.kind == "Reference"
            out.append(("every-index-replaced-by-a-reference", tm.B(ok)))
            if ok:
                out.append(("the-reference-the-index-denotes",
                            tm.eq(st.get(rep, "ident").t, tm.seqnth(info["refs"], tm.sub(info["q"], 1)))))
        else:
            out.append(("references-left-alone", tm.B(rep is info["rep"])))
        return out

    def result(self, ex, st, a):
        st = st.fork()
        e = rec_entity(st, a["record"])
        if e is None:
            return [(st, NONE)]
        cit, refs = st.ghost["CIT"], st.ghost["REFS"]
        st.ghost["CIT"] = tm.store(cit, e, D(tm.select(cit, e), tm.select(refs, e)))
        return [(st, NONE)]

    def model_terms(self, ex, st, a):
        info = getattr(self, "info", {})
        return {k: info[k] for k in ("text", "q", "refs") if k in info}


POSA = tm.arr_sort(INT, tm.arr_sort(INT, INT))
SRC = tm.arr_sort(INT, INT)


def _ref_state(ex, st):
    """(R, W, POS, SRCA, SRCI) of the indexed citation model in state st"""
    R = ex.models.list_term(st, st.env["references"], INT) if "references" in st.env else None
    g = st.ghost
    return R, g["WRITTEN"], g["POS"], g["SRCA"], g["SRCI"]


def _bracket(p):
    return tm.concat("[", tm.str_of_int(p), "]")


def _entry_done(R, W, POS, f, i):
    """entry i of feature f has been rewritten as the bracketed 1-based position of its reference in R"""
    from pyvc import models_cit as MC
    p = tm.select(tm.select(POS, f), i)
    return tm.and_(tm.eq(tm.select(tm.select(W, f), i), _bracket(p)), tm.le(1, p), tm.le(p, tm.seqlen(R)),
                   tm.eq(tm.seqnth(R, tm.sub(p, 1)), MC.cite(f, i)))


def _nodup(R):
    i, j = tm.V("i_", INT), tm.V("j_", INT)
    return tm.forall([i, j], tm.implies(tm.and_(tm.le(0, i), tm.lt(i, j), tm.lt(j, tm.seqlen(R))),
                                        tm.ne(tm.seqnth(R, i), tm.seqnth(R, j))))


def _ref_common(con, R, W, POS, SRCA, SRCI):
    from pyvc import models_cit as MC
    F, R0 = con.F, con.R0
    t = tm.V("t_", INT)
    sa, si = tm.select(SRCA, t), tm.select(SRCI, t)
    return [("initial-references-are-kept-in-place",
             tm.and_(tm.le(tm.seqlen(R0), tm.seqlen(R)), tm.eq(tm.T("seq.extract", (R, tm.I(0), tm.seqlen(R0)), SEQI), R0))),
            ("no-reference-listed-twice", _nodup(R)),
            ("every-added-reference-is-cited-by-a-feature",
             tm.forall_range(t, tm.seqlen(R0), tm.seqlen(R),
                             tm.and_(tm.le(0, sa), tm.lt(sa, tm.seqlen(F)), tm.le(0, si), tm.lt(si, MC.ncit(tm.seqnth(F, sa))),
                                     tm.eq(MC.cite(tm.seqnth(F, sa), si), tm.seqnth(R, t)))))]


def _ref_havoc(ex, st, con):
    st = st.fork()
    refs = st.env["references"]
    fresh = tm.fresh("R", SEQI)
    if isinstance(refs, VObj) and refs.kind == "symlist":
        st.set_inplace(refs, "seq", VT(fresh, "list"))
    else:
        # the list created by setdefault(..., []): same object in the local and in the annotations
        o = ex.models.mk_symlist(st, fresh)
        st.env["references"] = o
        ann = st.get(con.record, "annotations")
        items = dict(st.get(ann, "items"))
        items["references"] = o
        st.set_inplace(ann, "items", items)
    st.ghost["WRITTEN"] = tm.fresh("W", con.W2)
    st.ghost["POS"] = tm.fresh("POS", POSA)
    st.ghost["SRCA"] = tm.fresh("SRCA", SRC)
    st.ghost["SRCI"] = tm.fresh("SRCI", SRC)
    return st


class RefOuter(LoopSpec):
    kind, iterates = ast.For, "features"
    """for feature in record.features: every entry of every earlier feature is done"""

    def __init__(self, con):
        self.con = con

    def havoc(self, ex, st, ctx, modified):
        st = LoopSpec.havoc(self, ex, st, ctx, modified - {"references", "feature"})
        return _ref_havoc(ex, st, self.con)

    def invariant(self, ex, st, ctx):
        from pyvc import models_cit as MC
        con, k = self.con, ctx["k"]
        R, W, POS, SRCA, SRCI = _ref_state(ex, st)
        a, i = tm.V("a_", INT), tm.V("e_", INT)
        fa = tm.seqnth(con.F, a)
        return [("k-in-range", tm.le(k, tm.seqlen(con.F))),
                ("entries-of-earlier-features-are-done",
                 tm.forall([a, i], tm.implies(tm.and_(tm.le(0, a), tm.lt(a, k), tm.le(0, i), tm.lt(i, MC.ncit(fa))),
                                              _entry_done(R, W, POS, fa, i))))] + _ref_common(con, R, W, POS, SRCA, SRCI)

    def at_body_start(self, ex, st, ctx):
        st = st.fork()
        st.ghost["kf"] = ctx["k"]
        return st


class RefInner(LoopSpec):
    kind = ast.For
    """for i, ref in enumerate(citation list of feature F[kf]): the outer invariant, plus the entries before i are done"""

    def __init__(self, con):
        self.con = con

    def havoc(self, ex, st, ctx, modified):
        st = LoopSpec.havoc(self, ex, st, ctx, modified - {"references", "feature"})
        return _ref_havoc(ex, st, self.con)

    def invariant(self, ex, st, ctx):
        from pyvc import models_cit as MC
        con, k, kf = self.con, ctx["k"], st.ghost["kf"]
        R, W, POS, SRCA, SRCI = _ref_state(ex, st)
        a, i = tm.V("a_", INT), tm.V("e_", INT)
        fa, f = tm.seqnth(con.F, a), tm.seqnth(con.F, kf)
        return [("i-in-range", tm.le(k, tm.imax(MC.ncit(f), 0))),
                ("entries-of-earlier-features-are-done",
                 tm.forall([a, i], tm.implies(tm.and_(tm.le(0, a), tm.lt(a, kf), tm.le(0, i), tm.lt(i, MC.ncit(fa))),
                                              _entry_done(R, W, POS, fa, i)))),
                ("earlier-entries-of-this-feature-are-done",
                 tm.forall_range(i, 0, k, _entry_done(R, W, POS, f, i)))] + _ref_common(con, R, W, POS, SRCA, SRCI)

    def at_body_start(self, ex, st, ctx):
        st = st.fork()
        st.ghost["R_at_start"] = _ref_state(ex, st)[0]
        return st

    def hints(self, ex, st, ctx):
        """facts of the theory of sequences (aux lemmas seq-absent, seq-snoc), instantiated at this step"""
        from pyvc import models_cit as MC
        R0 = st.ghost["R_at_start"]
        x = MC.cite(tm.seqnth(self.con.F, st.ghost["kf"]), tm.sub(ctx["k"], 1))
        t = tm.V("t", INT)
        return [tm.or_(tm.T("seq.contains", (R0, tm.sequnit(x)), BOOL),
                       tm.forall_range(t, 0, tm.seqlen(R0), tm.ne(tm.seqnth(R0, t), x))),
                snoc_fact(R0, x)]

    def at_body_end(self, ex, st, ctx):
        """ghost bookkeeping: the position written for this entry; the witness of an appended reference"""
        st = st.fork()
        k, kf = ctx["k"], st.ghost["kf"]
        f = tm.seqnth(self.con.F, kf)
        R, W, POS, SRCA, SRCI = _ref_state(ex, st)
        ri = st.env.get("ref_index")
        if isinstance(ri, VT) and ri.t.sort == INT:
            st.ghost["POS"] = tm.store(POS, f, tm.store(tm.select(POS, f), k, ri.t))
        n0 = tm.seqlen(st.ghost["R_at_start"])
        grew = tm.lt(n0, tm.seqlen(R))
        st.ghost["SRCA"] = tm.ite(grew, tm.store(SRCA, n0, kf), SRCA)
        st.ghost["SRCI"] = tm.ite(grew, tm.store(SRCI, n0, k), SRCI)
        return st


class RefCitations(Contract):
    """every citation entry (a Reference) of every feature is rewritten as the bracketed 1-based index of that reference
    in the record's reference list; references not yet listed are appended, once; listed ones keep their place.
    Verified on the indexed model (features = sequence of identities, cite(f,i) = the reference cited by entry i of
    feature f, WRITTEN = the texts stored); at call sites in assemble() the effect is named abstractly:
    CIT[e] := R(CIT[e], REFS[e]); REFS[e] := RR(CIT[e], REFS[e])."""
    file, qual = FILE, "AssemblyManager._ref_citations"
    props = ("C07", "C10")
    variants = ("with-reference-list", "no-reference-list")

    def setup(self, ex, st, variant):
        from pyvc import models_cit as MC
        self.W2 = MC.W2
        ex.models.elem_kind = "CitFeature"
        mgr = VObj("AssemblyManager")
        rec = VObj("CircularRecord")
        self.record = rec
        self.F = tm.V("F", SEQI)
        ann = VDict(new_oid())
        if variant == "with-reference-list":
            self.R0 = tm.V("R0", SEQI)
            st.set_inplace(ann, "items", {"references": ex.models.mk_symlist(st, self.R0)})
        else:
            self.R0 = tm.seqempty(INT)
            st.set_inplace(ann, "items", {})
        st.set_inplace(rec, "annotations", ann)
        st.set_inplace(rec, "features", VT(self.F, "list"))
        st.ghost["WRITTEN"] = tm.V("W0", MC.W2)
        st.ghost["POS"] = tm.V("POS0", POSA)
        st.ghost["SRCA"] = tm.V("SRCA0", SRC)
        st.ghost["SRCI"] = tm.V("SRCI0", SRC)
        self.loops = {0: RefOuter(self), 1: RefInner(self)}
        return dict(self=mgr, record=rec)

    def requires(self, ex, st, a):
        if a["record"] is not getattr(self, "record", None):
            return []
        i, j = tm.V("i_", INT), tm.V("j_", INT)
        return [("features-are-distinct-objects",
                 tm.forall([i, j], tm.implies(tm.and_(tm.le(0, i), tm.lt(i, j), tm.lt(j, tm.seqlen(self.F))),
                                              tm.ne(tm.seqnth(self.F, i), tm.seqnth(self.F, j))))),
                ("listed-references-are-pairwise-distinct", _nodup(self.R0))]

    def ensures(self, ex, pre, st, a, result):
        if a["record"] is not getattr(self, "record", None):
            return []
        from pyvc import models_cit as MC
        ann = st.get(a["record"], "annotations")
        refs = st.get(ann, "items").get("references")
        if refs is None:
            return [("reference-list-present-afterwards", tm.FALSE)]
        R = ex.models.list_term(st, refs, INT)
        g = st.ghost
        W, POS = g["WRITTEN"], g["POS"]
        x, i = tm.V("a_", INT), tm.V("e_", INT)
        fa = tm.seqnth(self.F, x)
        p = tm.select(tm.select(POS, fa), i)
        out = [("every-citation-is-the-bracketed-1-based-index-of-its-reference",
                tm.forall([x, i], tm.implies(tm.and_(tm.le(0, x), tm.lt(x, tm.seqlen(self.F)), tm.le(0, i), tm.lt(i, MC.ncit(fa))),
                                             _entry_done(R, W, POS, fa, i)))),
               ("features-list-untouched", tm.B(st.get(a["record"], "features") is pre.get(a["record"], "features")))]
        out += _ref_common(self, R, W, POS, g["SRCA"], g["SRCI"])
        return out

    def result(self, ex, st, a):
        st = st.fork()
        e = rec_entity(st, a["record"])
        if e is None:
            # the product: its own cells (fresh record, not an input)
            st.ghost["product_cited"] = True
            return [(st, NONE)]
        cit, refs = st.ghost["CIT"], st.ghost["REFS"]
        c, r = tm.select(cit, e), tm.select(refs, e)
        st.ghost["CIT"] = tm.store(cit, e, R(c, r))
        st.ghost["REFS"] = tm.store(refs, e, RR(c, r))
        return [(st, NONE)]

    def aux_lemmas(self, ex):
        from pyvc.solve import Obligation
        P, e, t = tm.V("P", SEQI), tm.V("e", INT), tm.V("t", INT)
        Pe = tm.seqcat(P, tm.sequnit(e))
        return [Obligation("seq-absent", [tm.not_(tm.T("seq.contains", (P, tm.sequnit(e)), BOOL)), tm.le(0, t), tm.lt(t, tm.seqlen(P))],
                           tm.ne(tm.seqnth(P, t), e), kind="B", text="not contains(P, [e]) => nth(P, t) != e"),
                Obligation("seq-snoc", [tm.le(0, t), tm.lt(t, tm.seqlen(P))],
                           tm.and_(tm.eq(tm.seqnth(Pe, t), tm.seqnth(P, t)), tm.eq(tm.seqnth(Pe, tm.seqlen(P)), e)),
                           kind="B", text="nth(P ++ [e], t) = nth(P, t) for t < |P|, and nth(P ++ [e], |P|) = e")]

    def model_terms(self, ex, st, a):
        return dict(F=self.F, R0=self.R0) if a["record"] is getattr(self, "record", None) else {}


class SaveCitations(Contract):
    """returns, for every input feature that has a /citation qualifier, the feature together with a *copy* of its
    citation list; writes nothing.  Verified on the pointwise model (generic element, generic feature); at call sites:
    a snapshot of CIT."""
    file, qual = FILE, "AssemblyManager._save_citations"
    props = ("C07", "C10")
    variants = ("cited", "uncited")

    def setup(self, ex, st, variant):
        from pyvc.values import VRepList
        mgr = VObj("AssemblyManager")
        self.info = cited_record(ex, st, "rec", "strings" if variant == "cited" else "none")
        ent = VObj("AbstractModule")
        st.set_inplace(ent, "record", self.info["record"])
        st.set_inplace(mgr, "elements", VRepList(ent, tm.V("nelem", INT)))
        init_cells(ex, st)
        return dict(self=mgr)

    def ensures(self, ex, pre, st, a, result):
        from pyvc.values import VRepList
        if getattr(self, "info", None) is None or not isinstance(pre.get(a["self"], "elements"), VRepList):
            return []
        info = self.info
        out = [("writes-nothing", tm.B(not st.ghost.get("cit_writes")))]
        if "citlist" not in info:
            ok = isinstance(result, (VRepList, VList)) and (isinstance(result, VList) or not getattr(result, "alts", None))
            out.append(("nothing-saved-for-features-without-citation", tm.B(ok)))
            return out
        alts = getattr(result, "alts", None) if isinstance(result, VRepList) else None
        if not alts or len(alts) != 1:
            out.append(("one-saved-pair-per-cited-feature", None))
            return out
        conds, el, s_el = alts[0]
        ok = isinstance(el, VTuple) and len(el.items) == 2 and el.items[0] is info["feature"]
        out.append(("saved-pair-names-the-feature", tm.B(ok)))
        if ok:
            cp = el.items[1]
            out.append(("saved-list-is-a-copy-not-the-list-itself", tm.B(isinstance(cp, VObj) and cp is not info["citlist"])))
            r0, r1 = s_el.get(cp, "rep"), pre.get(info["citlist"], "rep")
            out.append(("copy-has-the-same-entries", tm.and_(tm.eq(r0.t, r1.t) if isinstance(r0, VT) and isinstance(r1, VT) else tm.B(r0 is r1),
                                                             tm.eq(s_el.get(cp, "length").t, pre.get(info["citlist"], "length").t))))
        return out

    def result(self, ex, st, a):
        st = st.fork()
        snap = VObj("CitSnapshot")
        st.set_inplace(snap, "cit", VT(st.ghost["CIT"], "list"))
        return [(st, snap)]


class RestoreCitations(Contract):
    """writes every saved citation list back into the list object of its feature (same object, saved entries).
    Verified on the pointwise model (generic saved pair); at call sites: CIT[e] := saved[e] for every input e."""
    file, qual = FILE, "AssemblyManager._restore_citations"
    props = ("C07", "C10")
    variants = ("pairs",)

    def setup(self, ex, st, variant):
        from pyvc import models_cit as MC
        from pyvc.values import VRepList
        mgr, v, M = mk_manager(ex, st)
        init_cells(ex, st)
        self.info = cited_record(ex, st, "rec", "references")          # current state: dereferenced
        saved = MC.mk_citlist(st, VT(tm.V("saved.cit", STR)), tm.V("saved.ncit", INT))
        self.saved = saved
        pairs = VRepList(VTuple([self.info["feature"], saved]), tm.V("npairs", INT))
        return dict(self=mgr, citations=pairs)

    def ensures(self, ex, pre, st, a, result):
        from pyvc.values import VRepList
        if not isinstance(a["citations"], VRepList):
            return []
        info, saved = self.info, self.saved
        q = st.get(info["feature"], "qualifiers")
        cl = st.get(q, "citation")
        out = [("same-list-object-keeps-its-identity", tm.B(cl is info["citlist"])),
               ("entries-are-the-saved-entries", tm.and_(tm.B(st.get(cl, "rep") is pre.get(saved, "rep")),
                                                         tm.eq(st.get(cl, "length").t, pre.get(saved, "length").t))),
               ("saved-copy-untouched", tm.B(st.fields(saved) == pre.fields(saved)))]
        return out

    def result(self, ex, st, a):
        st = st.fork()
        E = ex.models.list_term(st, st.get(a["self"], "elements"), INT)
        saved = st.get(a["citations"], "cit").t
        cur = st.ghost["CIT"]
        new = tm.fresh("CIT", CIT_ARR)
        e, i = tm.V("e", INT), tm.V("i", INT)
        member = tm.exists_range(i, 0, tm.seqlen(E), tm.eq(tm.seqnth(E, i), e))
        st = st.assume(tm.forall([e], tm.eq(tm.select(new, e), tm.ite(member, tm.select(saved, e), tm.select(cur, e)))))
        st.ghost["CIT"] = new
        return [(st, NONE)]


class AnnotateAssembly(Contract):
    """the product carries the requested id and name, circular topology, a molecule type and a comment naming
    the vector and every supplied module"""
    file, qual = FILE, "AssemblyManager._annotate_assembly"
    props = ("C09",)

    def setup(self, ex, st, variant):
        mgr, v, M = mk_manager(ex, st)
        init_cells(ex, st)
        ex.models.elem_kind = "AbstractModule"
        return dict(self=mgr, assembly=ex.models.sym_record(st, "CircularRecord", "assembly", ann_keys=()))

    def ensures(self, ex, pre, st, a, result):
        asm = a["assembly"]
        items = st.get(st.get(asm, "annotations"), "items")
        out = [("carries-requested-id", tm.eq(st.get(asm, "id").t, pre.get(a["self"], "id").t)),
               ("carries-requested-name", tm.eq(st.get(asm, "name").t, pre.get(a["self"], "name").t))]
        # what C09 asks of the annotations: circular topology; a molecule type (without one the record cannot be written to
        # GenBank); a comment that *names* the vector and every supplied module.  How the comment is worded, how many lines it
        # has and what else is annotated (division, organism, ...) is left open.
        topo = items.get("topology")
        out.append(("annotation-topology", tm.eq(tm.lower(topo.t), "circular") if isinstance(topo, VT) and topo.t.sort == STR else tm.FALSE))
        mt = items.get("molecule_type")
        out.append(("annotation-molecule_type", tm.lt(0, tm.slen(mt.t)) if isinstance(mt, VT) and mt.t.sort == STR else tm.FALSE))
        c = items.get("comment")
        if isinstance(c, VList):
            lines = [l for l in st.get(c, "items")]
        elif isinstance(c, VT) and c.t.sort == STR:
            lines = [c]
        else:
            lines = None
        ok = lines is not None and all(isinstance(l, VT) and l.t.sort == STR for l in lines)
        out.append(("comment-is-text", tm.B(ok)))
        if ok:
            def named(x):
                return tm.or_(*[tm.contains(l.t, x) for l in lines]) if lines else tm.FALSE

            vid = pre.get(pre.get(pre.get(a["self"], "vector"), "record"), "id").t
            out.append(("comment-names-the-vector", named(vid)))
            M = ex.models.list_term(pre, pre.get(a["self"], "modules"), INT)
            i = tm.V("i_mod", INT)
            out.append(("comment-names-every-supplied-module",
                        tm.forall_range(i, 0, tm.seqlen(M), named(tm.app("eid", STR, tm.seqnth(M, i))))))
        out.append(("text-untouched", tm.eq(ex.models.rec_text(st, asm), ex.models.rec_text(pre, asm))))
        return out

    def assumes(self, ex, st, a):
        # D-JOIN: ", ".join(ids) contains each of the ids (semantics of str.join, assumed)
        M = ex.models.list_term(st, st.get(a["self"], "modules"), INT)
        i = tm.V("i_join", INT)
        return [tm.forall_range(i, 0, tm.seqlen(M), tm.contains(tm.app("join_ids", STR, M), tm.app("eid", STR, tm.seqnth(M, i))))]

    def result(self, ex, st, a):
        st = st.fork()
        asm = a["assembly"]
        st.set_inplace(asm, "id", st.get(a["self"], "id"))
        st.set_inplace(asm, "name", st.get(a["self"], "name"))
        d = VDict(new_oid())
        vid = st.get(st.get(st.get(a["self"], "vector"), "record"), "id").t
        M = ex.models.list_term(st, st.get(a["self"], "modules"), INT)
        # (no more than the postcondition says: some circular spelling of the topology, some molecule type, some text that
        #  names the vector and every module)
        topo, mt, comment = tm.fresh("product_topology", STR), tm.fresh("product_molecule_type", STR), tm.fresh("product_comment", STR)
        i = tm.V("i_res", INT)
        st = st.assume(tm.eq(tm.lower(topo), "circular"), tm.lt(0, tm.slen(mt)), tm.contains(comment, vid),
                       tm.forall_range(i, 0, tm.seqlen(M), tm.contains(comment, tm.app("eid", STR, tm.seqnth(M, i)))))
        st.set_inplace(d, "items", {"topology": VT(topo), "molecule_type": VT(mt), "comment": VT(comment)})
        st.set_inplace(asm, "annotations", d)
        return [(st, NONE)]


class ElementsLoop(LoopSpec):
    kind, iterates = ast.For, "elements"
    """for elem in self.elements: self._(de)ref_citations(elem.record) -- pointwise effect on the cells"""

    def __init__(self, con, which):
        self.con, self.which = con, which

    def havoc(self, ex, st, ctx, modified):
        st = LoopSpec.havoc(self, ex, st, ctx, set())
        st.env.pop("elem", None)
        st.ghost["CIT"] = tm.fresh("CIT", CIT_ARR)
        st.ghost["REFS"] = tm.fresh("REFS", REF_ARR)
        return st

    def invariant(self, ex, st, ctx):
        E = self.con.E
        k = ctx["k"]
        cit0, refs0 = self.con.cells_before[self.which]
        cit, refs = st.ghost["CIT"], st.ghost["REFS"]
        i, e = tm.V("i", INT), tm.V("e", INT)
        done = tm.exists_range(i, 0, k, tm.eq(tm.seqnth(E, i), e))
        if self.which == "deref":
            new_c = D(tm.select(cit0, e), tm.select(refs0, e))
            new_r = tm.select(refs0, e)
        else:
            new_c = R(tm.select(cit0, e), tm.select(refs0, e))
            new_r = RR(tm.select(cit0, e), tm.select(refs0, e))
        return [("cells-of-processed-elements-transformed-others-untouched",
                 tm.forall([e], tm.and_(tm.eq(tm.select(cit, e), tm.ite(done, new_c, tm.select(cit0, e))),
                                        tm.eq(tm.select(refs, e), tm.ite(done, new_r, tm.select(refs0, e)))))),
                ("k-in-range", tm.le(k, tm.seqlen(E)))]


class Assemble(Contract):
    """assemble(): the composition.  Frame (C07): on *every* exit -- normal return, DuplicateModules,
    InvalidSequence, MissingModule -- the citation cells and reference lists of every input equal their
    pre-state (the reference list modulo Absent = [])."""
    file, qual = FILE, "AssemblyManager.assemble"
    props = ("C07", "C10", "C01", "C03", "C17")
    # default: nothing is assumed about the /citation qualifiers of the inputs (a malformed or dangling one makes the
    # dereferencing pass raise ValueError / IndexError: the frame must hold on those exits too -- C07);
    # citations-well-formed: every /citation is a bracketed index of an existing reference (the quantifier of C17, C03,
    # C01: then only the documented MoClo errors may come out)
    variants = ("default", "citations-well-formed")

    def setup(self, ex, st, variant):
        mgr, v, M = mk_manager(ex, st)
        init_cells(ex, st)
        st.ghost["cit_wf"] = (variant == "citations-well-formed")
        self.E = tm.seqcat(M.t, tm.sequnit(tm.V("v", INT)))
        self.cells_before = {}
        con = self

        class _Deref(ElementsLoop):
            def invariant(self_, ex_, st_, ctx):
                con.cells_before.setdefault("deref", (ctx["pre"].ghost["CIT"], ctx["pre"].ghost["REFS"]))
                return ElementsLoop.invariant(self_, ex_, st_, ctx)

        class _Ref(ElementsLoop):
            def invariant(self_, ex_, st_, ctx):
                con.cells_before.setdefault("ref", (ctx["pre"].ghost["CIT"], ctx["pre"].ghost["REFS"]))
                return ElementsLoop.invariant(self_, ex_, st_, ctx)

        self.loops = {0: _Deref(self, "deref"), 1: _Ref(self, "ref")}
        return dict(self=mgr)

    def requires(self, ex, st, a):
        M = ex.models.list_term(st, st.get(a["self"], "modules"), INT)
        v = st.get(st.get(a["self"], "vector"), "ident").t
        E = ex.models.list_term(st, st.get(a["self"], "elements"), INT)
        i, j = tm.V("i", INT), tm.V("j", INT)
        distinct = tm.forall([i, j], tm.implies(tm.and_(tm.le(0, i), tm.lt(i, j), tm.lt(j, tm.seqlen(E))),
                                                tm.ne(tm.seqnth(E, i), tm.seqnth(E, j))))
        return inv_mgr(M, v) + [("elements-are-modules-then-vector", tm.eq(E, tm.seqcat(M, tm.sequnit(v)))),
                                ("inputs-are-distinct-objects", distinct)]

    def assumes(self, ex, st, a):
        # restoration law of the two citation passes (C10.L3; assumed here, see DerefCitations/RefCitations)
        # (the code no longer re-references its inputs: no restoration law is needed, only that a reference list
        #  is equivalent to itself)
        r = tm.V("r_", REFL)
        return [tm.forall([r], tm.app("refs_equiv", BOOL, r, r))]

    def raises(self, ex, st, a):
        M = ex.models.list_term(st, st.get(a["self"], "modules"), INT)
        return [("InvalidSequence", some_invalid(M), None),
                ("DuplicateModules", tm.or_(dup_cond(M), rcdup_cond(M)), None),
                ("MissingModule", None, None)] + ([] if st.ghost.get("cit_wf") else [
                    # a malformed or dangling citation in an input (see DerefCitations.raises): the frame below must
                    # hold on these exits too
                    ("ValueError", None, None), ("IndexError", None, None)])

    def _frame(self, ex, pre, st, a):
        E = ex.models.list_term(pre, pre.get(a["self"], "elements"), INT)
        cit0, refs0 = pre.ghost["CIT"], pre.ghost["REFS"]
        cit, refs = st.ghost["CIT"], st.ghost["REFS"]
        e = tm.V("e", INT)
        return [("citation-qualifiers-of-every-input-as-before",
                 tm.forall([e], tm.eq(tm.select(cit, e), tm.select(cit0, e)))),
                ("reference-list-of-every-input-as-before-up-to-absent-equals-empty",
                 tm.forall([e], tm.app("refs_equiv", BOOL, tm.select(refs, e), tm.select(refs0, e))))]

    def ensures(self, ex, pre, st, a, result):
        need_cat(ex.models)
        out = self._frame(ex, pre, st, a)
        v = pre.get(pre.get(a["self"], "vector"), "ident").t
        P = st.ghost.get("path")
        if P is not None and isinstance(result, VObj):
            out.append(("product-is-cat-of-the-walk-then-the-vector-fragment",
                        tm.eq(ex.models.rec_text(st, result), tm.concat(tm.app("cat", STR, P), frag(v)))))
            out.append(("product-carries-requested-id", tm.eq(st.get(result, "id").t, pre.get(a["self"], "id").t)))
        else:
            out.append(("returns-the-product", tm.FALSE))
        return out

    def ensures_exc(self, ex, pre, st, a, exc):
        return self._frame(ex, pre, st, a)

    def result(self, ex, st, a):
        st = st.fork()
        st.ghost["path"] = tm.fresh("P", SEQI)
        r = ex.models.sym_record(st, "CircularRecord", "product!%d" % next(tm._fresh), ann_keys=("topology",))
        return [(st, r)]

    def model_terms(self, ex, st, a):
        M = ex.models.list_term(st, st.get(a["self"], "modules"), INT)
        return dict(M=M, v=st.get(st.get(a["self"], "vector"), "ident").t)


class VectorAssemble(Contract):
    """AbstractVector.assemble(module, *modules, **kwargs): builds the manager over [module] + modules and returns
    its product; id and name default to "assembly"."""
    file, qual = "moclo/moclo/core/vectors.py", "AbstractVector.assemble"
    props = ("C01", "C03", "C09", "C17")
    variants = ("defaults", "named", "defaults/any-citations")

    def setup(self, ex, st, variant):
        ex.models.elem_kind = "AbstractModule"
        init_cells(ex, st)
        st.ghost["cit_wf"] = not variant.endswith("any-citations")
        v = abstract_entity(st, "AbstractVector", tm.V("v", INT))
        m0 = abstract_entity(st, "AbstractModule", tm.V("m0", INT))
        a = dict(self=v, module=m0, modules=VT(tm.V("rest", SEQI), "list"))
        if variant == "named":
            a["name"] = VT(tm.V("name", STR))
            a["id"] = VT(tm.V("id", STR))
        return a

    def _ME(self, st, a):
        M = tm.seqcat(tm.sequnit(st.get(a["module"], "ident").t), a["modules"].t)
        v = st.get(a["self"], "ident").t
        return M, v, tm.seqcat(M, tm.sequnit(v))

    def requires(self, ex, st, a):
        M, v, E = self._ME(st, a)
        i, j = tm.V("i", INT), tm.V("j", INT)
        distinct = tm.forall([i, j], tm.implies(tm.and_(tm.le(0, i), tm.lt(i, j), tm.lt(j, tm.seqlen(E))),
                                                tm.ne(tm.seqnth(E, i), tm.seqnth(E, j))))
        return all_wf(M, v) + [("inputs-are-distinct-objects", distinct)]

    def assumes(self, ex, st, a):
        r = tm.V("r_", REFL)
        return [tm.forall([r], tm.app("refs_equiv", BOOL, r, r))]

    def raises(self, ex, st, a):
        M, v, E = self._ME(st, a)
        return [("InvalidSequence", tm.or_(tm.not_(valid(v)), tm.eq(ostart(v), oend(v)), some_invalid(M)), None),
                ("DuplicateModules", tm.or_(dup_cond(M), rcdup_cond(M)), None),
                ("MissingModule", None, None)] + ([] if st.ghost.get("cit_wf") else [
                    # only with a malformed ('Doe2020') or dangling ('[9]') /citation qualifier in an input record: outside
                    # the quantifier of C17 (variants defaults / named: well-formed citations, MoClo errors only), inside that
                    # of C07 (inputs untouched on every exit)
                    ("ValueError", None, None), ("IndexError", None, None)])

    def ensures(self, ex, pre, st, a, result):
        need_cat(ex.models)
        M, v, E = self._ME(pre, a)
        P = st.ghost.get("path")
        if P is None or not isinstance(result, VObj):
            return [("returns-the-product", tm.FALSE)]
        want_id = a["id"].t if "id" in a else tm.S("assembly")
        return [("product-is-cat-of-the-walk-then-the-vector-fragment",
                 tm.eq(ex.models.rec_text(st, result), tm.concat(tm.app("cat", STR, P), frag(v)))),
                ("product-carries-requested-id", tm.eq(st.get(result, "id").t, want_id))]

    def result(self, ex, st, a):
        st = st.fork()
        st.ghost["path"] = tm.fresh("P", SEQI)
        r = ex.models.sym_record(st, "CircularRecord", "product!%d" % next(tm._fresh), ann_keys=("topology",))
        return [(st, r)]


CONTRACTS = [Init(), GenerateModulesMap(), GenerateAssembly(), DerefCitations(), RefCitations(), SaveCitations(), VectorAssemble(),
             RestoreCitations(), AnnotateAssembly(), Assemble()]
