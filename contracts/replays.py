# coding: utf-8
"""Replay of solver counter-models on the real code (DESIGN 2.7).

Each function takes the namespace of the imported tree, the refuted obligation and the model (dict
label -> python value) and returns (reproduced: bool, detail: dict).  `reproduced` is True only when the
real function, called on concrete inputs built from the model, breaks the clause that was refuted.
"""
from __future__ import annotations

import string as _string

DNA = "ACGT"


def _dnaify(s, alphabet=DNA):
    """map arbitrary model characters injectively to letters (models use any code points)"""
    table = {}
    out = []
    pool = list(alphabet) + [c for c in _string.ascii_uppercase if c not in alphabet] + list(_string.ascii_lowercase)
    for ch in s:
        if ch not in table:
            table[ch] = pool[len(table) % len(pool)]
        out.append(table[ch])
    return "".join(out)


class StubMatch(object):
    def __init__(self, start, end, spans):
        self._start, self._end, self._spans = start, end, spans

    def span(self, i=0):
        return self._spans.get(i, (self._start, self._end))

    def start(self, i=0):
        return self.span(i)[0]

    def end(self, i=0):
        return self.span(i)[1]


def mk_target(ns, kind, text):
    from Bio.Seq import Seq
    from Bio.SeqRecord import SeqRecord
    if kind == "Seq":
        return Seq(text)
    if kind == "SeqRecord":
        return SeqRecord(Seq(text), id="r")
    return ns["moclo.record"].CircularRecord(Seq(text), id="r")


def text_of(x):
    return str(getattr(x, "seq", x))


def replay_group(ns, ob, model):
    rec = _dnaify(model["rec"])
    s0, s1 = model["s0"], model["s1"]
    start, length, index = model.get("start", s0), model.get("length", s1 - s0), model.get("index", 1)
    variant = ob.meta.get("variant", "Seq")
    target = mk_target(ns, variant, rec)
    m = StubMatch(start, start + length, {index: (s0, s1)})
    sm = ns["moclo.regex"].SeqMatch(m, target)
    expected = (rec + rec)[s0:s1]
    try:
        got = text_of(sm.group(index))
    except Exception as e:  # an exception where the contract lists none is a violation too
        got = "raised %r" % (e,)
    detail = dict(call="SeqMatch(stub match span(%d)=(%d,%d), %s(%r)).group(%d)" % (index, s0, s1, variant, rec, index),
                  expected=expected, observed=got)
    # end-to-end confirmation through DNARegex.search when the span is a whole match
    try:
        n = len(rec)
        if 0 < s1 - s0 <= n and s0 < n:
            rx = ns["moclo.regex"].DNARegex("(" + "N" * (s1 - s0) + ")")
            m2 = rx.search(mk_target(ns, "Seq", _dnaify(rec, DNA)), pos=s0, linear=False)
            if m2 is not None:
                d = _dnaify(rec, DNA)
                detail["end_to_end"] = dict(
                    call="DNARegex(%r).search(Seq(%r), pos=%d, linear=False).group(1)" % (rx.pattern, d, s0),
                    expected=(d + d)[s0:s1], observed=text_of(m2.group(1)))
    except Exception as e:
        detail["end_to_end"] = "not run: %r" % (e,)
    return got != expected, detail


def replay_rshift_features(ns, ob, model):
    """feature-level clauses of __rshift__: the counter-model fixes the length, the rotation and one generic part;
    the other parts of the location are not determined by it, so the replay searches the neighbourhood: every
    1- and 2-part location over short parts at that length and rotation, compared through denoted nucleotides"""
    from Bio.Seq import Seq
    import itertools
    from bounded import common as bc
    CircularRecord = ns["moclo.record"].CircularRecord
    n = max(2, min(len(model.get("seq", "AC")), 7))
    k = model.get("index", 1)
    letters = "ACGTRYKM"[:n]
    shorts = [(a, b) for a in range(n) for b in range(a + 1, min(n, a + 3) + 1)]
    tables = [[("misc_feature", [(a, b, 1)], {"label": ["x"]})] for (a, b) in shorts]
    for (p, q) in itertools.product(shorts, repeat=2):
        tables.append([("misc_feature", [(p[0], p[1], 1), (q[0], q[1], 1)], {"label": ["x"]})])
    ftype = model.get("ftype")
    if isinstance(ftype, str) and ftype and ftype != "misc_feature":
        # the counter-model names a feature type (`source` is special-cased by the code): same locations with that type
        tables = [[(ftype, parts, quals) for (_t, parts, quals) in tb] for tb in tables] + tables
    for ks in sorted({k % n, (k % n) or 1, 1, n - 1}):
        for feats in tables:
            rec = CircularRecord(Seq(letters), id="r", features=bc.build_features(feats))
            try:
                out = rec >> ks
            except Exception as e:
                return True, dict(call="CircularRecord(%r, features=%r) >> %d" % (letters, feats, ks), observed="raised %r" % (e,))
            pb = bc.compare_rotation(bc.observe(rec), bc.observe(out), ks % n, n, "r>>k")
            if pb:
                return True, dict(call="CircularRecord(%r, features=%r) >> %d" % (letters, feats, ks), problems=pb[:3],
                                  note="found in the neighbourhood of the counter-model (same length/rotation)", model=model)
    return False, dict(note="no failing input among 1- and 2-part locations at n=%d" % n, model=model)


def replay_rshift(ns, ob, model):
    if str(ob.meta.get("clause", "")).startswith("feature["):
        return replay_rshift_features(ns, ob, model)
    from Bio.Seq import Seq
    seq = _dnaify(model["seq"]) if len(set(model["seq"])) > 1 else "".join(DNA[i % 4] for i in range(len(model["seq"])))
    n = len(seq)
    k = model["index"]
    CircularRecord = ns["moclo.record"].CircularRecord
    clause = ob.meta.get("clause", "")
    letan = model.get("letan")
    la = None
    if letan is not None and len(letan) == n:
        la = {"q": list(range(n))} if len(set(letan)) < n else {"q": [ord(c) for c in letan]}
    rec = CircularRecord(Seq(seq), id="r", name="r", letter_annotations=la)
    try:
        out = rec >> k if ob.meta.get("function", "").endswith("__rshift__") else rec << k
    except Exception as e:
        return True, dict(call="CircularRecord(%r) >> %d" % (seq, k), observed="raised %r" % (e,))
    if not ob.meta.get("function", "").endswith("__rshift__"):
        k = -k
    i = k % n
    exp_seq = seq[n - i:] + seq[:n - i]
    detail = dict(call="CircularRecord(Seq(%r), letter_annotations=%r) >> %d" % (seq, la, k),
                  expected_seq=exp_seq, observed_seq=str(out.seq))
    bad = str(out.seq) != exp_seq
    if la is not None:
        v = la["q"]
        exp_la = v[n - i:] + v[:n - i]
        got_la = list(out.letter_annotations.get("q", []))
        detail.update(expected_letter_annotations=exp_la, observed_letter_annotations=got_la)
        bad = bad or got_la != exp_la
    return bad, detail


def replay_lettermap(ns, ob, model):
    from Bio.Seq import Seq
    from contracts.regex_c import IUPAC
    letter = model["letter"]
    rx = ns["moclo.regex"].DNARegex(letter)
    table = IUPAC.get(letter.upper())
    if table is None:
        return False, dict(note="model letter %r is not an IUPAC code: the literal maps a non-code letter" % letter)
    got = "".join(nt for nt in "ACGT" if rx.search(Seq(nt)) is not None)
    return got != table, dict(call="DNARegex(%r).search(Seq(x)) for x in ACGT" % letter, expected=table, observed=got)


def replay_contains(ns, ob, model):
    """circular membership: the query occurs in some rotation and is no longer than the record"""
    from Bio.Seq import Seq
    table = {}
    pool = list(DNA) + list("RYKMSWBDHVN")

    def conv(t):
        out = []
        for ch in t:
            if ch not in table:
                table[ch] = pool[len(table) % len(pool)]
            out.append(table[ch])
        return "".join(out)

    seq, q = conv(model["seq"]), conv(model["char"])
    if not seq:
        return None, "empty record in the model"
    rec = ns["moclo.record"].CircularRecord(Seq(seq), id="r")
    expected = len(q) <= len(seq) and q in seq + seq
    try:
        got = q in rec
    except Exception as e:
        got = "raised %r" % (e,)
    return got != expected, dict(call="%r in CircularRecord(Seq(%r))" % (q, seq), expected=expected, observed=got)


def replay_search(ns, ob, model):
    """leftmost matching start in the requested range, one-turn window; the model's transcribed pattern is not a DNA
    pattern (re is uninterpreted), so the neighbourhood is searched: short patterns over the model's text length"""
    import itertools
    import re as _re
    from Bio.Seq import Seq
    DNARegex = ns["moclo.regex"].DNARegex
    n = max(1, min(len(model.get("text", "A")), 6))
    linear = bool(model.get("linear", True))
    variant = ob.meta.get("variant", "Seq")
    pats = ["A", "AC", "A(N)", "(N)C", "AN*C", "(A)(N*)(C)", "NNN", "CA"]
    poss = sorted({0, 1, max(0, n - 1), model.get("pos", 0) if isinstance(model.get("pos"), int) else 0})
    ends = sorted({n, n + 5, max(0, n - 1), 1, model.get("endpos", n) if isinstance(model.get("endpos"), int) else n})
    for text in ("".join(t) for t in itertools.product("AC", repeat=n)):
        for pat in pats:
            rx = DNARegex(pat)
            core = _re.compile(rx.regex.pattern, _re.I) if hasattr(rx, "regex") else None
            if core is None:
                return None, "DNARegex has no .regex attribute any more"
            for pos in poss:
                for endpos in ends:
                    for lin in ((linear,) if variant != "CircularRecord" else (True, False)):
                        target = mk_target(ns, variant, text)
                        circ = (not lin) or variant == "CircularRecord"
                        data = text * 2 if circ else text
                        exp = None
                        for i in range(max(pos, 0), min(n, endpos)):
                            m = core.match(data, i, i + n)
                            if m is not None:
                                exp = (i, m.end())
                                break
                        try:
                            got = rx.search(target, pos, endpos, lin)
                            obs = None if got is None else (got.start(), got.end())
                        except Exception as e:
                            obs = "raised %r" % (e,)
                        if obs != exp:
                            return True, dict(call="DNARegex(%r).search(%s(%r), pos=%d, endpos=%d, linear=%r)" % (
                                pat, variant, text, pos, endpos, lin), expected=exp, observed=obs,
                                note="found in the neighbourhood of the counter-model", model=model)
    return False, dict(note="no failing input in the neighbourhood (texts over AC of length %d)" % n, model=model)


def replay_assembly_init(ns, ob, model):
    """AssemblyManager(vector, modules): InvalidSequence exactly when the vector's two overhangs coincide; the model
    interprets rc as an uninterpreted function, so every pair over {X, rc X, palindrome, Y} is tried"""
    import random
    from Bio.Seq import Seq
    from Bio.Restriction import BsaI
    from bounded import assembly as ba
    core = ns["moclo.core"]
    errors = ns["moclo.errors"]
    CircularRecord = ns["moclo.record"].CircularRecord
    mod = __import__("moclo.core._assembly", fromlist=["AssemblyManager"])
    V = type("V", (core.AbstractVector,), dict(cutter=BsaI))
    rng = random.Random(7)
    alphabet = ["AACG", "CGTT", "ACGT", "GGTA", "aacg"]
    for vs in alphabet:
        for ve in alphabet:
            s, _ = ba.build_vector(BsaI, vs, ve, rng)
            if s is None:
                continue
            vec = V(CircularRecord(Seq(s), id="v"))
            try:
                mod.AssemblyManager(vec, [])
                got = "constructed"
            except errors.InvalidSequence:
                got = "InvalidSequence"
            except Exception as e:
                got = "raised %r" % (e,)
            exp = "InvalidSequence" if vs.upper() == ve.upper() else "constructed"
            if got != exp:
                return True, dict(call="AssemblyManager(vector with overhang_start=%s, overhang_end=%s, [])" % (vs, ve),
                                  expected=exp, observed=got, note="found in the neighbourhood of the counter-model",
                                  model=model)
    return False, dict(note="no failing overhang pair over %r" % alphabet, model=model)


def replay_get_regex(ns, ob, model):
    """an ancestor whose pattern is cached, then the subclass (fresh throw-away classes: the kit classes keep their state)"""
    from Bio.Restriction import BsaI
    core = ns["moclo.core"]
    Parent = type("Parent", (core.Entry,), dict(cutter=BsaI))
    Child = type("Child", (Parent,), dict(structure=classmethod(lambda cls: "GGTCTCN(ATGC)(NN*N)(TTAA)NGAGACC")))
    out = dict(history="Parent._get_regex(); Child._get_regex()")
    try:
        out["parent_pattern"] = Parent._get_regex().pattern
        out["observed"] = Child._get_regex().pattern
    except Exception as e:
        out["observed"] = "raised %r" % (e,)
    out["expected"] = Child.structure()
    out["model"] = model
    return out["observed"] != out["expected"], out


def replay_target_frame(ns, ob, model):
    """frame clause of target_sequence: the wrapped plasmid is the same before and after.  The counter-model fixes
    the rotation class (cut position a multiple of the length); every rotation of a generic plasmid is tried"""
    import random
    from Bio.Seq import Seq
    from Bio.SeqFeature import SeqFeature, FeatureLocation
    from Bio.Restriction import BsaI
    from bounded import gen, common as bc
    if ob.meta.get("clause") != "wrapped-record-left-untouched":
        return None, "no replay harness for this clause of target_sequence"
    core = ns["moclo.core"]
    CircularRecord = ns["moclo.record"].CircularRecord
    is_vec = "Vector" in ob.meta.get("function", "")
    cls = type("G", (core.EntryVector if is_vec else core.Entry,), dict(cutter=BsaI))
    rng = random.Random(11)
    inst, _ = gen.instance(cls.structure(), rng, run=9)
    n = len(inst)
    for k in range(n):
        text = inst[k:] + inst[:k]
        feats = [SeqFeature(FeatureLocation(1, 4, 1), type="misc_feature", qualifiers={"label": ["x"]})]
        rec = CircularRecord(Seq(text), id="p", features=feats)
        before = bc.observe(rec)
        ent = cls(rec)
        try:
            ent.target_sequence()
            ent.target_sequence()
        except Exception as e:
            continue
        after = bc.observe(rec)
        if before != after:
            return True, dict(call="%s(CircularRecord(Seq(%r), features=[misc_feature 1..4])).target_sequence() twice" % (
                "EntryVector[BsaI]" if is_vec else "Entry[BsaI]", text), expected=before, observed=after,
                note="found in the neighbourhood of the counter-model (every rotation of one plasmid)", model=model)
    return False, dict(note="no rotation of the generic plasmid is modified by target_sequence()", model=model)


def replay_isabstract(ns, ob, model):
    """isabstract on real classes against its definition (abc-abstract, or some attribute is NotImplemented)"""
    import abc
    import inspect
    import six
    from Bio.Restriction import BsaI
    core = ns["moclo.core"]
    fn = ns["moclo._utils"].isabstract if "moclo._utils" in ns else __import__("moclo._utils", fromlist=["isabstract"]).isabstract
    Concrete = type("Concrete", (core.AbstractPart, core.Entry), dict(cutter=BsaI, signature=("AACC", "GGAT")))
    NoSig = type("NoSig", (core.AbstractPart, core.Entry), dict(cutter=BsaI))
    Abc = six.add_metaclass(abc.ABCMeta)(type("Abc", (object,), dict(m=abc.abstractmethod(lambda self: None))))
    Plain = type("Plain", (object,), dict(x=1))
    for c in (Concrete, NoSig, Abc, Plain, core.AbstractPart, core.Entry):
        want = inspect.isabstract(c) or any(getattr(c, a_, None) is NotImplemented for a_ in dir(c))
        try:
            got = bool(fn(c))
        except Exception as e:
            got = "raised %r" % (e,)
        if got != want:
            return True, dict(call="isabstract(%s)" % c.__name__, expected=want, observed=got)
    return False, dict(note="isabstract agrees with its definition on six probe classes")


def replay_concat(ns, ob, model):
    """r + x and x + r are refused with TypeError, whatever x is"""
    from Bio.Seq import Seq, MutableSeq
    from Bio.SeqRecord import SeqRecord
    CircularRecord = ns["moclo.record"].CircularRecord
    rec = CircularRecord(Seq("ATGC"), id="r")
    others = [("str", "CC"), ("Seq", Seq("CC")), ("MutableSeq", MutableSeq("CC")), ("SeqRecord", SeqRecord(Seq("CC"), id="x")),
              ("CircularRecord", CircularRecord(Seq("CC"), id="y")), ("int", 3), ("None", None), ("list", ["C"])]
    for (name, x) in others:
        for side in ("r + x", "x + r"):
            try:
                out = (rec + x) if side == "r + x" else (x + rec)
                got = "returned %s %r" % (type(out).__name__, str(getattr(out, "seq", out))[:20])
            except TypeError:
                continue
            except Exception as e:
                got = "raised %r" % (e,)
            return True, dict(call="%s with r = CircularRecord('ATGC'), x = %s" % (side, name), expected="TypeError", observed=got)
    return False, dict(note="every operand kind is refused with TypeError on both sides")


def replay_embedded(ns, ob, model):
    """the mapping laws of an embedded registry on generated well-formed archives (three unsorted members whose LOCUS
    names differ from their ids, one member, none) -- the same scenarios as C20's bounded part"""
    from props import C20

    class _Ctx(object):
        seed = 0

    viol = []
    C20.embedded_scenarios(_Ctx, ns, viol)
    if viol:
        return True, dict(call=viol[0]["what"], case=viol[0].get("case"), further=[v_["what"][:200] for v_ in viol[1:4]])
    return False, dict(note="the mapping laws hold on the generated archives (three / one / none)")


def replay_errors(ns, ob, model):
    """the error classes built the way the library builds them: fields kept, messages rendered (never an exception)"""
    from Bio.Seq import Seq
    E = ns["moclo.errors"]
    CircularRecord = ns["moclo.record"].CircularRecord

    class _M(object):
        def __init__(self, i):
            self.record = CircularRecord(Seq("ATGC"), id=i)

    m = [_M("alpha"), _M("beta"), _M("gamma")]
    rec = CircularRecord(Seq("ATGCATGC"), id="r")
    cause = ValueError("x")
    probes = []
    for details in (None, "reverse-complementing overhangs", "same start overhang: 'AACC'"):
        kw = {} if details is None else dict(details=details)
        suffix = "" if details is None else " (%s)" % details
        probes += [
            ("MissingModule('AACC'%s)" % (", details=%r" % details if details else ""), lambda kw=kw: E.MissingModule("AACC", **kw),
             dict(start_overhang="AACC"), "no module with 'AACC' start overhang" + suffix, None),
            ("DuplicateModules(m0, m1, ...)", lambda kw=kw: E.DuplicateModules(m[0], m[1], **kw),
             dict(duplicates=(m[0], m[1])), "duplicate modules: alpha, beta" + suffix, None),
            ("UnusedModules(m0, m1, m2, ...)", lambda kw=kw: E.UnusedModules(m[0], m[1], m[2], **kw),
             dict(remaining=(m[0], m[1], m[2])), "unused: alpha, beta, gamma" + suffix, None),
            ("UnusedModules(m2)", lambda kw=kw: E.UnusedModules(m[2], **kw), dict(remaining=(m[2],)), "unused: gamma" + suffix, None),
            ("InvalidSequence(rec, ...)", lambda d=details: E.InvalidSequence(rec, exc=cause, details=d) if d else E.InvalidSequence(rec),
             dict(sequence=rec), None, ("invalid sequence: ", suffix)),
            ("IllegalSite(rec, ...)", lambda d=details: E.IllegalSite(rec, details=d) if d else E.IllegalSite(rec),
             dict(sequence=rec), None, ("illegal site in sequence: ", suffix)),
        ]
    for (call, mk, fields, text, ends) in probes:
        try:
            e = mk()
            for f, want in fields.items():
                got = getattr(e, f)
                same = (got is want) if not isinstance(want, (tuple, str, type(None))) else (got == want)
                if not same:
                    return True, dict(call=call, field=f, expected=repr(want)[:80], observed=repr(got)[:80])
            got = str(e)
            # (the wording is free; the message must exist and name the overhang / every module)
            must = [w_ for w_ in ("AACC", "alpha", "beta", "gamma") if text is not None and w_ in text]
            if any(w_ not in got for w_ in must):
                return True, dict(call="str(%s)" % call, expected="a message naming %s" % must, observed=got)
        except Exception as ex_:
            return True, dict(call=call, expected="an error object and its message", observed="raised %r" % (ex_,))
    return False, dict(note="fields and messages of the error classes are as documented on %d probes" % len(probes))


def replay_new(ns, ob, model):
    """instantiating an entity class: NotImplementedError without a cutter, ValueError with a blunt or unknown one,
    an instance of the class otherwise (cutter_check directly, and through __new__ of the three bases)"""
    import Bio.Restriction as R
    from Bio.Seq import Seq
    core = ns["moclo.core"]
    CircularRecord = ns["moclo.record"].CircularRecord
    cc = ns["moclo.core._utils"].cutter_check
    blunt = next(e for e in R.AllEnzymes if e.is_blunt() and not e.is_unknown())
    unknown = next((e for e in R.AllEnzymes if e.is_unknown()), None)
    rec = CircularRecord(Seq("ATGCATGC"), id="r")
    cases = [(NotImplemented, NotImplementedError), (blunt, ValueError), (R.BsaI, None)] + ([(unknown, ValueError)] if unknown is not None else [])
    for cutter, want in cases:
        calls = [("cutter_check(%s, 'X')" % getattr(cutter, "__name__", cutter), lambda: cc(cutter, "X"), type(None))]
        for base in (core.AbstractModule, core.AbstractVector, core.AbstractPart):
            C = type("Probe", (base,) if base is not core.AbstractPart else (base, core.Entry), dict(cutter=cutter, signature=("AACC", "GGAT")))
            calls.append(("%s subclass with cutter %s (record)" % (base.__name__, getattr(cutter, "__name__", cutter)), lambda C=C: C(rec), C))
        for (call, fn, ok_type) in calls:
            try:
                got = fn()
                obs = "returned %s" % type(got).__name__
                good = want is None and isinstance(got, ok_type)
            except Exception as e:
                obs = "raised %r" % (e,)
                good = want is not None and type(e) is want
            if not good:
                return True, dict(call=call, expected=(want.__name__ if want else "an instance"), observed=obs)
    return False, dict(note="cutter checks behave as specified for NotImplemented, a blunt, an unknown and a type IIS enzyme")


REPLAY = {
    "cutter_check": replay_new, "AbstractModule.__new__": replay_new, "AbstractVector.__new__": replay_new, "AbstractPart.__new__": replay_new,
    "InvalidSequence.__init__": replay_errors, "InvalidSequence.__str__": replay_errors,
    "DuplicateModules.__init__": replay_errors, "DuplicateModules.__str__": replay_errors,
    "MissingModule.__init__": replay_errors, "MissingModule.__str__": replay_errors,
    "UnusedModules.__init__": replay_errors, "UnusedModules.__str__": replay_errors,
    "EmbeddedRegistry._data": replay_embedded,
    "EmbeddedRegistry.__getitem__": replay_embedded,
    "EmbeddedRegistry.__iter__": replay_embedded,
    "EmbeddedRegistry.__len__": replay_embedded,
    "EmbeddedRegistry.__eq__": replay_embedded,
    "EmbeddedRegistry.__hash__": replay_embedded,
    "EmbeddedRegistry._load_name": replay_embedded,
    "EmbeddedRegistry._load_resistance": replay_embedded,
    "CircularRecord.__add__": replay_concat,
    "CircularRecord.__radd__": replay_concat,
    "isabstract": replay_isabstract,
    "AbstractModule.target_sequence": replay_target_frame,
    "AbstractVector.target_sequence": replay_target_frame,
    "CircularRecord.__contains__": replay_contains,
    "DNARegex.search": replay_search,
    "AssemblyManager.__init__": replay_assembly_init,
    "StructuredRecord._get_regex": replay_get_regex,
    "DNARegex._lettermap": replay_lettermap,
    "SeqMatch.group": replay_group,
    "CircularRecord.__rshift__": replay_rshift,
    "CircularRecord.__lshift__": replay_rshift,
}


def replay(ctx, ob, model):
    from pyvc import native
    fn = REPLAY.get(ob.meta.get("function"))
    if fn is None:
        return None, "no replay harness for %s" % ob.meta.get("function")
    ns = native.load(ctx.repo_root)
    return fn(ns, ob, model)
