# coding: utf-8
"""Replay of solver counter-models on the real code (DESIGN 2.7).

Each function takes the namespace of the imported tree, the refuted obligation and the model (dict
label -> python value) and returns (reproduced: bool, detail: dict).  `reproduced` is True only when the
real function, called on concrete inputs built from the model, breaks the clause that was refuted.
"""
from __future__ import annotations

import string as _string

DNA = "ACGT"


def _dnaify(s, alphabet=DNA):
    """map arbitrary model characters injectively to letters (models use any code points)"""
    table = {}
    out = []
    pool = list(alphabet) + [c for c in _string.ascii_uppercase if c not in alphabet] + list(_string.ascii_lowercase)
    for ch in s:
        if ch not in table:
            table[ch] = pool[len(table) % len(pool)]
        out.append(table[ch])
    return "".join(out)


class StubMatch(object):
    def __init__(self, start, end, spans):
        self._start, self._end, self._spans = start, end, spans

    def span(self, i=0):
        return self._spans.get(i, (self._start, self._end))

    def start(self, i=0):
        return self.span(i)[0]

    def end(self, i=0):
        return self.span(i)[1]


def mk_target(ns, kind, text):
    from Bio.Seq import Seq
    from Bio.SeqRecord import SeqRecord
    if kind == "Seq":
        return Seq(text)
    if kind == "SeqRecord":
        return SeqRecord(Seq(text), id="r")
    return ns["moclo.record"].CircularRecord(Seq(text), id="r")


def text_of(x):
    return str(getattr(x, "seq", x))


def replay_group(ns, ob, model):
    rec = _dnaify(model["rec"])
    s0, s1 = model["s0"], model["s1"]
    start, length, index = model.get("start", s0), model.get("length", s1 - s0), model.get("index", 1)
    variant = ob.meta.get("variant", "Seq")
    target = mk_target(ns, variant, rec)
    m = StubMatch(start, start + length, {index: (s0, s1)})
    sm = ns["moclo.regex"].SeqMatch(m, target)
    expected = (rec + rec)[s0:s1]
    try:
        got = text_of(sm.group(index))
    except Exception as e:  # an exception where the contract lists none is a violation too
        got = "raised %r" % (e,)
    detail = dict(call="SeqMatch(stub match span(%d)=(%d,%d), %s(%r)).group(%d)" % (index, s0, s1, variant, rec, index),
                  expected=expected, observed=got)
    # end-to-end confirmation through DNARegex.search when the span is a whole match
    try:
        n = len(rec)
        if 0 < s1 - s0 <= n and s0 < n:
            rx = ns["moclo.regex"].DNARegex("(" + "N" * (s1 - s0) + ")")
            m2 = rx.search(mk_target(ns, "Seq", _dnaify(rec, DNA)), pos=s0, linear=False)
            if m2 is not None:
                d = _dnaify(rec, DNA)
                detail["end_to_end"] = dict(
                    call="DNARegex(%r).search(Seq(%r), pos=%d, linear=False).group(1)" % (rx.pattern, d, s0),
                    expected=(d + d)[s0:s1], observed=text_of(m2.group(1)))
    except Exception as e:
        detail["end_to_end"] = "not run: %r" % (e,)
    return got != expected, detail


def replay_rshift_features(ns, ob, model):
    """feature-level clauses of __rshift__: the counter-model fixes the length, the rotation and one generic part;
    the other parts of the location are not determined by it, so the replay searches the neighbourhood: every
    1- and 2-part location over short parts at that length and rotation, compared through denoted nucleotides"""
    from Bio.Seq import Seq
    import itertools
    from bounded import common as bc
    CircularRecord = ns["moclo.record"].CircularRecord
    n = max(2, min(len(model.get("seq", "AC")), 7))
    k = model.get("index", 1)
    letters = "ACGTRYKM"[:n]
    shorts = [(a, b) for a in range(n) for b in range(a + 1, min(n, a + 3) + 1)]
    tables = [[("misc_feature", [(a, b, 1)], {"label": ["x"]})] for (a, b) in shorts]
    for (p, q) in itertools.product(shorts, repeat=2):
        tables.append([("misc_feature", [(p[0], p[1], 1), (q[0], q[1], 1)], {"label": ["x"]})])
    for ks in sorted({k % n, (k % n) or 1, 1, n - 1}):
        for feats in tables:
            rec = CircularRecord(Seq(letters), id="r", features=bc.build_features(feats))
            try:
                out = rec >> ks
            except Exception as e:
                return True, dict(call="CircularRecord(%r, features=%r) >> %d" % (letters, feats, ks), observed="raised %r" % (e,))
            pb = bc.compare_rotation(bc.observe(rec), bc.observe(out), ks % n, n, "r>>k")
            if pb:
                return True, dict(call="CircularRecord(%r, features=%r) >> %d" % (letters, feats, ks), problems=pb[:3],
                                  note="found in the neighbourhood of the counter-model (same length/rotation)", model=model)
    return False, dict(note="no failing input among 1- and 2-part locations at n=%d" % n, model=model)


def replay_rshift(ns, ob, model):
    if str(ob.meta.get("clause", "")).startswith("feature["):
        return replay_rshift_features(ns, ob, model)
    from Bio.Seq import Seq
    seq = _dnaify(model["seq"]) if len(set(model["seq"])) > 1 else "".join(DNA[i % 4] for i in range(len(model["seq"])))
    n = len(seq)
    k = model["index"]
    CircularRecord = ns["moclo.record"].CircularRecord
    clause = ob.meta.get("clause", "")
    letan = model.get("letan")
    la = None
    if letan is not None and len(letan) == n:
        la = {"q": list(range(n))} if len(set(letan)) < n else {"q": [ord(c) for c in letan]}
    rec = CircularRecord(Seq(seq), id="r", name="r", letter_annotations=la)
    try:
        out = rec >> k if ob.meta.get("function", "").endswith("__rshift__") else rec << k
    except Exception as e:
        return True, dict(call="CircularRecord(%r) >> %d" % (seq, k), observed="raised %r" % (e,))
    if not ob.meta.get("function", "").endswith("__rshift__"):
        k = -k
    i = k % n
    exp_seq = seq[n - i:] + seq[:n - i]
    detail = dict(call="CircularRecord(Seq(%r), letter_annotations=%r) >> %d" % (seq, la, k),
                  expected_seq=exp_seq, observed_seq=str(out.seq))
    bad = str(out.seq) != exp_seq
    if la is not None:
        v = la["q"]
        exp_la = v[n - i:] + v[:n - i]
        got_la = list(out.letter_annotations.get("q", []))
        detail.update(expected_letter_annotations=exp_la, observed_letter_annotations=got_la)
        bad = bad or got_la != exp_la
    return bad, detail


def replay_lettermap(ns, ob, model):
    from Bio.Seq import Seq
    from contracts.regex_c import IUPAC
    letter = model["letter"]
    rx = ns["moclo.regex"].DNARegex(letter)
    table = IUPAC.get(letter.upper())
    if table is None:
        return False, dict(note="model letter %r is not an IUPAC code: the literal maps a non-code letter" % letter)
    got = "".join(nt for nt in "ACGT" if rx.search(Seq(nt)) is not None)
    return got != table, dict(call="DNARegex(%r).search(Seq(x)) for x in ACGT" % letter, expected=table, observed=got)


REPLAY = {
    "DNARegex._lettermap": replay_lettermap,
    "SeqMatch.group": replay_group,
    "CircularRecord.__rshift__": replay_rshift,
    "CircularRecord.__lshift__": replay_rshift,
}


def replay(ctx, ob, model):
    from pyvc import native
    fn = REPLAY.get(ob.meta.get("function"))
    if fn is None:
        return None, "no replay harness for %s" % ob.meta.get("function")
    ns = native.load(ctx.repo_root)
    return fn(ns, ob, model)
