# coding: utf-8
"""Sidecar contracts for moclo/moclo/errors.py: the error taxonomy of C17 / C03.

Constructors store what they are given (the overhang a chain stalls at, the modules left out ...); `__str__` is total
for the values the library itself passes -- a `details` that is None or a brace-free text -- and renders the message
around them.  The constructors are executed (not replaced by these contracts) at their raise sites."""
from __future__ import annotations

from pyvc import term as tm
from pyvc.term import INT, BOOL, STR
from pyvc.values import VT, VObj, VNone, NONE, VTuple, VList, VDict, new_oid
from pyvc.contract import Contract

FILE = "moclo/moclo/errors.py"


def _module(st, k):
    m = VObj("AbstractModule")
    rec = VObj("CircularRecord")
    st.set_inplace(rec, "id", VT(tm.V("id%d" % k, STR)))
    st.set_inplace(m, "record", rec)
    return m


def _details(variant):
    return NONE if variant.endswith("no-details") else VT(tm.V("details", STR))


def _brace_free(t):
    return tm.and_(tm.not_(tm.contains(t, "{")), tm.not_(tm.contains(t, "}")))


class _Init(Contract):
    file = FILE
    props = ("C17", "C03")
    inline_at_call_sites = True
    variants = ("details", "no-details")

    def result(self, ex, st, a):
        return [(st, NONE)]


class InvalidSequenceInit(_Init):
    qual = "InvalidSequence.__init__"

    def setup(self, ex, st, variant):
        self.variant = variant
        seq = ex.models.sym_record(st, "CircularRecord", "rec")
        a = dict(self=VObj("InvalidSequence"), sequence=seq)
        if variant == "details":
            a["details"] = VT(tm.V("details", STR))
            a["exc"] = VObj("exc:ValueError")
        return a

    def ensures(self, ex, pre, st, a, result):
        s = a["self"]
        return [("stores-the-sequence", tm.B(st.get(s, "sequence") is a["sequence"]))]


class _VarInit(_Init):
    """__init__(self, *things, **options): the things as a tuple, details = options.get('details')"""
    field = None
    kind = None
    count = 2

    def setup(self, ex, st, variant):
        self.variant = variant
        self.things = [_module(st, k) for k in range(self.count)]
        a = dict(self=VObj(self.kind), __varargs__=self.things)
        if variant == "details":
            a["details"] = VT(tm.V("details", STR))
        return a

    def ensures(self, ex, pre, st, a, result):
        s = a["self"]
        got = st.get(s, self.field)
        d = st.get(s, "details")
        ok = isinstance(got, VTuple) and len(got.items) == len(self.things) and all(x is y for x, y in zip(got.items, self.things))
        return [("stores-what-it-was-given-in-order", tm.B(ok))]


class DuplicateModulesInit(_VarInit):
    qual, kind, field = "DuplicateModules.__init__", "DuplicateModules", "duplicates"


class UnusedModulesInit(_VarInit):
    qual, kind, field, count = "UnusedModules.__init__", "UnusedModules", "remaining", 3


class MissingModuleInit(_Init):
    qual = "MissingModule.__init__"

    def setup(self, ex, st, variant):
        self.variant = variant
        a = dict(self=VObj("MissingModule"), start_overhang=VT(tm.V("overhang", STR)))
        if variant == "details":
            a["details"] = VT(tm.V("details", STR))
        return a

    def ensures(self, ex, pre, st, a, result):
        s = a["self"]
        d = st.get(s, "details")
        return [("names-the-overhang", tm.B(st.get(s, "start_overhang") is a["start_overhang"]))]


class _Str(Contract):
    """total on what the library passes; the message surrounds the rendered value(s)"""
    file = FILE
    props = ("C17", "C03")
    inline_at_call_sites = True
    variants = ("details", "no-details")
    prefix = ""
    kind = None

    def requires(self, ex, st, a):
        d = st.get(a["self"], "details")
        if isinstance(d, VT):
            return [("details-is-a-brace-free-text", _brace_free(d.t))]
        return []

    def middle(self, ex, st, a):
        return None

    def ensures(self, ex, pre, st, a, result):
        if not (isinstance(result, VT) and result.t.sort == STR):
            return [("returns-a-text", tm.FALSE)]
        d = pre.get(a["self"], "details")
        suffix = tm.concat(" (", d.t, ")") if isinstance(d, VT) else tm.S("")
        # what the statements ask of a message: it exists (no exception) and names what the error is about -- every module
        # identifier / the overhang; the wording around them is the maintainers' business
        named = self.names(ex, pre, a)
        return [("returns-a-text", tm.TRUE)] + [("names-%d" % i, tm.contains(result.t, t_)) for i, t_ in enumerate(named)]

    def names(self, ex, st, a):
        return []

    def result(self, ex, st, a):
        return [(st, VT(tm.fresh("message", STR)))]


class InvalidSequenceStr(_Str):
    qual, prefix = "InvalidSequence.__str__", "invalid sequence: "

    def setup(self, ex, st, variant):
        s = VObj("InvalidSequence")
        st.set_inplace(s, "sequence", ex.models.sym_record(st, "CircularRecord", "rec"))
        st.set_inplace(s, "exc", NONE)
        st.set_inplace(s, "details", _details(variant))
        return dict(self=s)


class IllegalSiteStr(InvalidSequenceStr):
    """same body, other message (class attribute _msg)"""
    prefix = "illegal site in sequence: "
    variants = ("illegal/details", "illegal/no-details")

    def setup(self, ex, st, variant):
        s = VObj("IllegalSite")
        st.set_inplace(s, "sequence", ex.models.sym_record(st, "CircularRecord", "rec"))
        st.set_inplace(s, "exc", NONE)
        st.set_inplace(s, "details", _details(variant))
        return dict(self=s)


class _ModsStr(_Str):
    field, count = None, 2

    def setup(self, ex, st, variant):
        s = VObj(self.kind)
        self.mods = [_module(st, k) for k in range(self.count)]
        st.set_inplace(s, self.field, VTuple(self.mods))
        st.set_inplace(s, "details", _details(variant))
        return dict(self=s)

    def names(self, ex, st, a):
        return [st.get(st.get(m, "record"), "id").t for m in self.mods]


class DuplicateModulesStr(_ModsStr):
    qual, kind, field, prefix = "DuplicateModules.__str__", "DuplicateModules", "duplicates", "duplicate modules: "


class UnusedModulesStr(_ModsStr):
    qual, kind, field, prefix, count = "UnusedModules.__str__", "UnusedModules", "remaining", "unused: ", 3


class MissingModuleStr(_Str):
    qual, kind = "MissingModule.__str__", "MissingModule"

    def setup(self, ex, st, variant):
        s = VObj("MissingModule")
        st.set_inplace(s, "start_overhang", VT(tm.V("overhang", STR)))
        st.set_inplace(s, "details", _details(variant))
        return dict(self=s)

    def names(self, ex, st, a):
        return [st.get(a["self"], "start_overhang").t]


CONTRACTS = [InvalidSequenceInit(), DuplicateModulesInit(), UnusedModulesInit(), MissingModuleInit(),
             InvalidSequenceStr(), DuplicateModulesStr(), UnusedModulesStr(), MissingModuleStr()]
