# coding: utf-8
"""Sidecar contracts for moclo/moclo/registry/base.py (CombinedRegistry) and registry/_utils.py (find_resistance).

A registry's `_data` is a python dict keyed by item id (str): `Array Text -> Item` with -1 for absent.  Items are
integer identities with item_id(i) their `.id`.  C20: a combined registry contains the union of its members'
keys; when two members share an id the first one added wins; lookup of an absent key raises KeyError; len and
iteration are those of the key set."""
from __future__ import annotations

from pyvc import term as tm
from pyvc.term import INT, BOOL, STR
from pyvc.values import VT, VObj, VNone, NONE, VTuple, VList, VDict, VClass, new_oid
from pyvc.contract import Contract, LoopSpec
from pyvc.models_moclo import MAP, ABSENT, map_arr, abstract_item

BASE = "moclo/moclo/registry/base.py"
UTL = "moclo/moclo/registry/_utils.py"
SEQI = tm.seq_sort(INT)
IDX = tm.arr_sort(STR, INT)


def item_id(i):
    return tm.app("item_id", STR, i)


def mk_combined(ex, st, prefix="D"):
    ex.models.elem_kind = "Item"
    reg = VObj("CombinedRegistry")
    d = VDict(new_oid())
    st.set_inplace(d, "items", {})
    st.set_inplace(d, "arr", VT(tm.V(prefix, MAP)))
    st.set_inplace(reg, "_data", d)
    return reg, d


def inv_data(D):
    """representation invariant: every entry is filed under its own id"""
    s = tm.V("s", STR)
    return tm.forall([s], tm.implies(tm.ne(tm.select(D, s), ABSENT),
                                     tm.and_(tm.eq(item_id(tm.select(D, s)), s), tm.le(0, tm.select(D, s)))))


def union_first_wins(D0, D1, R, upto, idx):
    """D1 = D0 extended by the items R[0..upto) under `first one wins`; idx[s] = position in R of the item filed"""
    s, j = tm.V("s", STR), tm.V("j", INT)
    old = tm.ne(tm.select(D0, s), ABSENT)
    new = tm.select(D1, s)
    k = tm.select(idx, s)
    return tm.forall([s], tm.and_(
        tm.implies(old, tm.eq(new, tm.select(D0, s))),
        tm.implies(tm.and_(tm.not_(old), tm.ne(new, ABSENT)),
                   tm.and_(tm.le(0, k), tm.lt(k, upto), tm.eq(tm.seqnth(R, k), new), tm.eq(item_id(new), s),
                           tm.forall_range(j, 0, k, tm.ne(item_id(tm.seqnth(R, j)), s)))),
        tm.implies(tm.and_(tm.not_(old), tm.eq(new, ABSENT)),
                   tm.forall_range(j, 0, upto, tm.ne(item_id(tm.seqnth(R, j)), s)))))


class AddLoop(LoopSpec):
    def __init__(self, con):
        self.con = con

    def havoc(self, ex, st, ctx, modified):
        st = LoopSpec.havoc(self, ex, st, ctx, modified)
        d = st.get(self.con.reg, "_data")
        st.set_inplace(d, "arr", VT(tm.fresh("D", MAP)))
        st.ghost["idx"] = tm.fresh("idx", IDX)
        return st

    def invariant(self, ex, st, ctx):
        D = map_arr(st, st.get(self.con.reg, "_data"))
        idx = st.ghost.get("idx", tm.constarr(IDX, 0))
        return [("union-of-the-items-seen-so-far-first-wins", union_first_wins(self.con.D0, D, self.con.R, ctx["k"], idx)),
                ("k-in-range", tm.le(ctx["k"], tm.seqlen(self.con.R)))]

    def at_body_start(self, ex, st, ctx):
        st = st.fork()
        st.ghost["D_at_start"] = map_arr(st, st.get(self.con.reg, "_data"))
        return st

    def at_body_end(self, ex, st, ctx):
        st = st.fork()
        key = item_id(tm.seqnth(self.con.R, ctx["k"]))
        before = st.ghost["D_at_start"]
        st.ghost["idx"] = tm.ite(tm.eq(tm.select(before, key), ABSENT), tm.store(st.ghost["idx"], key, ctx["k"]), st.ghost["idx"])
        return st


class AddRegistry(Contract):
    file, qual = BASE, "CombinedRegistry.add_registry"
    props = ("C20",)

    def setup(self, ex, st, variant):
        reg, d = mk_combined(ex, st, "D0")
        self.reg, self.D0, self.R = reg, tm.V("D0", MAP), tm.V("R", SEQI)
        member = VObj("MemberRegistry")
        st.set_inplace(member, "_values", VT(self.R, "list"))
        self.loops = {0: AddLoop(self)}
        return dict(self=reg, registry=member)

    def requires(self, ex, st, a):
        i = tm.V("i", INT)
        return [("items-have-identities", tm.forall_range(i, 0, tm.seqlen(self.R), tm.le(0, tm.seqnth(self.R, i)))),
                ("inv_data", inv_data(self.D0))]

    def ensures(self, ex, pre, st, a, result):
        D = map_arr(st, st.get(a["self"], "_data"))
        idx = st.ghost.get("idx", tm.constarr(IDX, 0))
        return [("union-of-keys-first-one-wins", union_first_wins(self.D0, D, self.R, tm.seqlen(self.R), idx)),
                ("inv_data-preserved", inv_data(D))]

    def result(self, ex, st, a):
        st = st.fork()
        st.set_inplace(st.get(a["self"], "_data"), "arr", VT(tm.fresh("D", MAP)))
        return [(st, NONE)]

    def model_terms(self, ex, st, a):
        return dict(R=self.R)


class Lookup(Contract):
    """__getitem__: KeyError exactly for an absent key; the item found carries the key as its id"""
    file, qual = BASE, "CombinedRegistry.__getitem__"
    props = ("C20",)

    def setup(self, ex, st, variant):
        reg, d = mk_combined(ex, st)
        return dict(self=reg, item=VT(tm.V("key", STR)))

    def requires(self, ex, st, a):
        return [("inv_data", inv_data(map_arr(st, st.get(a["self"], "_data"))))]

    def raises(self, ex, st, a):
        D = map_arr(st, st.get(a["self"], "_data"))
        return [("KeyError", tm.eq(tm.select(D, a["item"].t), ABSENT), None)]

    def ensures(self, ex, pre, st, a, result):
        D = map_arr(pre, pre.get(a["self"], "_data"))
        if not (isinstance(result, VObj) and result.kind == "Item"):
            return [("returns-an-item", tm.FALSE)]
        return [("the-item-filed-under-the-key", tm.eq(st.get(result, "ident").t, tm.select(D, a["item"].t))),
                ("item-carries-the-key-as-its-id", tm.eq(st.get(result, "id").t, a["item"].t))]

    def result(self, ex, st, a):
        st = st.fork()
        return [(st, abstract_item(st, tm.fresh("item", INT)))]

    def model_terms(self, ex, st, a):
        return dict(key=a["item"].t)


class Contains(Contract):
    file, qual = BASE, "CombinedRegistry.__contains__"
    props = ("C20",)

    def setup(self, ex, st, variant):
        reg, d = mk_combined(ex, st)
        return dict(self=reg, item=VT(tm.V("key", STR)))

    def ensures(self, ex, pre, st, a, result):
        D = map_arr(pre, pre.get(a["self"], "_data"))
        return [("membership-is-key-presence", tm.eq(result.t, tm.ne(tm.select(D, a["item"].t), ABSENT)))]

    def result(self, ex, st, a):
        return [(st, VT(tm.fresh("in", BOOL)))]


class Len(Contract):
    file, qual = BASE, "CombinedRegistry.__len__"
    props = ("C20",)

    def setup(self, ex, st, variant):
        reg, d = mk_combined(ex, st)
        return dict(self=reg)

    def ensures(self, ex, pre, st, a, result):
        D = map_arr(pre, pre.get(a["self"], "_data"))
        return [("length-is-the-number-of-keys", tm.eq(result.t, tm.app("card", INT, D)))]

    def result(self, ex, st, a):
        return [(st, VT(tm.fresh("len", INT)))]


class Iter(Contract):
    file, qual = BASE, "CombinedRegistry.__iter__"
    props = ("C20",)

    def setup(self, ex, st, variant):
        reg, d = mk_combined(ex, st)
        return dict(self=reg)

    def ensures(self, ex, pre, st, a, result):
        ok = isinstance(result, VObj) and result.kind == "dict_keyiterator" and st.get(result, "dict") is pre.get(a["self"], "_data")
        return [("iterates-the-key-set-of-the-data-dict", tm.B(ok))]

    def result(self, ex, st, a):
        o = VObj("dict_keyiterator")
        return [(st.set(o, "dict", st.get(a["self"], "_data")), o)]


# ------------------------------------------------------------------------------------------------ find_resistance
class ResLoop(LoopSpec):
    def __init__(self, con):
        self.con = con

    def invariant(self, ex, st, ctx):
        j = tm.V("j", INT)
        return [("no-earlier-feature-names-a-cassette",
                 tm.forall_range(j, 0, ctx["k"], tm.eq(tm.app("ncass", INT, tm.seqnth(self.con.F, j)), 0)))]


class FindResistance(Contract):
    """the antibiotic of the first feature labelled with exactly one known resistance cassette; RuntimeError when a
    feature names several, or none does.  The value is always one of the table's antibiotics."""
    file, qual = UTL, "find_resistance"
    props = ("C20",)

    def setup(self, ex, st, variant):
        ex.models.elem_kind = "FeatureAbs"
        rec = VObj("RecordAbs")
        self.F = tm.V("F", SEQI)
        st.set_inplace(rec, "features", VT(self.F, "list"))
        st.set_inplace(rec, "id", VT(tm.V("rid", STR)))
        self.loops = {0: ResLoop(self)}
        return dict(record=rec)

    def _first(self, F):
        """(exists a first feature with a non-zero count, its index term)"""
        return None

    def _F(self, st, a):
        f = st.get(a["record"], "features")
        if isinstance(f, VT) and f.t.sort == SEQI:
            return f.t
        return None   # a record whose feature table is not modelled feature by feature (call sites): abstract view

    def raises(self, ex, st, a):
        F = self._F(st, a)
        if F is None:
            return [("RuntimeError", None, None)]
        j, i = tm.V("j", INT), tm.V("i", INT)
        nc = lambda x: tm.app("ncass", INT, tm.seqnth(F, x))
        none = tm.forall_range(j, 0, tm.seqlen(F), tm.eq(nc(j), 0))
        several_first = tm.exists_range(i, 0, tm.seqlen(F), tm.and_(tm.lt(1, nc(i)), tm.forall_range(j, 0, i, tm.eq(nc(j), 0))))
        return [("RuntimeError", tm.or_(none, several_first), None)]

    def ensures(self, ex, pre, st, a, result):
        F = self._F(pre, a)
        table = self.table(ex)
        if not isinstance(result, VT):
            return [("returns-a-known-antibiotic", tm.FALSE)]
        known = tm.or_(*[tm.eq(result.t, tm.S(v)) for v in sorted(set(table.values()))])
        if F is None:
            return [("returns-a-known-antibiotic", known)]
        i, j = tm.V("i", INT), tm.V("j", INT)
        nc = lambda x: tm.app("ncass", INT, tm.seqnth(F, x))
        first = tm.exists_range(i, 0, tm.seqlen(F), tm.and_(
            tm.eq(nc(i), 1), tm.forall_range(j, 0, i, tm.eq(nc(j), 0)),
            tm.or_(*[tm.and_(tm.eq(tm.app("cass", STR, tm.seqnth(F, i)), tm.S(k)), tm.eq(result.t, tm.S(v)))
                     for k, v in sorted(table.items())])))
        return [("returns-a-known-antibiotic", known), ("of-the-first-feature-naming-exactly-one-cassette", first)]

    def table(self, ex):
        import ast
        mi = ex.repo.module(UTL)
        node = mi.assigns["_ANTIBIOTICS"]
        return {k.value: v.value for k, v in zip(node.keys, node.values)}

    def result(self, ex, st, a):
        return [(st, VT(tm.fresh("antibiotic", STR)))]

    def model_terms(self, ex, st, a):
        return dict(F=self._F(st, a))


CONTRACTS = [AddRegistry(), Lookup(), Contains(), Len(), Iter(), FindResistance()]


# ------------------------------------------------------------------------------------------------ FilesystemRegistry
class FsGetItem(Contract):
    """directory-backed lookup by file stem: KeyError exactly when no `<key>.<ext>` is a file (for the listed
    extensions, in order); the item found carries the key as its id.  (What `is a file` means for a key that
    contains a path separator is D-FS; the coherence with iteration is C20.L1.)"""
    file, qual = BASE, "FilesystemRegistry.__getitem__"
    props = ("C20",)
    EXT = ("gb", "gbk")

    def setup(self, ex, st, variant):
        reg = VObj("FilesystemRegistry")
        st.set_inplace(reg, "fs", VObj("FSAbs"))
        st.set_inplace(reg, "_extensions", VTuple([VT(tm.S(e)) for e in self.EXT]))
        base = ex.models.sym_class("AbstractPart", tm.V("base", INT))
        st.set_inplace(reg, "base", base)
        ex.models.init_cache(st)
        return dict(self=reg, item=VT(tm.V("key", STR)))

    def candidates(self, key):
        return [tm.concat(key, ".", e) for e in self.EXT]

    def raises(self, ex, st, a):
        key = a["item"].t
        cands = self.candidates(key)
        # absent key = a key the iteration does not yield: no `<key>.<ext>` is a file *of the root directory*
        # (D-FS: filterdir('/') lists root-level files only; a root-level path has no separator)
        nofile = tm.and_(*[tm.not_(tm.and_(tm.app("fs_isfile", BOOL, c), tm.not_(tm.contains(c, "/")))) for c in cands])
        return [("KeyError", nofile, None),
                # content errors of the first existing candidate (outside C20's quantifier: typed GenBank plasmids)
                ("ValueError", None, None), ("RuntimeError", None, None)]

    def assumes(self, ex, st, a):
        # D-FS: splitext(x + '.' + e) = (x, '.' + e) for the listed extensions
        key = a["item"].t
        return [tm.eq(tm.app("path_stem", STR, c), key) for c in self.candidates(key)]

    def ensures(self, ex, pre, st, a, result):
        if not (isinstance(result, VObj) and result.kind == "Item"):
            return [("returns-an-item", tm.FALSE)]
        rec_id = st.get(result, "id")
        out = [("item-carries-the-key-as-its-id", tm.eq(rec_id.t, a["item"].t) if isinstance(rec_id, VT) else tm.FALSE)]
        ent = st.get(result, "entity")
        rec = st.get(ent, "record") if isinstance(ent, VObj) else None
        rid = st.get(rec, "id") if isinstance(rec, VObj) else None
        if ent is not None:
            # "... holds a circular record with that id": the record the entity wraps, not only the item's own field
            out.append(("record-of-the-item-carries-the-key-as-its-id", tm.eq(rid.t, a["item"].t) if isinstance(rid, VT) else tm.FALSE))
            out.append(("record-of-the-item-is-circular", tm.B(isinstance(rec, VObj) and rec.kind == "CircularRecord")))
        return out

    def result(self, ex, st, a):
        st = st.fork()
        return [(st, abstract_item(st, tm.fresh("item", INT)))]

    def model_terms(self, ex, st, a):
        return dict(key=a["item"].t)


CONTRACTS.append(FsGetItem())
